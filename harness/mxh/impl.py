"""Access to the real modelx (imported from /repo's working tree) and helpers shared by the
property harnesses."""
import contextlib
import io
import os
import sys
import warnings

from . import core

if core.REPO not in sys.path:
    sys.path.insert(0, core.REPO)

warnings.filterwarnings("ignore")
import modelx as mx  # noqa: E402
from modelx.core.errors import (  # noqa: E402
    DeepReferenceError, DeletedObjectError, FormulaError, NoneReturnedError)

assert os.path.realpath(mx.__file__).startswith(os.path.realpath(core.REPO)), (
    "modelx imported from %s, not from %s" % (mx.__file__, core.REPO))

_system = mx.core.mxsys


def close_all():
    for m in list(mx.get_models().values()):
        try:
            m.close()
        except Exception:
            pass
    # whatever survived a broken close is removed by force so that histories stay independent
    _system._models.clear()
    _system.currentmodel = None
    _system._modelnamer.reset()
    _system._backupnamer.reset()
    ex = _system.executor
    ex.callstack.clear()
    ex.callstack.idxstack.clear()
    ex.callstack.counter = 0
    ex.refstack.clear()
    ex.rolledback.clear()
    ex.is_executing = False
    ex.errorstack = None
    ex.excinfo = None
    _system.serializing = None
    _system.iomanager.serializing = None
    mx.set_recalc(False) if mx.get_recalc() else None


@contextlib.contextmanager
def quiet():
    with warnings.catch_warnings():
        warnings.simplefilter("ignore")
        old = sys.stderr
        sys.stderr = io.StringIO()
        try:
            yield
        finally:
            sys.stderr = old


def err_kind(e):
    """Map an exception to the small enum used in observations."""
    if isinstance(e, FormulaError):
        return "Formula"
    if isinstance(e, DeepReferenceError):
        return "Deep"
    if isinstance(e, NoneReturnedError):
        return "NoneReturned"
    if isinstance(e, DeletedObjectError):
        return "Deleted"
    if isinstance(e, KeyboardInterrupt):
        return "KeyboardInterrupt"
    for cls, k in ((ZeroDivisionError, "ZeroDiv"), (KeyError, "Key"), (ValueError, "Value"),
                   (TypeError, "Type"), (NameError, "Name"), (AttributeError, "Attribute"),
                   (SyntaxError, "Syntax"), (AssertionError, "Assertion"), (RuntimeError, "Runtime"),
                   (IndexError, "Index"), (OSError, "OS")):
        if isinstance(e, cls):
            return k
    return type(e).__name__
