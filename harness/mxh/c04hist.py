"""C04 over HISTORIES of writes: (edit*, write)+ to ONE target path.

The single-write oracle of `props/c04.py` writes every model into a fresh path.  The round-trip
property is quantified over "repeated write-read-write chains" and over every configuration of the
writer, and what a write leaves at its target depends on what was there before: an earlier version of
the same model (with MORE content: inputs that were withdrawn since, cells / spaces / references that
were deleted, pickled values that became literals, IO files whose reference is gone, an input log that
is no longer asked for), in the same or in the other container format, with or without backups.

A history program is a model program of `props/c04.py` plus

    "steps": [{"edits": [op, ...], "write": {"fmt": "dir"|"zip", "backup": bool, "log_input": bool,
                                               "compression": name, "compresslevel": n|None,
                                               "api": "func"|"method"}}, ...]

Every write goes to the same path.  After EVERY write (implementation only, no model involved):

* read-back: the target is read into a fresh model and compared with the LIVE model by the complete
  canonical description and the values of all cells (`c04.read_and_compare`, the comparison of the
  single-write oracle, known findings predicted field by field);
* exact files: the same live model is written with the same options to a FRESH path; the target must be
  the same kind of thing (directory / archive) and hold exactly the same entries with the same bytes -
  no stale entry, no missing entry, no member twice, same compression method per member;
* directory = zip: the live model written in the OTHER format to a fresh path holds the same files;
* writing alters nothing in the model except `path`;
* backups (cheap by-product, C14 proves the rotation): with `backup=True` what was at the target is now at
  `_BAK1`, `_BAKn` moved to `_BAKn+1`, nothing beyond DEFAULT_MAX_BACKUPS; with `backup=False` no
  other slot changed; nothing else appears beside the target.

Correspondence (`mxdriver codec`, op `saves`): the Lean model `Kernels/SaveFiles.lean` of
`serialize.write_model` at the level of file NAMES (`_increment_backups`, the in-place directory writer,
the build-aside-and-move archive writer) is given the sequence (format, max_backups, names this write
produces in a fresh path) and must predict, after every write, which slots exist, their kind, every entry
name, and for every entry the write whose content it holds (checked against that write's reference bytes).

Generation is ONLINE but pure: `plan_history` builds the model, looks at its description, draws edits
from what exists (inputs to withdraw, ItemSpaces to clear, objects to delete ...), applies them to a
planning model (no file is written) and records the accepted ones; the result is a plain program that
`run_history` executes.  Everything random comes from the `rng` handed in (VERIF_SEED).
"""
import ast
import copy
import json
import os
import shutil
import tempfile
import time
import zipfile

from . import core
from .impl import mx, close_all, quiet, err_kind
from .props import c04 as base

import modelx.serialize as _ser  # noqa: E402

MAX_BACKUPS = _ser.DEFAULT_MAX_BACKUPS

COMPRESSIONS = {"deflated": zipfile.ZIP_DEFLATED, "stored": zipfile.ZIP_STORED,
                "bzip2": zipfile.ZIP_BZIP2, "lzma": zipfile.ZIP_LZMA}

LITERAL_KINDS = ("int", "str", "float", "bool", "NoneType")     # written as text, everything else is pickled


# =====================================================================================
# 1. what is on disk
# =====================================================================================

def slot_path(target, i):
    return target if i == 0 else "%s_BAK%d" % (target, i)


def node_state(path):
    """None | ("dir", {relative name: bytes; directories as 'name/': b''}) |
    ("zip", sorted [(member name, compression method, bytes)]) | ("file", bytes)"""
    if os.path.isdir(path):
        res = {}
        for b, dirs, files in os.walk(path):
            for d in dirs:
                res[os.path.relpath(os.path.join(b, d), path).replace(os.sep, "/") + "/"] = b""
            for f in files:
                p = os.path.join(b, f)
                with open(p, "rb") as fh:
                    res[os.path.relpath(p, path).replace(os.sep, "/")] = fh.read()
        return ("dir", res)
    if os.path.isfile(path):
        if zipfile.is_zipfile(path):
            with zipfile.ZipFile(path) as z:
                return ("zip", sorted((i.filename, i.compress_type, z.read(i)) for i in z.infolist()))
        with open(path, "rb") as fh:
            return ("file", fh.read())
    if os.path.lexists(path):
        return ("other", None)
    return None


def files_of(state):
    """{file name: bytes} of a node, directories left out (what `dir == zip` is about);
    a member that occurs twice is reported under 'name#2'"""
    if state is None:
        return {}
    if state[0] == "dir":
        return {n: b for n, b in state[1].items() if not n.endswith("/")}
    if state[0] == "zip":
        res = {}
        for n, _, data in state[1]:
            if n.endswith("/"):
                continue
            k, j = n, 1
            while k in res:
                j += 1
                k = "%s#%d" % (n, j)
            res[k] = data
        return res
    return {"<file>": state[1]}


def entries_of(state):
    """names of everything inside a node, as a sorted list (a member that occurs twice occurs twice)"""
    if state is None:
        return []
    if state[0] == "dir":
        return sorted(state[1])
    if state[0] == "zip":
        return sorted(n for n, _, _ in state[1])
    return ["<file>"]


def do_write(m, path, w):
    kw = {}
    if "backup" in w:
        kw["backup"] = bool(w["backup"])
    if w.get("log_input"):
        kw["log_input"] = True
    if w["fmt"] == "zip":
        if w.get("compression") is not None:
            kw["compression"] = COMPRESSIONS[w["compression"]]
        if w.get("compresslevel") is not None:
            kw["compresslevel"] = w["compresslevel"]
        fn = m.zip if w.get("api") == "method" else (lambda p, **k: mx.zip_model(m, p, **k))
    else:
        fn = m.write if w.get("api") == "method" else (lambda p, **k: mx.write_model(m, p, **k))
    fn(path, **kw)


def backup_of(w):
    return bool(w.get("backup", True))


# =====================================================================================
# 2. running one history
# =====================================================================================

def _bump(stats, k, n=1):
    stats[k] = stats.get(k, 0) + n


def has_null(desc):
    """a reference / input value that is a deleted object: not a model C04 speaks about"""
    return '["null"' in json.dumps(desc, default=str)


def drop_computed(m):
    """Forget every computed value of the live model (inputs and ItemSpaces stay).  The values the read-back
    is compared with must be what the live model COMPUTES now: a value cached before a later edit can be
    stale where modelx tracks no dependency (a formula reading `len(space.cells)`: adding a cells to a base
    clears nothing) - C02's subject, and caches are not saved."""
    def rec(s):
        s.clear_cells(clear_input=False, recursive=False)
        for it in list(s._named_itemspaces.values()):
            rec(it)
        for sub in s.named_spaces.values():
            rec(sub)
    for s in m.spaces.values():
        rec(s)


def dry_run(prog):
    """apply ops and all edits, no file written -> (rejected base-op indices, rejected (step, edit) pairs,
    index of the first step after whose edits a value is a deleted object or None)"""
    close_all()
    b = base.Builder("M")
    b.build(prog["ops"])
    rej_ops = set(b.rejected)
    rej_edits = set()
    null_at = None
    for si, st in enumerate(prog["steps"]):
        for ei, op in enumerate(st.get("edits", [])):
            try:
                with quiet():
                    b.apply(op)
            except Exception:
                rej_edits.add((si, ei))
        if null_at is None:
            with quiet():
                if has_null(base.describe(b.m)):
                    null_at = si
    close_all()
    return rej_ops, rej_edits, null_at


def accepted_only(prog, stats=None):
    """Only models built by ACCEPTED operations (what a rejected operation leaves behind is C11's
    subject) and without references to deleted objects (C13's): drop what is rejected, cut the history
    before the step that makes a dead reference.  -> program or None"""
    prog = {"ops": list(prog["ops"]), "cfg": dict(prog.get("cfg", {})),
            "steps": [{"edits": list(s.get("edits", [])), "write": dict(s["write"])} for s in prog["steps"]]}
    for _ in range(5):
        rej_ops, rej_edits, null_at = dry_run(prog)
        if null_at is not None:
            prog["steps"] = prog["steps"][:null_at]
            if stats is not None:
                _bump(stats, "hist:cut-before-dead-reference")
            if not prog["steps"]:
                return None
            continue
        if not rej_ops and not rej_edits:
            return prog
        if stats is not None:
            _bump(stats, "hist:rebuilt-without-rejected-ops")
        prog["ops"] = [o for i, o in enumerate(prog["ops"]) if i not in rej_ops]
        for si, st in enumerate(prog["steps"]):
            st["edits"] = [o for ei, o in enumerate(st["edits"]) if (si, ei) not in rej_edits]
    return None


def _first_diff(a, b):
    """a, b: {name: bytes}"""
    stale = sorted(set(a) - set(b))
    missing = sorted(set(b) - set(a))
    differ = sorted(n for n in set(a) & set(b) if a[n] != b[n])
    return stale, missing, differ


def run_history(prog, out, stats, model=True, prepared=False):
    """-> number of writes compared with the Lean model of the save step; failures go to `out` with
    detail["oracle"] naming the clause that failed and detail["step"] the write after which it failed;
    the history reported is cut after that write."""
    if not prepared:
        prog = accepted_only(prog, stats)
        if prog is None:
            _bump(stats, "hist:dropped")
            return 0
    ops, cfg, steps = prog["ops"], prog.get("cfg", {}), prog["steps"]
    close_all()
    tmp = tempfile.mkdtemp(prefix="mxh_c04h_")
    work = os.path.join(tmp, "w")
    refs = os.path.join(tmp, "ref")
    os.makedirs(work)
    os.makedirs(refs)
    target = os.path.join(work, cfg.get("target", "model"))
    nslots = MAX_BACKUPS + 2
    trace = []              # for the Lean model: (fmt, max_backups, names written by this write)
    posts = []              # the slots after every write
    wants = []              # what a fresh write of the same model with the same options gave

    def hist_upto(k):
        return {"ops": ops, "cfg": cfg, "steps": steps[:k + 1]}

    def fail(what, k, oracle, detail=None, key=None):
        d = {"oracle": oracle, "step": k}
        d.update(detail or {})
        out.fail(what, hist_upto(k), detail=d, key=key)

    def steps_():
        b = base.Builder("M")
        m = b.build(ops)
        if b.rejected:
            _bump(stats, "hist:dropped")
            return
        _bump(stats, "hist:histories")
        read_known_failure = False
        for k, st in enumerate(steps):
            w = st["write"]
            for op in st.get("edits", []):
                try:
                    with quiet():
                        b.apply(op)
                    _bump(stats, "hist:edit:" + op[0])
                except Exception:
                    _bump(stats, "hist:edit-rejected-at-run")
                    return
            with quiet():
                desc = base.describe(m)
                drop_computed(m)
                vals = base.evaluate_all(m)
                desc_b = base.describe(m)
            if desc != desc_b:
                fail("evaluating cells changed the description of the model", k, "evaluation-inert")
                return
            if has_null(desc):
                _bump(stats, "hist:cut-before-dead-reference")
                return
            snap = base.cache_snapshot(m)
            pre = [node_state(slot_path(target, i)) for i in range(nslots)]

            # ---- the write under test
            label = "write %d of the history (%s, backup=%s)" % (k + 1, w["fmt"], backup_of(w))
            try:
                with quiet():
                    do_write(m, target, w)
            except Exception as e:
                # whether a failed save loses anything is C14's subject; the history ends here
                _bump(stats, "hist:write-error:" + err_kind(e))
                # ... unless the same model CAN be written to a fresh path with the same options
                try:
                    with quiet():
                        do_write(m, os.path.join(refs, "probe_%d" % k), dict(w, backup=False))
                except Exception:
                    return
                fail("%s raises %s; the same model with the same options is written to a fresh path without "
                     "error" % (label, err_kind(e)), k, "write-fails-only-on-existing-target",
                     {"error": err_kind(e)})
                return
            _bump(stats, "hist:writes")
            _bump(stats, "hist:write:%s:%s" % (w["fmt"], "backup" if backup_of(w) else "nobackup"))
            if pre[0] is not None:
                _bump(stats, "hist:write-onto:%s-over-%s:%s" % (
                    w["fmt"], pre[0][0], "backup" if backup_of(w) else "nobackup"))
            if str(m.path) != target:
                fail("model.path is %r after %s" % (str(m.path), label), k, "path")
            with quiet():
                d1 = base.describe(m)
                s1 = base.cache_snapshot(m)
            if d1 != desc:
                fa, fb = base.flatten(desc), base.flatten(d1)
                diff = sorted(p for p in set(fa) | set(fb) if fa.get(p) != fb.get(p))[:3]
                fail("%s altered the model: %s" % (label, ["/".join(p) for p in diff]), k, "write-inert")
            elif s1 != snap:
                diff = sorted(x for x in set(snap) | set(s1) if snap.get(x) != s1.get(x))[:3]
                fail("%s altered stored values or ItemSpaces: %s" % (label, diff), k, "write-inert")
            post = [node_state(slot_path(target, i)) for i in range(nslots)]

            # ---- reference: the same live model, same options, fresh path; and the other format
            ref_same = os.path.join(refs, "same_%d%s" % (k, ".zip" if w["fmt"] == "zip" else ""))
            ref_other = os.path.join(refs, "other_%d%s" % (k, "" if w["fmt"] == "zip" else ".zip"))
            try:
                with quiet():
                    do_write(m, ref_same, w)
                    do_write(m, ref_other, {"fmt": "dir" if w["fmt"] == "zip" else "zip",
                                            "log_input": w.get("log_input", False)})
            except Exception as e:
                fail("after %s the same model cannot be written to a fresh path (%s)" % (label, err_kind(e)),
                     k, "reference-write", {"error": err_kind(e)})
                return
            want = node_state(ref_same)
            other = node_state(ref_other)
            got = post[0]
            vanished = sorted(set(files_of(pre[0])) - set(files_of(want))) if pre[0] is not None else []
            if vanished:
                _bump(stats, "hist:fewer-files-than-before:%s-over-%s:%s" % (
                    w["fmt"], pre[0][0], "backup" if backup_of(w) else "nobackup"))
            exact = True
            if got is None or got[0] != want[0]:
                exact = False
                fail("after %s the target is %s, a fresh write gives %s" % (
                    label, "absent" if got is None else "a " + got[0], "a " + want[0]), k, "target-kind")
            else:
                eg, ew = entries_of(got), entries_of(want)
                if eg != ew:
                    exact = False
                    stale = sorted(set(eg) - set(ew))
                    missing = sorted(set(ew) - set(eg))
                    twice = sorted(set(n for n in eg if eg.count(n) > ew.count(n)) - set(stale))
                    fail("after %s the target does not hold exactly the files of this write: stale %s, missing %s%s"
                         % (label, stale, missing, (", more than once %s" % twice) if twice else ""),
                         k, "exact-files", {"stale": stale, "missing": missing, "twice": twice,
                                            "vanished_since_previous_write": vanished})
                elif got != want:
                    exact = False
                    if got[0] == "dir":
                        differ = sorted(n for n in got[1] if got[1][n] != want[1][n])
                    else:
                        differ = sorted(set(a[0] for a, c in zip(got[1], want[1]) if a != c))
                    fail("after %s %s differs from what a fresh write of the same model gives" % (label, differ[:3]),
                         k, "exact-bytes", {"differ": differ})
            fo, fg = files_of(other), files_of(got)
            if got is not None and exact:
                stale, missing, differ = _first_diff(fg, fo)
                if stale or missing:
                    fail("directory and zip hold different files after %s: only in %s %s, only in %s %s" % (
                        label, w["fmt"], stale, "zip" if w["fmt"] == "dir" else "dir", missing), k, "dir-eq-zip")
                elif differ:
                    fail("file %s differs between directory and zip after %s" % (differ[0], label), k, "dir-eq-zip")
            _bump(stats, "files", len(fg))

            # ---- the other slots
            rotated = backup_of(w) and pre[0] is not None
            for i in range(1, nslots):
                if rotated:
                    exp_i = pre[i - 1] if i <= MAX_BACKUPS else None
                else:
                    exp_i = pre[i]
                if post[i] != exp_i:
                    def short(s):
                        return "absent" if s is None else "%s with %d entries" % (s[0], len(entries_of(s)))
                    fail("after %s %s is %s; expected %s" % (
                        label, os.path.basename(slot_path(target, i)), short(post[i]),
                        ("what was at %s before" % os.path.basename(slot_path(target, i - 1)))
                        if rotated and i <= MAX_BACKUPS else ("nothing" if rotated else "no change")),
                        k, "backups", {"slot": i})
                    break
            extra = sorted(set(os.listdir(work)) - set(os.path.basename(slot_path(target, i)) for i in range(nslots)))
            if extra:
                fail("after %s there is something else beside the target: %s" % (label, extra), k, "residue")

            # ---- for the Lean model of the save step (file names): see `check_model`
            trace.append((w["fmt"], MAX_BACKUPS if backup_of(w) else 0, entries_of(want)))
            posts.append(post)
            wants.append(want)

            # ---- read the target back, compare with the live model
            if not read_known_failure:
                scratch = core.Outcome()
                m2 = base.read_and_compare(target, "target after " + label, desc, vals, hist_upto(k), scratch,
                                           stats, name="R", expect_name="R")
                for f in scratch.failures:
                    d = dict(f["detail"] or {})
                    d.update({"oracle": "read-back", "step": k})
                    out.fail(f["what"], f["history"], detail=d, key=f["key"])
                if m2 is None:
                    # the read fails (a known reference-order finding, or a violation just reported):
                    # nothing to compare after later writes either, the file oracles go on
                    read_known_failure = True
                else:
                    with quiet():
                        m2.close()
                if str(m.path) != ref_other or m.name != "M":
                    fail("reading the target changed the live model (path %r, name %r)" % (str(m.path), m.name),
                         k, "read-inert")
            _bump(stats, "hist:steps")

    try:
        steps_()
        if model and trace:
            return check_model(trace, posts, wants, hist_upto, out)
        return 0
    finally:
        close_all()
        shutil.rmtree(tmp, ignore_errors=True)


# ---- SaveFiles correspondence ---------------------------------------------------------------

def trace_line(trace):
    """saves <fmt>:<maxB>:<name>;<name>...|...   (names as code points, see Driver/Codec.lean)"""
    parts = []
    for fmt, maxb, names in trace:
        parts.append("%s:%d:%s" % (fmt, maxb, ";".join(base.enc_str(n) for n in names) if names else "."))
    return "saves " + "|".join(parts)


def parse_state(text):
    """'0=dir[97@0;98@0] 1=zip[..]' -> {slot: (kind, [(name, write index)])}"""
    res = {}
    for part in text.split():
        slot, _, rest = part.partition("=")
        kind, _, body = rest.partition("[")
        body = body[:-1]
        ents = []
        for e in (body.split(";") if body else []):
            n, _, g = e.rpartition("@")
            ents.append((base.dec_str(n), int(g)))
        res[int(slot)] = (kind, ents)
    return res


def _summary(slots):
    return " ".join("%d=%s[%s]" % (i, s[0], ";".join(entries_of(s))) for i, s in enumerate(slots) if s is not None)


def _readable(ms):
    return " ".join("%d=%s[%s]" % (i, ms[i][0], ";".join("%s@%d" % e for e in sorted(ms[i][1]))) for i in sorted(ms))


def check_model(trace, posts, wants, hist_upto, out):
    """The Lean model `SaveFiles.run` on (format, max_backups, names each write produces when it goes to a
    fresh path) against the real slots after every write: same slots, same kind, same entry names, and
    every entry the model says is from write g has the bytes write g gave it in its fresh reference."""
    got = core.run_driver("codec", [trace_line(trace)])[0]
    if not got.startswith("ok "):
        out.disagree(hist_upto(len(trace) - 1), len(trace) - 1, "every write succeeded", got, layer="codec")
        return len(trace)
    states = got[3:].split(" | ")
    for k, post in enumerate(posts):
        if k >= len(states) or states[k] == "err":
            out.disagree(hist_upto(k), k, "write %d succeeded: %s" % (k + 1, _summary(post)),
                         states[k] if k < len(states) else "(no state)", layer="codec")
            return len(trace)
        ms = parse_state(states[k])
        real = {i: s for i, s in enumerate(post) if s is not None}
        why = None
        if sorted(ms) != sorted(real):
            why = "existing slots"
        else:
            for i in sorted(real):
                kind, ents = ms[i]
                if kind != real[i][0]:
                    why = "kind of slot %d" % i
                elif sorted(n for n, _ in ents) != entries_of(real[i]):
                    why = "entries of slot %d" % i
                else:
                    gens = set(g for _, g in ents)
                    if len(gens) == 1:
                        if real[i] != wants[gens.pop()]:
                            why = "content of slot %d" % i
                    elif real[i][0] == "dir":
                        for n, g in ents:
                            if wants[g][0] != "dir" or wants[g][1].get(n) != real[i][1][n]:
                                why = "content of %s in slot %d" % (n, i)
                                break
                if why:
                    break
        if why:
            out.disagree(hist_upto(k), k, "after write %d: %s (differs in: %s)" % (k + 1, _summary(post)[:600], why),
                         _readable(ms)[:600], layer="codec")
            return len(trace)
    return len(trace)


# =====================================================================================
# 3. generating histories
# =====================================================================================

FRESH_CELLS = base.CELLS_NAMES + ["c1", "c2", "zz"]
FRESH_SPACES = base.SPACE_NAMES + ["E", "F"]
FRESH_REFS = base.REF_NAMES + ["r1", "r2"]
IO_NAMES = ["df", "ser", "tab"]

GROW = ["input", "iinput", "ref-literal", "ref-pickled", "ref-obj", "cells", "space", "doc", "cdoc", "pandas",
        "bases", "flag", "rename-cells", "rename-space", "eval"]
SHRINK = ["withdraw-one", "withdraw-all", "clear-all", "cells-formula", "sclear-cells", "items", "item-del", "iclear",
          "sclear-all", "sformula", "del-cells", "del-space", "ref-del", "ref-to-literal", "io-del", "rmbases",
          "all-pickles"]


def _walk(desc):
    """-> spaces [(path, sd)], cells [(space path, name, cd)], refs [(owner path or '', name, rd)]"""
    spaces, cells, refs = [], [], []

    def walk(sd, path):
        spaces.append((path, sd))
        for cn in sorted(sd["cells"]):
            cells.append((path, cn, sd["cells"][cn]))
        for rn in sorted(sd["refs"]):
            refs.append((path, rn, sd["refs"][rn]))
        for sn in sorted(sd["spaces"]):
            walk(sd["spaces"][sn], path + "." + sn)
    for sn in sorted(desc["spaces"]):
        walk(desc["spaces"][sn], sn)
    for rn in sorted(desc["refs"]):
        refs.append(("", rn, desc["refs"][rn]))
    return spaces, cells, refs


def _referenced(x, acc):
    """names of the objects that some value (reference, input, inside a container) is"""
    if isinstance(x, list):
        if len(x) == 4 and x[0] == "obj" and isinstance(x[2], str):
            acc.add(x[2])
        for y in x:
            _referenced(y, acc)
    elif isinstance(x, dict):
        for y in x.values():
            _referenced(y, acc)
    return acc


def _protected(path, referenced):
    return any(r == path or r.startswith(path + ".") for r in referenced)


def _is_io(rd):
    return rd["value"][0] in ("DataFrame", "Series")


def _is_pickled(rd):
    return rd["value"][0] not in LITERAL_KINDS and rd["value"][0] != "obj"


def _item_segs(spath, key):
    """'(1,)/Child/(0,)/foo' -> ([[spath, [1]], ['Child', [0]]], 'foo')"""
    parts = key.split("/")
    segs = [[spath, list(ast.literal_eval(parts[0]))]]
    for part in parts[1:-1]:
        if part.startswith("("):
            segs[-1][1] = list(ast.literal_eval(part))
        else:
            segs.append([part, None])
    return segs, parts[-1]


def candidates(rng, desc):
    """-> [(kind, weight, [ops])] drawn from what the model holds right now"""
    spaces, cells, refs = _walk(desc)
    referenced = _referenced(json.loads(json.dumps(desc, default=str)), set())
    targets = [""] + [p for p, _ in spaces] + [p + "." + cn for p, cn, _ in cells]
    vkinds = ["int"] * 5 + ["str", "list", "obj", "pt", "float", "shared", "tuple"]
    res = []

    def used(sd, model_level=False):
        if model_level:
            return set(desc["spaces"]) | set(desc["refs"])
        return set(sd["cells"]) | set(sd["spaces"]) | set(sd["refs"]) | set(desc["refs"]) | set(sd["parameters"] or [])

    def fresh(pool, taken):
        free = [n for n in pool if n not in taken]
        return base._pick(rng, free) if free else None

    # ------------------------------------------------------------------ taking content away
    for p, cn, cd in cells:
        cpath = p + "." + cn
        keys = [list(ast.literal_eval(k)) for k in sorted(cd["inputs"])]
        if keys:
            res.append(("withdraw-one", 2, [["clear_at", cpath, base._pick(rng, keys)]]))
            res.append(("withdraw-all", 3, [["clear_at", cpath, k] for k in keys]))
            res.append(("clear-all", 2, [["clear_all", cpath]]))
            if not cd["derived"] and cd["source"] is not None:
                ps = ", ".join(cd["parameters"])
                res.append(("cells-formula", 1, [["formula", cpath, "lambda %s: %d" % (ps, rng.randrange(50))]]))
        if not cd["derived"] and not _protected(cpath, referenced):
            res.append(("del-cells", 3 if keys else 1, [["del", p, cn]]))
            res.append(("rename-cells", 2 if keys else 0.7, [["rename", cpath, cn + "_r"]]))
        if not cd["derived"] and cd["source"] is not None:
            res.append(("cdoc", 0.5, [["cdoc", cpath, base.gen_doc(rng)]]))
            res.append(("flag", 0.3, [["cached", cpath, not cd["is_cached"]]]))
        n_args = len([prm for prm in cd["parameters"]])
        res.append(("input", 3 if not keys else 1.5,
                    [["input", cpath, [rng.randrange(4) for _ in range(n_args)],
                      base.gen_value(rng, base._pick(rng, vkinds), targets, None)]]))
        res.append(("eval", 0.3, [["eval", cpath, [rng.randrange(3) for prm in cd["parameters"] if "=" not in prm]]]))
    for p, sd in spaces:
        has_inputs = any(cd["inputs"] for cd in sd["cells"].values())
        if has_inputs:
            res.append(("sclear-cells", 1.5, [["sclear", p, "cells"]]))
        if sd["item_inputs"]:
            res.append(("items", 2, [["sclear", p, "items"]]))
            res.append(("sclear-all", 1, [["sclear", p, "all"]]))
            key = base._pick(rng, sorted(sd["item_inputs"]))
            segs, cn = _item_segs(p, key)
            res.append(("item-del", 2, [["item_del", p, segs[0][1]]]))
            res.append(("iclear", 2, [["iclear", segs, cn, None]]))
            if rng.random() < 0.5:
                res.append(("sformula", 1, [["sformula", p, None]]))
            else:
                res.append(("sformula", 1, [["sformula", p, "lambda %s: None" % ", ".join(sd["parameters"] or ["i"])]]))
        parent, _, sn = p.rpartition(".")
        if not _protected(p, referenced) and (parent or len(desc["spaces"]) > 1):
            heavy = has_inputs or bool(sd["item_inputs"]) or bool(sd["spaces"])
            res.append(("del-space", 2.5 if heavy else 1, [["del", parent, sn]]))
            res.append(("rename-space", 1.5 if heavy else 0.5, [["rename", p, sn + "r"]]))
        if sd["direct_bases"]:
            res.append(("rmbases", 1, [["rmbases", p, [base._pick(rng, sd["direct_bases"])]]]))
        if sd["parameters"] is not None and sd["cells"]:
            cn = base._pick(rng, sorted(sd["cells"]))
            cd = sd["cells"][cn]
            res.append(("iinput", 3 if not sd["item_inputs"] else 1.5,
                        [["iinput", [[p, [rng.randrange(3) for _ in sd["parameters"]]]], cn,
                          [rng.randrange(4) for _ in cd["parameters"]],
                          base.gen_value(rng, base._pick(rng, vkinds), targets, None)]]))
        taken = used(sd)
        nm = fresh(FRESH_CELLS, taken)
        if nm:
            src = rng.choice(["lambda x: x + %d" % rng.randrange(9), "def %s(x):\n    return 2 * x + %d" % (nm, rng.randrange(9)),
                              "lambda: %d" % rng.randrange(9)])
            ops = [["cells", p, nm, src, {}]]
            if rng.random() < 0.6:
                ops.append(["input", p + "." + nm, [rng.randrange(4)] if "x" in src else [],
                            base.gen_value(rng, base._pick(rng, vkinds), targets, None)])
            res.append(("cells", 2, ops))
        nm = fresh(FRESH_SPACES, taken)
        if nm:
            f = rng.choice([None, None, "lambda i: None"])
            ops = [["space", p, nm, f], ["cells", p + "." + nm, "foo", "lambda x: x * 3", {}]]
            if rng.random() < 0.7:
                ops.append(["input", p + "." + nm + ".foo", [rng.randrange(4)], ["int", rng.randrange(99)]])
            if f and rng.random() < 0.6:
                ops.append(["iinput", [[p + "." + nm, [rng.randrange(3)]]], "foo", [rng.randrange(4)], ["int", 5]])
            res.append(("space", 1.5, ops))
        nm = fresh(FRESH_REFS, taken)
        if nm:
            res.append(("ref-literal", 1, [["ref", p, nm, base.gen_value(rng, rng.choice(["int", "str", "float", "bool"]),
                                                                        targets, None), "attr"]]))
            res.append(("ref-pickled", 2, [["ref", p, nm, base.gen_value(rng, rng.choice(
                ["list", "tuple", "dict", "pt", "bytes", "shared", "module"]), targets, None), "attr"]]))
            res.append(("ref-obj", 1, [["ref", p, nm, base.gen_value(rng, "obj", targets, None),
                                        rng.choice(["auto", "absolute", "relative"])]]))
        nm = fresh(IO_NAMES, taken)
        if nm:
            res.append(("pandas", 1.5, [_pandas_op(rng, p, nm)]))
        res.append(("doc", 0.5, [["doc", p, base.gen_doc(rng)]]))
        res.append(("flag", 0.3, [["allow_none", p, rng.choice([True, False, None])]]))
        others = [q for q, _ in spaces if q != p and not q.startswith(p + ".") and not p.startswith(q + ".")
                  and q not in sd["bases"]]
        if others:
            res.append(("bases", 0.5, [["bases", p, [base._pick(rng, others)]]]))
    for owner, rn, rd in refs:
        if owner and rd.get("derived"):
            continue
        if _is_io(rd):
            res.append(("io-del", 3, [["del", owner, rn]]))
            continue
        res.append(("ref-del", 2 if _is_pickled(rd) else 1, [["del", owner, rn]]))
        if rd["value"][0] not in LITERAL_KINDS:
            res.append(("ref-to-literal", 2, [["ref", owner, rn, ["int", rng.randrange(9)], "attr"]]))
    taken = used(None, True)
    nm = fresh(base.MREF_NAMES + ["gx"], taken)
    if nm:
        res.append(("ref-pickled", 0.7, [["ref", "", nm, base.gen_value(rng, rng.choice(["list", "pt", "dict"]),
                                                                         targets, None), "attr"]]))
    nm = fresh(["gdf", "gser"], taken)
    if nm:
        res.append(("pandas", 0.7, [_pandas_op(rng, "", nm)]))
    nm = fresh(FRESH_SPACES, taken)
    if nm:
        res.append(("space", 1, [["space", "", nm, None], ["cells", nm, "foo", "lambda x: x + 1", {}],
                                 ["input", nm + ".foo", [rng.randrange(4)], ["list", [["int", 1]]]]]))
    res.append(("doc", 0.3, [["doc", "", base.gen_doc(rng)]]))

    # ---- nothing pickled is left: no `_data/data.pickle`, no `_data/<cells>`, no `_dynamic_inputs`
    ops = []
    for p, cn, cd in cells:
        if cd["inputs"]:
            ops.append(["clear_all", p + "." + cn])
    for p, sd in spaces:
        if sd["item_inputs"]:
            ops.append(["sclear", p, "items"])
    for owner, rn, rd in refs:
        if owner and rd.get("derived"):
            continue
        if _is_io(rd) or _is_pickled(rd):
            ops.append(["del", owner, rn] if rng.random() < 0.5 or _is_io(rd) else
                       ["ref", owner, rn, ["int", rng.randrange(9)], "attr"])
    if ops:
        res.append(("all-pickles", 1.5, ops))

    # ---- cells made from the Formula OBJECT of another cells (Cells.copy, new_cells(formula=...), formula assigned):
    # what is written is the formula's text, which must be a definition under the NEW cells' name
    srcs = [c for c in cells if c[2]["source"] is not None]
    defs = [c for c in srcs if not c[2]["source"].startswith("lambda")]
    for pool in (defs, srcs):
        if not pool:
            continue
        sp, cn, cd = base._pick(rng, pool)
        dp, dsd = base._pick(rng, spaces)
        nm = fresh(FRESH_CELLS, used(dsd))
        if nm is None:
            continue
        src = sp + "." + cn
        r = rng.random()
        if r < 0.5:
            ops = [["ccopy", src, dp, nm]]
        elif r < 0.8:
            ops = [["cfrom", dp, nm, src, {}]]
        else:
            ops = [["cells", dp, nm, "lambda %s: 0" % ", ".join(cd["parameters"]), {}],
                   ["fset", dp + "." + nm, src, rng.choice(["attr", "method"])]]
        if rng.random() < 0.6:
            ops.append(["input", dp + "." + nm, [rng.randrange(4) for _ in cd["parameters"]],
                        base.gen_value(rng, base._pick(rng, vkinds), targets, None)])
        res.append(("cells-copy", 1.2, ops))
    return res


def _pandas_op(rng, owner, name):
    fname = "%s_%s.csv" % (owner.replace(".", "_") or "model", name)
    relpath = rng.choice(["iodata/" + fname, fname, "iodata/sub/" + fname])
    if rng.random() < 0.7:
        n = rng.randrange(1, 4)
        spec = ["frame", [["a", [rng.randrange(9) for _ in range(n)]], ["b", [rng.choice(["x", "y", "zz"]) for _ in range(n)]]]]
    else:
        spec = ["series", [rng.randrange(9) for _ in range(rng.randrange(1, 4))], "s"]
    return ["pandas", owner, name, relpath, spec]


def gen_wopts(rng):
    w = {"fmt": rng.choice(["dir", "zip"])}
    r = rng.random()
    if r < 0.45:
        w["backup"] = False
    elif r < 0.8:
        w["backup"] = True          # (left out otherwise: the default)
    if rng.random() < 0.3:
        w["log_input"] = True
    if w["fmt"] == "zip" and rng.random() < 0.4:
        w["compression"] = rng.choice(["stored", "deflated", "bzip2", "lzma"])
        if w["compression"] in ("deflated", "bzip2") and rng.random() < 0.5:
            w["compresslevel"] = rng.choice([1, 9])
    if rng.random() < 0.4:
        w["api"] = "method"
    return w


def gen_skeleton(rng):
    """a small model with nothing pickled: spaces (one parametrised, one nested), cells, literal references"""
    a, b, c = rng.sample(base.SPACE_NAMES, 3)
    n1, n2, n3 = rng.sample(base.CELLS_NAMES, 3)
    ops = [["space", "", a, None], ["space", "", b, rng.choice(["lambda i: None", "lambda i, j=2: None"])],
           ["space", a, c, None],
           ["cells", a, n1, "lambda x: 2 * x", {}],
           ["cells", a, n2, "def %s(x):\n    return %s(x) + 1" % (n2, n1), {}],
           ["cells", b, n1, "lambda x: x + i", {}],
           ["cells", a + "." + c, n3, "lambda x: x * k", {}],
           ["ref", a + "." + c, "k", ["int", 3], "attr"],
           ["ref", b, "lit", ["str", "abc"], "attr"]]
    if rng.random() < 0.5:
        ops.append(["doc", a, "a space"])
    return {"ops": ops, "cfg": {}}


class Planner:
    """applies edits to a planning model as they are drawn; an edit that is rejected (or makes some value a
    deleted object) is not recorded and the planning model is rebuilt from what was accepted"""

    def __init__(self, ops):
        self.ops = list(ops)
        self.edits = []         # flat, accepted
        self._build()

    def _build(self):
        close_all()
        self.b = base.Builder("M")
        self.b.build(self.ops)
        if self.b.rejected:
            self.ops = [o for i, o in enumerate(self.ops) if i not in set(self.b.rejected)]
            close_all()
            self.b = base.Builder("M")
            self.b.build(self.ops)
        for op in self.edits:
            with quiet():
                self.b.apply(op)

    def desc(self):
        with quiet():
            return base.describe(self.b.m)

    def try_edit(self, ops):
        done = []
        try:
            for op in ops:
                with quiet():
                    self.b.apply(op)
                done.append(op)
            if has_null(self.desc()):
                raise ValueError("dead reference")
        except Exception:
            try:
                self._build()
            except Exception:
                pass
            return False
        self.edits.extend(done)
        return True


def _choose(rng, cands, kinds=None, bias=None):
    if kinds is not None:
        cands = [c for c in cands if c[0] in kinds]
    if not cands:
        return None
    ws = [c[1] * ((bias or {}).get("shrink", 1.0) if c[0] in SHRINK else 1.0) for c in cands]
    x = rng.random() * sum(ws)
    for c, wgt in zip(cands, ws):
        x -= wgt
        if x <= 0:
            return c
    return cands[-1]


def plan_history(rng, prog, nsteps, plan=None, wopts=None):
    """`plan`: per step a list of kind-sets to draw one edit each from (None = 0..3 free edits);
    `wopts`: per step the write options (None = drawn)  ->  history program, or None"""
    try:
        pl = Planner(prog["ops"])
    except Exception:
        return None
    steps = []
    for k in range(nsteps):
        edits = []
        wanted = plan[k] if plan is not None and k < len(plan) and plan[k] is not None else None
        if wanted is None:
            n = rng.choice([0, 1, 1, 2, 2, 3]) if k else rng.choice([0, 0, 1])
            wanted = [None] * n
        for kinds in wanted:
            for attempt in range(4):
                c = _choose(rng, candidates(rng, pl.desc()), kinds, bias={"shrink": 1.6})
                if c is None:
                    break
                if pl.try_edit(c[2]):
                    edits.extend(c[2])
                    break
        w = wopts[k] if wopts is not None and k < len(wopts) and wopts[k] is not None else gen_wopts(rng)
        steps.append({"edits": edits, "write": w})
    cfg = {"target": rng.choice(["model", "model.zip", "m.d"])}
    close_all()
    return {"ops": pl.ops, "cfg": cfg, "steps": steps}


# pairs (what is added before the first write, what takes it away before the second one)
PAIRS = [
    (["input"], ["withdraw-all"]), (["input"], ["clear-all"]), (["input"], ["cells-formula"]),
    (["input"], ["sclear-cells"]), (["input"], ["rename-cells"]), (["input", "input"], ["withdraw-one"]),
    (["iinput"], ["items"]), (["iinput"], ["item-del"]), (["iinput"], ["iclear"]), (["iinput"], ["sformula"]),
    (["iinput"], ["sclear-all"]),
    (["ref-pickled"], ["ref-del"]), (["ref-pickled"], ["ref-to-literal"]), (["ref-obj"], ["ref-to-literal"]),
    (["cells"], ["del-cells"]), (["space"], ["del-space"]), (["space"], ["rename-space"]),
    (["pandas"], ["io-del"]), (["pandas", "input"], ["all-pickles"]), (["doc", "cdoc"], ["doc"]),
    (["input", "ref-pickled", "iinput"], ["all-pickles"]),
    (["cells-copy", "cells-copy"], ["rename-cells"]),
]


def pair_history(rng, pair, w1, w2):
    grow, shrink = pair
    sk = gen_skeleton(rng)
    return plan_history(rng, sk, 2, plan=[[{g} for g in grow], [{s} for s in shrink]], wopts=[w1, w2])


def rotation_history(rng):
    """more writes than backup generations are kept, formats mixed, content shrinking and growing"""
    n = MAX_BACKUPS + 3
    wopts = []
    for k in range(n):
        w = gen_wopts(rng)
        w["backup"] = True if rng.random() < 0.85 else False
        wopts.append(w)
    return plan_history(rng, gen_skeleton(rng), n, wopts=wopts)


# =====================================================================================
# 4. shrinking a failing history
# =====================================================================================

def _fails_with(prog, oracle, known_keys):
    out, stats = core.Outcome(), {}
    try:
        run_history(prog, out, stats, model=False)
    except Exception:
        return None
    for f in out.failures:
        if f.get("key") and f["key"] in known_keys:
            continue
        if (f.get("detail") or {}).get("oracle") == oracle:
            return f
    return None


def shrink(prog, oracle, known_keys, budget_s=25.0, max_trials=120):
    """greedy: fewer writes, fewer edits, fewer base operations, plainer options - as long as the same
    clause of the oracle still fails (known findings do not count)"""
    t0 = time.time()
    trials = [0]
    best = copy.deepcopy(prog)
    f0 = _fails_with(best, oracle, known_keys)
    if f0 is None:
        return prog, None
    best_f = f0
    best = copy.deepcopy(best_f["history"])

    def attempt(cand):
        nonlocal best, best_f
        if time.time() - t0 > budget_s or trials[0] >= max_trials:
            return False
        trials[0] += 1
        f = _fails_with(cand, oracle, known_keys)
        if f is not None:
            best_f = f
            best = copy.deepcopy(f["history"])
            return True
        return False

    changed = True
    while changed and time.time() - t0 < budget_s and trials[0] < max_trials:
        changed = False
        # a write less (its edits move to the next step), or a whole step less
        i = 0
        while i < len(best["steps"]) - 1:
            c = copy.deepcopy(best)
            st = c["steps"].pop(i)
            c["steps"][i]["edits"] = st["edits"] + c["steps"][i]["edits"]
            if attempt(c):
                changed = True
                continue
            c = copy.deepcopy(best)
            c["steps"].pop(i)
            if attempt(c):
                changed = True
                continue
            i += 1
        # an edit less
        for si in range(len(best["steps"]) - 1, -1, -1):
            ei = len(best["steps"][si]["edits"]) - 1
            while ei >= 0:
                if si < len(best["steps"]) and ei < len(best["steps"][si]["edits"]):
                    c = copy.deepcopy(best)
                    del c["steps"][si]["edits"][ei]
                    if attempt(c):
                        changed = True
                ei -= 1
        # a base operation less (operations that depend on it are rejected and dropped by `accepted_only`)
        oi = len(best["ops"]) - 1
        while oi >= 0:
            if oi < len(best["ops"]):
                c = copy.deepcopy(best)
                del c["ops"][oi]
                if attempt(c):
                    changed = True
            oi -= 1
        # plainer options
        for si in range(len(best["steps"])):
            for opt in ("api", "compresslevel", "compression", "log_input"):
                if si < len(best["steps"]) and opt in best["steps"][si]["write"]:
                    c = copy.deepcopy(best)
                    del c["steps"][si]["write"][opt]
                    if attempt(c):
                        changed = True
    return best, best_f


# =====================================================================================
# 5. the batch of a check run
# =====================================================================================

def all_wopt_pairs(thorough):
    """second-write options always run over format x backup; the thorough tier also enumerates the first
    write's format, backup and both input-log settings, and the entry point"""
    res = []
    if not thorough:
        for f2 in ("dir", "zip"):
            for b2 in (True, False):
                res.append((None, {"fmt": f2, "backup": b2}))
        return res
    for f1 in ("dir", "zip"):
        for b1 in (True, False):
            for l1 in (False, True):
                for f2 in ("dir", "zip"):
                    for b2 in (True, False):
                        for l2 in (False, True):
                            res.append(({"fmt": f1, "backup": b1, "log_input": l1},
                                        {"fmt": f2, "backup": b2, "log_input": l2}))
    return res


def programs(ctx):
    """generator of (tag, history program)"""
    thorough = ctx.tier != "quick"
    combos = all_wopt_pairs(thorough)
    for pi, pair in enumerate(PAIRS):
        for ci, (w1, w2) in enumerate(combos):
            rng = ctx.rng("hist-pair", pi, ci)
            w1 = dict(w1) if w1 is not None else gen_wopts(rng)
            w2 = dict(w2)
            if thorough:
                # the remaining options at random on top of the enumerated ones
                extra = gen_wopts(rng)
                for w in (w1, w2):
                    if w["fmt"] == "zip" and rng.random() < 0.4:
                        w["compression"] = rng.choice(["stored", "deflated", "bzip2", "lzma"])
                    if extra.get("api") and rng.random() < 0.5:
                        w["api"] = "method"
            else:
                if rng.random() < 0.3:
                    w2["log_input"] = True
                if rng.random() < 0.3:
                    w2["api"] = "method"
            p = pair_history(rng, pair, w1, w2)
            if p is not None:
                yield ("hist-pair:%s>%s:%d" % ("+".join(pair[0]), "+".join(pair[1]), ci), p)
    for i in range(ctx.n(3, 30)):
        p = rotation_history(ctx.rng("hist-rotation", i))
        if p is not None:
            yield ("hist-rotation:%d" % i, p)
    for i in range(ctx.n(14, 250)):
        rng = ctx.rng("hist-random", i)
        prog = base.gen_program(rng, "small" if i % 3 else "normal")
        p = plan_history(rng, prog, rng.choice([2, 3, 3, 4, 5]))
        if p is not None:
            yield ("hist-random:%d" % i, p)


def run_batch(ctx, out, stats, progs=None):
    """-> number of SaveFiles lines compared"""
    known = set(f.get("key") for f in core.load_findings("C04"))
    compared = 0
    seen_oracles = set()
    shrink_left = 45.0       # seconds for minimising, all clauses together
    for tag, prog in (progs if progs is not None else programs(ctx)):
        n0 = len(out.failures)
        compared += run_history(prog, out, stats)
        # minimise the first failing history of every clause
        for f in list(out.failures[n0:]):
            oracle = (f.get("detail") or {}).get("oracle")
            if f.get("key") in known or oracle is None or oracle in seen_oracles:
                continue
            seen_oracles.add(oracle)
            if shrink_left <= 1:
                continue
            t0 = time.time()
            small, sf = shrink(f["history"], oracle, known, budget_s=min(25.0, shrink_left))
            shrink_left -= time.time() - t0
            if sf is not None:
                f["history"] = small
                f["what"] = sf["what"]
                f["detail"] = dict(sf["detail"] or {}, shrunk_from=tag)
    return compared
