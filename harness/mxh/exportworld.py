"""C15 world: build a model from a description on the real modelx, evaluate queries on it,
export it with `Model.export`, and run the same queries on the exported package in a
subprocess in which `import modelx` raises (export_runner.py).

Model description (JSON-able, the replay format):
  {"name": "M", "grefs": [ref ..], "spaces": [space ..]}
  space = {"name": .., "bases": ["A", "A.Ch" ..], "formula": None | [[pname, default|None] ..],
           "refs": [ref ..], "cells": [cells ..], "spaces": [space ..]}
  ref   = {"name": .., "val": valspec, "mode": "auto"|"absolute"|"relative"}
  valspec = {"lit": canon} | {"pick": canon} | {"obj": "A.Ch" | "A.Ch.foo"} | {"mod": "math"}
          | {"kind": <value kind of exportvals.py>, "alt": n}   (objects of every sort a reference may hold)
          | {"same_as": <name of an earlier reference of the same space / model>}   (the SAME object)
          | {"pandas": "frame" | "series", "path": "data/x.csv", "file_type": "csv" | "excel"}
            (a pandas object associated with a PandasData IOSpec: `new_pandas`)
  cells = {"name": .., "src": "def .." | "lambda ..", "cached": bool}
Spaces are created in list order (depth first, a space before its children); bases must
precede.  References are assigned after all spaces and cells exist (so that object-valued
references find their targets), in the same order.
"""
import importlib
import json
import os
import subprocess
import sys

from . import core
from . import export_runner as R
from .impl import mx, quiet, err_kind

RUNNER = os.path.join(os.path.dirname(os.path.abspath(__file__)), "export_runner.py")


# ----------------------------------------------------------------------------- description helpers

def iter_spaces(desc):
    """yield (path tuple, space desc) depth first, parents before children"""
    def rec(prefix, sp):
        path = prefix + (sp["name"],)
        yield path, sp
        for ch in sp.get("spaces", []):
            yield from rec(path, ch)
    for sp in desc["spaces"]:
        yield from rec((), sp)


def formula_src(params):
    parts = []
    for nm, dflt in params:
        parts.append(nm if dflt is None else "%s=%r" % (nm, dflt))
    return "lambda %s: None" % ", ".join(parts)


# ----------------------------------------------------------------------------- build on modelx

def _get(m, dotted):
    obj = m
    for part in dotted.split("."):
        obj = getattr(obj, part)
    return obj


def _value(m, spec, earlier=None):
    if "kind" in spec:
        from . import exportvals
        return exportvals.make(spec)
    if "same_as" in spec:
        return earlier[spec["same_as"]]
    if "lit" in spec:
        return R.uncanon(spec["lit"])
    if "pick" in spec:
        return R.uncanon(spec["pick"])
    if "obj" in spec:
        return _get(m, spec["obj"])
    if "mod" in spec:
        return importlib.import_module(spec["mod"])
    raise ValueError(spec)


def build(desc):
    """-> modelx Model.  Only the public API, formulas as source strings."""
    m = mx.new_model(desc["name"])
    made = {}
    for path, sp in iter_spaces(desc):
        parent = made[path[:-1]] if len(path) > 1 else m
        kw = {}
        if sp.get("bases"):
            kw["bases"] = [_get(m, b) for b in sp["bases"]]
        if sp.get("formula") is not None:
            kw["formula"] = sp["formula"] if isinstance(sp["formula"], str) else formula_src(sp["formula"])
        s = parent.new_space(sp["name"], **kw)
        made[path] = s
        for c in sp.get("cells", []):
            if c["name"] in s.cells:
                s.cells[c["name"]].formula = c["src"]        # override of an inherited cells
                cells = s.cells[c["name"]]
            else:
                cells = s.new_cells(c["name"], formula=c["src"])
            if not c.get("cached", True):
                cells.is_cached = False
    gvals = {}
    for r in desc.get("grefs", []):
        if "pandas" in r["val"]:
            gvals[r["name"]] = _new_pandas(m, r)
            continue
        if _io_kind(r["val"]):
            gvals[r["name"]] = _new_pandas_kind(m, r, ("model",))
            continue
        gvals[r["name"]] = _value(m, r["val"], gvals)
        setattr(m, r["name"], gvals[r["name"]])
    for path, sp in iter_spaces(desc):
        s = made[path]
        vals = dict(gvals)
        for r in sp.get("refs", []):
            if "pandas" in r["val"]:
                vals[r["name"]] = _new_pandas(s, r)
                continue
            if _io_kind(r["val"]):
                vals[r["name"]] = _new_pandas_kind(s, r, path)
                continue
            vals[r["name"]] = _value(m, r["val"], vals)
            s.set_ref(r["name"], vals[r["name"]], r.get("mode", "auto"))
    return m


def _io_kind(spec):
    if "kind" not in spec:
        return None
    from . import exportvals
    k = exportvals.BY_ID[spec["kind"]]
    return k if k.io else None


def _new_pandas_kind(parent, r, path):
    """a value kind that lives in a PandasData IOSpec: `new_pandas` onto a file of its own inside the model"""
    from . import exportvals
    k = _io_kind(r["val"])
    data = exportvals.make(r["val"])
    ext = "csv" if k.io == "csv" else "xlsx"
    return parent.new_pandas(r["name"], "data/%s_%s.%s" % ("_".join(path), r["name"], ext), data, file_type=k.io)


def _new_pandas(parent, r):
    from . import exportvals
    spec = r["val"]
    data = exportvals.pandas_value(spec["pandas"])
    return parent.new_pandas(r["name"], spec["path"], data, file_type=spec["file_type"])


def eval_model(m, queries):
    res = []
    for q in queries:
        try:
            with quiet():
                sp = R.walk(m, q["sp"])
                f = getattr(sp, q["cells"])
                args = [R.uncanon(a) for a in q.get("args", [])]
                kw = {k: R.uncanon(v) for k, v in q.get("kw", {}).items()}
                res.append({"ok": R.canon(f(*args, **kw))})
        except Exception as e:      # noqa: BLE001
            k = err_kind(e)
            if k == "Formula":
                # the original exception's class name is the start of the second line of the message
                # (used for statistics and to tell an unbound name from other failures; never compared)
                lines = str(e).split("\n")
                k = "Formula:" + (lines[1].split(":")[0].strip() if len(lines) > 1 else "?")
            res.append({"err": k})
    return res


# ----------------------------------------------------------------------------- exported side

def run_exported(jobs, tmpdir, timeout=600):
    """jobs as in export_runner.  -> {job id: record}.  A crash of the subprocess is an
    infrastructure failure unless records were produced up to the crash (then the job after
    the last record is reported as crashed)."""
    path = os.path.join(tmpdir, "jobs.json")
    with open(path, "w") as f:
        json.dump(jobs, f)
    env = dict(os.environ)
    env["PYTHONHASHSEED"] = "0"
    env.pop("PYTHONPATH", None)
    p = subprocess.run([sys.executable, "-E", RUNNER, path], capture_output=True, text=True,
                       timeout=timeout, env=env, cwd=tmpdir)
    recs = {}
    for line in p.stdout.split("\n"):
        line = line.strip()
        if line.startswith("{"):
            try:
                rec = json.loads(line)
            except ValueError:
                continue
            recs[rec["id"]] = rec
    if p.returncode != 0 and not recs:
        raise core.Infra("export runner failed rc=%s: %s" % (p.returncode, p.stderr[-1500:]))
    for job in jobs:
        if job["id"] not in recs:
            recs[job["id"]] = {"id": job["id"], "import": "err RunnerCrashed", "results": [],
                               "stderr": p.stderr[-500:]}
    return recs
