"""Reference VALUE KINDS for C15: what a reference of an exported model may hold, and how formulas
read it in ways that expose the value's exact type.

`Model.export` writes a reference in one of four ways (ParentTranslator.ref_value): a relative
attribute path (modelx objects), a source literal (`pprint.pformat`), `import_module`, or an entry of
the pickled dict / IO data.  Which one is decided by the value's TYPE, so the catalogue below walks
the boundaries of that decision:

 * every literal type with its boundary values (bool vs int, 0 / negative / beyond 2**64, floats at
   the ends of the range and those whose `repr` is not a literal (nan, inf), strings with quotes,
   newlines, backslashes, braces, non-ASCII, lone surrogates, long enough for pprint to wrap), None;
 * instances of strict SUBCLASSES of the literal types: user classes with inherited `repr`, with a
   `repr` that is not an expression or names a class, with instance state; enum members (IntEnum,
   IntFlag, str/float mix-ins, StrEnum, the standard library's HTTPStatus), numpy scalars that
   derive from float / str / complex (float64, str_, complex128);
 * look-alikes that are NOT subclasses (plain Enum, numpy int64/float32/bool, Decimal, Fraction);
 * containers holding any of these (list, tuple, dict, set, nested, namedtuple, dataclass);
   numpy arrays (1-d, 2-d, 0-d, empty), a pandas Series, bytes, complex, dates, range;
 * importable things: modules (incl. one whose `__name__` differs from the name it was imported
   under), functions and classes pickled by reference.

A kind has TRAITS; the reading patterns (`readers`) are chosen by trait.  Everything here is plain
data plus constructors; values are made fresh for every model.
"""
import ast
import importlib.util
import os
import re
import sys

_HERE = os.path.dirname(os.path.abspath(__file__))


def usertypes():
    """the user library, registered as the TOP-LEVEL module `c15_usertypes` (the name under which
    the modelx-free subprocess imports it when unpickling)"""
    mod = sys.modules.get("c15_usertypes")
    if mod is None:
        spec = importlib.util.spec_from_file_location("c15_usertypes", os.path.join(_HERE, "c15_usertypes.py"))
        mod = importlib.util.module_from_spec(spec)
        sys.modules["c15_usertypes"] = mod
        spec.loader.exec_module(mod)
    return mod


K_NONFINITE = "C15-nonfinite-float-ref"


def _np():
    import numpy
    return numpy


def _U(name):
    return getattr(usertypes(), name)


class Kind:
    def __init__(self, kid, traits, makers, known=None, random_ok=True, io=None, motif=True):
        self.io = io                  # "csv" | "excel": the value is attached with `new_pandas` (PandasData IOSpec)
        self.motif = motif            # gets a `motif_desc` model of its own (the IO kinds share `io_family` models)
        self.id = kid
        self.traits = set(traits.split())
        if "any" in self.traits and "notext" not in self.traits:
            self.traits.add("text")       # str()/repr() of the value are deterministic
        self.makers = makers          # list of thunks; `alt` indexes it (mod length)
        self.known = known            # key of the known finding this kind triggers on the unchanged tree
        self.known_alts = None        # None: every alternative triggers it; else the indices that do
        self.random_ok = random_ok and known is None

    def make(self, alt=0):
        return self.makers[alt % len(self.makers)]()


def _http():
    import http
    return http.HTTPStatus


def _mixed():
    np = _np()
    return [_http().OK, np.float64(1.0), _U("Percent")(0.1), True, None, "x", 2 ** 70, float("nan"),
            _U("Color").GREEN, _U("Cents")(250)]


def _series():
    import pandas as pd
    return pd.Series([1.5, 2.5, 4.0])


def _dec(s):
    import decimal
    return decimal.Decimal(s)


def _frac(a, b):
    import fractions
    return fractions.Fraction(a, b)


def _date():
    import datetime
    return datetime.date(2020, 2, 29)


def _mod(name):
    import importlib
    return importlib.import_module(name)


_LONG = " ".join("word%d" % i for i in range(40))


# ---- pandas objects of every small shape, attached with `new_pandas` (written to a csv / xlsx file inside the
# exported package and read back by `_mx_sys.MiniPandasData`)

def _pd():
    import pandas
    return pandas


PD_SHAPES = {
    # Series: length 0 / 1 / 2 / 3; int / float / str values; named and unnamed; default, labelled and named index
    "s0": [lambda: _pd().Series([], dtype=float, name="e"),
           lambda: _pd().Series([], dtype=object, index=_pd().Index([], name="k"))],
    "s1": [lambda: _pd().Series([0.5], index=["A"], name="load"),
           lambda: _pd().Series([7], name="one"),
           lambda: _pd().Series(["x"], index=[3]),
           lambda: _pd().Series([2.5], index=_pd().Index(["r"], name="key"))],
    "s2": [lambda: _pd().Series([1, 2], index=["a", "b"], name="n"),
           lambda: _pd().Series([1.5, -2.0]),
           lambda: _pd().Series(["u", "v"], index=_pd().Index([10, 20], name="k"), name="sv")],
    "s3": [lambda: _pd().Series([1.5, 2.5, 4.0], name="s"),
           lambda: _pd().Series([3, 1, 2], index=["c", "a", "b"])],
    # DataFrame: 0 / 1 / 2 rows x 1 / 2 columns
    "f0": [lambda: _pd().DataFrame({"a": _pd().Series([], dtype=float)}),
           lambda: _pd().DataFrame({"a": _pd().Series([], dtype=float), "b": _pd().Series([], dtype=float)})],
    "f1": [lambda: _pd().DataFrame({"a": [1]}, index=["r"]),
           lambda: _pd().DataFrame({"a": [0.5]}),
           lambda: _pd().DataFrame({"a": [1], "b": [2.5]}, index=["r"]),
           lambda: _pd().DataFrame({"a": ["x"], "b": [3]}, index=_pd().Index([5], name="key"))],
    "f2": [lambda: _pd().DataFrame({"a": [1, 2]}),
           lambda: _pd().DataFrame({"a": [1, 2], "b": ["x", "y"]}, index=_pd().Index(["p", "q"], name="key")),
           lambda: _pd().DataFrame({"a": [1.5, 2.5], "b": [0.25, -1.0]}, index=[10, 20])],
    # two index levels (read back with index_col=[0, 1])
    "fm": [lambda: _pd().DataFrame({"a": [1, 2], "b": [0.5, 1.5]},
                                   index=_pd().MultiIndex.from_tuples([("x", 1), ("y", 2)], names=["u", "w"])),
           lambda: _pd().Series([1.5, 2.5], name="ms",
                                index=_pd().MultiIndex.from_tuples([("x", 1), ("y", 2)], names=["u", "w"]))],
}


def _pd_kinds():
    res = []
    for ft in ("csv", "excel"):
        for shape, makers in PD_SHAPES.items():
            res.append(Kind("pdio_%s_%s" % (ft, shape), "any notext pdobj", makers, io=ft, motif=False))
    return res

KINDS = [
    # ---- exactly the literal types, at their boundaries
    Kind("bool", "any num int bool", [lambda: True, lambda: False]),
    Kind("int", "any num int", [lambda: 5, lambda: 0, lambda: -7]),
    Kind("int_big", "any num int", [lambda: 2 ** 80 + 1, lambda: -(10 ** 40)]),
    Kind("float", "any num float", [lambda: 2.5, lambda: -0.125]),
    Kind("float_edge", "any num float", [lambda: -0.0, lambda: 5e-324, lambda: 1.7976931348623157e308,
                                         lambda: 0.1 + 0.2]),
    Kind("float_nan", "any num float nonfinite", [lambda: float("nan")]),
    Kind("float_inf", "any num float nonfinite", [lambda: float("inf"), lambda: float("-inf")]),
    Kind("str", "any str", [lambda: "ab", lambda: ""]),
    Kind("str_quotes", "any str", [lambda: "it's \"q\" '''x''' \"\"\"", lambda: "'", lambda: "\\'\\"]),
    Kind("str_escapes", "any str", [lambda: "a\nb\tc\\d\r", lambda: "x\x00y\x7f", lambda: "{x} {{y}} %s %(k)s"]),
    Kind("str_nonascii", "any str", [lambda: "h\xe9llo ✓ 日本 \U0001F600", lambda: "\ud800", lambda: "  "]),
    Kind("str_long", "any str", [lambda: _LONG, lambda: _LONG.replace(" ", "\n")]),
    Kind("none", "any none", [lambda: None]),
    # ---- instances of strict subclasses of the literal types
    Kind("sub_float", "any num float user", [lambda: _U("Percent")(0.05), lambda: _U("Percent")(1.5)]),
    Kind("sub_int", "any num int user intatom", [lambda: _U("Cents")(1234), lambda: _U("Cents")(5)]),
    Kind("sub_str", "any str user", [lambda: _U("Tag")("ab"), lambda: _U("Tag")("it's")]),
    Kind("sub_int_repr", "any num int user", [lambda: _U("Loud")(3), lambda: _U("Call")(4)]),
    Kind("sub_int_state", "any num int user", [lambda: _U("Flagged")(3, "n"), lambda: _U("Flagged")(0, "")]),
    Kind("intenum", "any num int enum intatom", [lambda: _U("Color").RED, lambda: _U("Color").BLUE]),
    Kind("intenum_std", "any num int enum intatom", [lambda: _http().NOT_FOUND, lambda: _http().OK]),
    Kind("intflag", "any num int enum", [lambda: _U("Perm").R | _U("Perm").W, lambda: _U("Perm").X]),
    Kind("strenum", "any str enum", [lambda: _U("Word").HI, lambda: _U("Unit").KG if hasattr(usertypes(), "Unit")
                                      else _U("Word").BYE]),
    Kind("floatenum", "any num float enum", [lambda: _U("Level").LOW, lambda: _U("Level").HIGH]),
    Kind("np_float64", "any num float np", [lambda: _np().float64(2.5), lambda: _np().float64(0.0),
                                            lambda: _np().float64("nan")]),
    Kind("np_str", "any str np", [lambda: _np().str_("ab")]),
    Kind("np_complex", "any np", [lambda: _np().complex128(1 + 2j)]),
    # ---- look-alikes that are not subclasses
    Kind("enum", "any enum", [lambda: _U("Plain").A, lambda: _U("Plain").B]),
    Kind("np_int64", "any num int np", [lambda: _np().int64(7), lambda: _np().int64(0)]),
    Kind("np_float32", "any num np", [lambda: _np().float32(1.5)]),
    Kind("np_bool", "any np", [lambda: _np().bool_(True), lambda: _np().bool_(False)]),
    Kind("decimal", "any num", [lambda: _dec("1.10"), lambda: _dec("-0")]),
    Kind("fraction", "any num", [lambda: _frac(1, 3)]),
    Kind("complex", "any", [lambda: 1 + 2j]),
    Kind("bytes", "any seq", [lambda: b"ab\xff", lambda: b""]),
    # ---- containers and arrays
    Kind("list_mixed", "any seq", [_mixed]),
    Kind("tuple_nested", "any seq", [lambda: (1, (2.5, "x", (None, True)), [_U("Tag")("t")]),
                                     lambda: ((), [], {})]),
    Kind("dict_mixed", "any dict", [lambda: {"k": _U("Percent")(0.5), 1: (_np().int64(2),), None: [float("inf")],
                                             _U("Color").BLUE: "r", 2.5: True}]),
    Kind("set", "any set notext", [lambda: {1, 2.5, "x"}, lambda: frozenset({_U("Color").RED, 3})]),
    Kind("namedtuple", "any seq", [lambda: _U("Pt")(1, 2.5)]),
    Kind("dataclass", "any user", [lambda: _U("Rec")(2, 0.5)]),
    Kind("np_array", "any nparr", [lambda: _np().array([1, 2, 3]), lambda: _np().array([[1.5, 2.5], [0.0, -1.0]]),
                                   lambda: _np().array([True, False])]),
    Kind("np_array_edge", "any nparr", [lambda: _np().array(3.0), lambda: _np().array([]),
                                        lambda: _np().array(["a", "bc"])]),
    Kind("pd_series", "any series", [_series]),
    Kind("date", "any", [_date]),
    Kind("range", "any seq", [lambda: range(1, 7, 2)]),
    # ---- importable things
    Kind("module", "any module", [lambda: _mod("math")]),
    Kind("module_alias", "any", [lambda: _mod("os.path"), lambda: _mod("numpy"), lambda: _mod("c15_usertypes")
                                 if usertypes() else None]),
    Kind("function", "any callable notext", [lambda: _U("twice"), lambda: _mod("math").floor]),
    Kind("class", "any class", [lambda: _U("Percent"), lambda: int]),
] + _pd_kinds()
BY_ID = {k.id: k for k in KINDS}


def make(spec):
    """valspec {"kind": id, "alt": n} -> a fresh value"""
    return BY_ID[spec["kind"]].make(spec.get("alt", 0))


# ----------------------------------------------------------------------------- reading patterns

# (suffix, trait, source with N for the reference name); `x` is a cells parameter (small int)
_READERS = [
    ("id", "any", "lambda: N"),
    ("ty", "any", "lambda: type(N).__name__"),
    ("mro", "any", "lambda: [c.__name__ for c in type(N).__mro__]"),
    ("isi", "any", "lambda: (isinstance(N, bool), isinstance(N, int), isinstance(N, float), isinstance(N, str))"),
    ("exact", "any", "lambda: (type(N) is int, type(N) is float, type(N) is str)"),
    ("str", "text", "lambda: str(N)"),
    ("repr", "text", "lambda: repr(N)"),
    ("fmt", "text", "lambda: f'{N}|{N!r}|' + '%s' % (N,) + format(N)"),
    ("box", "any", "def rd(x):\n    t0 = [N] * (x + 1)\n    return (len(t0), t0[0], type(t0[-1]).__name__)"),
    ("same", "any", "lambda: N is N"),
    ("add", "num", "lambda: N + 1"),
    ("radd", "num", "lambda: 1 + N"),
    ("mul", "num", "lambda x: N * x"),
    ("div", "num", "lambda x: N / x"),
    ("neg", "num", "lambda: (-N, abs(N), +N)"),
    ("cmp", "num", "lambda: (N > 1, N == 1, N <= 0, N != N)"),
    ("pow", "num", "lambda: N ** 2"),
    ("rnd", "num", "lambda: round(N, 1)"),
    ("mx", "num", "lambda: (max(N, 1), min(N, 1), sum([N, N]))"),
    ("toi", "num", "lambda: (int(N), float(N), bool(N))"),
    ("dm", "num", "lambda: divmod(N, 2)"),
    ("loop", "num", "def rd(x):\n    acc = 0\n    for i in range(x + 1):\n        acc = acc + N\n    return acc"),
    ("bits", "int", "lambda: (N.bit_length(), N & 3, N.real, hex(N))"),
    ("idx", "int", "lambda: [10, 20, 30, 40, 50][N % 5]"),
    ("rng", "int", "lambda: list(range(N % 4))"),
    ("pct", "int", "lambda: '%d|%05d|%x' % (N, N, N % 16)"),
    ("isint", "float", "lambda: (N.is_integer(), N.hex())"),
    ("ffmt", "float", "lambda: ('%.3f' % N, f'{N:.2e}', f'{N:g}')"),
    ("cat", "str", "lambda: N + 'z'"),
    ("up", "str", "lambda: (N.upper(), len(N), N[::-1], N * 2)"),
    ("enc", "str", "lambda: N.encode('utf-8', 'surrogatepass').hex()"),
    ("spl", "str", "lambda: (N.split(), N.splitlines(), [ord(c) for c in N][:6])"),
    ("in", "str", "lambda: ('a' in N, N.startswith('a'), N == 'ab', N < 'b')"),
    ("key", "str", "lambda: {'ab': 1, 'hi': 2, 'kg': 3}.get(N, 0)"),
    ("nm", "enum", "lambda: (N.name, N.value)"),
    ("rt", "enum", "lambda: type(N)(N.value) is N"),
    ("mem", "enum", "lambda: [m.name for m in type(N)]"),
    ("item", "np", "lambda: (N.item(), N.dtype.name, N.ndim)"),
    ("tol", "nparr", "lambda: (N.tolist(), N.shape, N.dtype.name)"),
    ("amul", "nparr", "lambda x: (N * x).tolist() if N.dtype.kind in 'fiub' else N.tolist()"),
    ("asum", "nparr", "lambda: N.size and N.dtype.kind in 'fiub' and float(N.sum())"),
    ("of", "user", "lambda x: N.of(x)"),
    ("lab", "user", "lambda: N.label()"),
    ("len", "seq", "lambda: (len(N), list(N))"),
    ("ety", "seq", "lambda: [type(e).__name__ for e in N]"),
    ("estr", "seq", "lambda: [str(e) for e in N]"),
    ("first", "seq", "lambda: N[0] if len(N) else None"),
    ("keys", "dict", "lambda: sorted(str(k) for k in N)"),
    ("vty", "dict", "lambda: [type(e).__name__ for e in N.values()]"),
    ("kty", "dict", "lambda: [type(e).__name__ for e in N]"),
    ("get", "dict", "lambda: (N['k'], N[1], N.get('zz'))"),
    ("isn", "none", "lambda: (N is None, N or 5, N == 0)"),
    ("ssum", "series", "lambda: (float(N.sum()), float(N.iloc[0]), len(N), str(N.dtype))"),
    # pandas objects: what exposes TYPE and SHAPE (a Series is not a scalar, a frame is not a Series)
    ("pshape", "pdobj", "lambda: (type(N).__name__, N.shape, len(N), N.ndim, int(N.size))"),
    ("pidx", "pdobj", "lambda: (N.index.tolist(), list(N.index.names), N.index.nlevels)"),
    ("pvals", "pdobj", "lambda: N.values.tolist()"),
    ("pdty", "pdobj", "lambda: [str(t) for t in ([N.dtype] if N.ndim == 1 else N.dtypes)] if len(N) else 'empty'"),
    ("pname", "pdobj", "lambda: (N.name, len(N.index)) if N.ndim == 1 else ([str(c) for c in N.columns], N.columns.name)"),
    ("pel", "pdobj", "lambda x: (N.iloc[x % len(N)].tolist() if N.ndim == 2 else N.tolist()[x % len(N)]) if len(N) else -1"),
    ("ploc", "pdobj", "lambda: [type(N.loc[k]).__name__ for k in N.index]"),
    ("pitems", "pdobj", "lambda: [(str(k), type(v).__name__) for k, v in N.items()]"),
    ("paln", "pdobj", "lambda: (N + N.iloc[::-1]).values.tolist() if len(N) and all(str(t)[0] in 'if' for t in "
                      "([N.dtype] if N.ndim == 1 else N.dtypes)) else len(N)"),
    ("psum", "pdobj", "lambda: (N.sum().tolist() if N.ndim == 2 else N.sum().item()) if len(N) and all(str(t)[0] in 'if' "
                      "for t in ([N.dtype] if N.ndim == 1 else N.dtypes)) else 0"),
    ("pmul", "pdobj", "lambda x: type(N * x).__name__ if len(N) and all(str(t)[0] in 'if' for t in "
                      "([N.dtype] if N.ndim == 1 else N.dtypes)) else type(N).__name__"),
    ("pT", "pdobj", "lambda: (N.T.shape, type(N.T).__name__)"),
    ("call", "callable", "lambda x: (N(x + 0.5), N.__name__)"),
    ("cname", "class", "lambda: (N.__name__, N.__module__)"),
    ("sqrt", "module", "lambda x: (N.sqrt(x * 4.0), N.__name__, N.floor(2.5))"),
    ("has", "set", "lambda: (len(N), 3 in N, 1 in N, sorted(str(e) for e in N), sorted(type(e).__name__ for e in N))"),
]


def _names_in(src):
    return set(n.id for n in ast.walk(ast.parse(src)) if isinstance(n, ast.Name))


def readers(kind, name, avoid=()):
    """-> [(suffix, source)] reading reference `name` of kind `kind`; patterns that use a built-in
    name listed in `avoid` (names the model shadows) are left out"""
    res = []
    avoid = set(avoid)
    for suffix, trait, src in _READERS:
        if trait not in kind.traits:
            continue
        s = re.sub(r"\bN\b", name, src)
        if s.startswith("def rd"):
            s = s.replace("def rd", "def rd_%s_%s" % (name, suffix), 1)
        if (_names_in(s) - {name}) & avoid:
            continue
        res.append((suffix, s))
    return res


# ----------------------------------------------------------------------------- structured family: one model per kind

def _cells(name, src, cached=True):
    return {"name": name, "src": src, "cached": cached}


def motif_desc(kind, name="K"):
    """A model that holds one value kind at every level a reference can live on, read in every way
    that applies to it:
      model-level `gv`; space `A` with its own `v`, `w` and every reading pattern of the kind;
      space `S` (a second and third value of the kind, a few readers) with a static child `S.Ch`
      (sees `gv`, holds its own `s`); `B` derived from `S` overriding `w` with a plain literal;
      parametrised `P[x]` derived from `S` (references copied into instances) with a static child
      `P[x].In`; `Q[n=2]` holding its own reference of the kind, read together with its parameter."""
    def val(alt):
        return {"kind": kind.id, "alt": alt}
    rv = readers(kind, "v")
    a_cells = [_cells("rd_v_" + s, src, cached=(i % 3 != 2)) for i, (s, src) in enumerate(rv)] + [
        _cells("trio", "lambda: (v, w, gv)"),
        _cells("tys", "lambda: [type(e).__name__ for e in (v, w, gv)]", cached=False)]
    special = [x for x in rv if x[0] not in ("id", "ty", "mro", "isi", "exact", "box", "same", "repr", "fmt")]
    s_cells = [_cells("rd_v_" + s, src) for s, src in rv[:2] + special[:3]] + \
              [_cells("rd_w_" + s, src) for s, src in readers(kind, "w")[:2]]
    ch_cells = [_cells("rd_gv_" + s, src) for s, src in readers(kind, "gv")[:3]] + \
               [_cells("third", "lambda: (s, type(s).__name__, gv)")]
    p_cells = [_cells("withx", "lambda: (v, x, type(v).__name__)"),
               _cells("rep", "def rep(a=1):\n    return [v] * (x % 3 + a)", cached=False)]
    in_cells = [_cells("deep", "lambda: (gv, x, type(gv).__name__)")]
    ru = readers(kind, "u")
    q_cells = [_cells("own", "lambda: (u, n, type(u).__name__)"),
               _cells("own2", "lambda a: [type(e).__name__ for e in [u] * (a % 3 + 1)]")] + \
              [_cells("rd_u_" + s, src) for s, src in ru[5:7] + ru[-2:]]
    seen, q2 = set(), []
    for c in q_cells:
        if c["name"] not in seen:
            seen.add(c["name"])
            q2.append(c)
    return {
        "name": name, "profile": "valuekind:" + kind.id,
        "grefs": [{"name": "gv", "val": val(0), "mode": "auto"}],
        "spaces": [
            {"name": "A", "bases": [], "formula": None,
             "refs": [{"name": "v", "val": val(0), "mode": "auto"}, {"name": "w", "val": val(1), "mode": "auto"}],
             "cells": a_cells, "spaces": []},
            {"name": "S", "bases": [], "formula": None,
             "refs": [{"name": "v", "val": val(1), "mode": "auto"}, {"name": "w", "val": val(2), "mode": "auto"}],
             "cells": s_cells,
             "spaces": [{"name": "Ch", "bases": [], "formula": None,
                         "refs": [{"name": "s", "val": val(2), "mode": "auto"}],
                         "cells": ch_cells, "spaces": []}]},
            {"name": "B", "bases": ["S"], "formula": None,
             "refs": [{"name": "w", "val": {"lit": 3}, "mode": "auto"}], "cells": [], "spaces": []},
            {"name": "P", "bases": ["S"], "formula": [["x", None]], "refs": [], "cells": p_cells,
             "spaces": [{"name": "In", "bases": [], "formula": None, "refs": [], "cells": in_cells, "spaces": []}]},
            {"name": "Q", "bases": [], "formula": [["n", 2]],
             "refs": [{"name": "u", "val": val(1), "mode": "auto"}], "cells": q2, "spaces": []},
        ],
    }


def pair_desc(kind_a, kind_b, name="K"):
    """two kinds side by side in one space and in a container built by a formula; the SAME object
    under two names (identity must survive the export when the value is pickled)"""
    return {
        "name": name, "profile": "valuepair:%s+%s" % (kind_a.id, kind_b.id),
        "grefs": [{"name": "ga", "val": {"kind": kind_a.id, "alt": 0}, "mode": "auto"}],
        "spaces": [
            {"name": "A", "bases": [], "formula": None,
             "refs": [{"name": "a", "val": {"kind": kind_a.id, "alt": 0}, "mode": "auto"},
                      {"name": "b", "val": {"kind": kind_b.id, "alt": 0}, "mode": "auto"},
                      {"name": "a2", "val": {"same_as": "a"}, "mode": "auto"}],
             "cells": [_cells("both", "lambda: (a, b, ga)"),
                       _cells("tys", "lambda: [type(e).__name__ for e in (a, b, ga, a2)]"),
                       _cells("reps", "lambda x: [a, b] * x", cached=False),
                       _cells("same", "lambda: (a is a2, type(a2).__name__, a2)"),
                       _cells("eq", "lambda: (a == b, a == ga)")],
             "spaces": []},
            {"name": "S", "bases": ["A"], "formula": [["k", 1]],
             "refs": [{"name": "b", "val": {"kind": kind_b.id, "alt": 1}, "mode": "auto"}],
             "cells": [_cells("mix", "lambda: {'a': a, 'b': b, 'k': k}")], "spaces": []},
        ],
    }


def pandas_value(what):
    import pandas as pd
    if what == "series":
        return pd.Series([1.5, 2.5, 4.0], name="s")
    return pd.DataFrame({"a": [1, 2, 3], "b": [0.5, 1.5, 2.5]})


def io_desc(file_type, name="K"):
    """pandas objects associated with a PandasData IOSpec (`new_pandas`: written to files inside the
    package, `io_data[...]` in `_mx_assign_refs`) next to the same kind of object held as an ordinary
    (pickled) reference, at model level and space level, read in a derived ItemSpace too"""
    ext = "csv" if file_type == "csv" else "xlsx"
    rd = "lambda x: (float(df['b'].sum()), int(df.iloc[x % 3, 0]), type(df).__name__, list(df.columns), " \
         "df.shape, [str(t) for t in df.dtypes], float(gs.sum()), gs.name, type(gs).__name__, float(ps.iloc[x % 3]))"
    return {
        "name": name, "profile": "valueio:" + file_type,
        "grefs": [{"name": "gs", "val": {"pandas": "series", "path": "data/gs." + ext, "file_type": file_type},
                   "mode": "auto"}],
        "spaces": [
            {"name": "A", "bases": [], "formula": None,
             "refs": [{"name": "df", "val": {"pandas": "frame", "path": "data/df." + ext, "file_type": file_type},
                       "mode": "auto"},
                      {"name": "ps", "val": {"kind": "pd_series", "alt": 0}, "mode": "auto"}],
             "cells": [_cells("rd", rd), _cells("tot", "lambda: float(df['a'].sum() + gs.sum() + ps.sum())", cached=False)],
             "spaces": []},
            {"name": "P", "bases": ["A"], "formula": [["k", 1]], "refs": [],
             "cells": [_cells("at", "lambda: (float(df['b'].iloc[k % 3]), k)")], "spaces": []},
        ],
    }


IO_QUICK_READERS = ("pshape", "pidx", "pvals", "pname", "pel", "ploc", "paln")


def io_family(rotation=None):
    """`rotation`: None - every alternative of every shape, every reader, one model per file type (thorough tier);
    n - one alternative per shape (the n-th, modulo), the readers IO_QUICK_READERS, both file types in ONE model.
    -> [(label, desc)]: PandasData references of every small shape (PD_SHAPES x alternatives x csv / excel) at model
    level, in a space, overridden in a derived space, copied into an ItemSpace and read in a static child of it -
    each read by the patterns that expose type and shape."""
    def big_space(name, ft):
        refs, cells = [], []
        for k in [k for k in KINDS if k.io == ft]:
            shape = k.id.rsplit("_", 1)[1]
            for alt in range(len(k.makers)):
                if k.known and alt in (k.known_alts or ()):
                    continue
                if rotation is not None and alt != rotation % len(k.makers):
                    continue
                nm = "r_%s_%d" % (shape, alt)
                refs.append({"name": nm, "val": {"kind": k.id, "alt": alt}, "mode": "auto"})
                for i, (sfx, src) in enumerate(readers(k, nm)):
                    if sfx in ("id", "ty", "mro", "isi", "exact", "box", "same"):
                        continue
                    if rotation is not None and sfx not in IO_QUICK_READERS:
                        continue
                    cells.append(_cells("rd_%s_%s" % (nm, sfx), src, cached=(i + alt) % 3 != 2))
        return {"name": name, "bases": [], "formula": None, "refs": refs, "cells": cells, "spaces": []}

    def small_part(ft, other):
        s1 = BY_ID["pdio_%s_s1" % ft]
        f1 = BY_ID["pdio_%s_f1" % ft]
        s2 = BY_ID["pdio_%s_s2" % other]
        small_refs = [{"name": "v", "val": {"kind": s1.id, "alt": 0}, "mode": "auto"},
                      {"name": "w", "val": {"kind": f1.id, "alt": 2}, "mode": "auto"}]
        small_cells = [_cells("rd_%s_%s" % (nm, sfx), src) for nm, k in (("v", s1), ("w", f1), ("gs", s1))
                       for sfx, src in readers(k, nm) if sfx in ("pshape", "pidx", "pvals", "ploc", "paln")]
        return [
            {"name": "S", "bases": [], "formula": None, "refs": small_refs, "cells": small_cells, "spaces": []},
            {"name": "B", "bases": ["S"], "formula": None,
             "refs": [{"name": "v", "val": {"kind": s2.id, "alt": 0}, "mode": "auto"}], "cells": [], "spaces": []},
            {"name": "P", "bases": ["S"], "formula": [["x", None]], "refs": [],
             "cells": [_cells("withx", "lambda: (type(v).__name__, v.shape, len(v), x, type(gs).__name__, gs.shape)")],
             "spaces": [{"name": "In", "bases": [], "formula": None, "refs": [],
                         "cells": [_cells("deep", "lambda: (type(gs).__name__, gs.shape, gs.index.tolist(), x)")],
                         "spaces": []}]}]
    fts = ("csv", "excel")
    if rotation is not None:
        ft, other = fts[rotation % 2], fts[(rotation + 1) % 2]
        desc = {"name": "IO", "profile": "valueio:family",
                "grefs": [{"name": "gs", "val": {"kind": "pdio_%s_s1" % other, "alt": 1}, "mode": "auto"}],
                "spaces": [big_space("A_csv", "csv"), big_space("A_xl", "excel")] + small_part(ft, other)}
        return [("iofamily", desc)]
    res = []
    for ft, other in (fts, fts[::-1]):
        desc = {"name": "IO", "profile": "valueio:family:" + ft,
                "grefs": [{"name": "gs", "val": {"kind": "pdio_%s_s1" % ft, "alt": 1}, "mode": "auto"}],
                "spaces": [big_space("A", ft)] + small_part(ft, other)}
        res.append(("iofamily:" + ft, desc))
    return res


def motif_family(io_rotation=None):
    """-> [(label, desc)] enumerated first on every run: one model per kind, then pairs of kinds
    across the literal / non-literal boundary"""
    res = []
    for i, k in enumerate(KINDS):
        if k.motif:
            if io_rotation is not None and (i + io_rotation) % 2 == 0:
                continue        # quick tier: every kind every second seed
            res.append(("kind:" + k.id, motif_desc(k)))
    pairs = [("bool", "int"), ("int", "sub_int"), ("float", "sub_float"), ("str", "sub_str"), ("int", "intenum"),
             ("float", "np_float64"), ("str", "np_str"), ("int", "np_int64"), ("none", "bool"),
             ("sub_int_repr", "intenum_std"), ("list_mixed", "dict_mixed"), ("np_array", "float_edge"),
             ("strenum", "str_quotes"), ("floatenum", "sub_int_state")]
    for i, (a, b) in enumerate(pairs):
        if io_rotation is not None and (i + io_rotation) % 2:
            continue            # quick tier: every pair every second seed
        res.append(("pair:%s+%s" % (a, b), pair_desc(BY_ID[a], BY_ID[b])))
    for ft in ("csv", "excel"):
        if io_rotation is not None and ft != ("csv", "excel")[io_rotation % 2]:
            continue            # (the IO family below holds both file types on every run)
        res.append(("io:" + ft, io_desc(ft)))
    res.extend(io_family(io_rotation))
    return res


# ----------------------------------------------------------------------------- what the exporter is expected to see

def traits_of(value, model=None):
    """the facts about a reference value the exporter's decision depends on (for the Lean decision
    model): exact type, strict bases, modelx object?, module in sys.modules?, IOSpec value?"""
    import types as _types

    def tn(t):
        m = getattr(t, "__module__", "")
        q = getattr(t, "__qualname__", t.__name__)
        return q if m == "builtins" else "%s.%s" % (m, q)
    t = type(value)
    iface = valid = False
    try:
        from modelx.core.base import Interface
        if isinstance(value, Interface):
            iface = True
            valid = bool(value._is_valid())
    except Exception:      # noqa: BLE001
        pass
    sysmod = isinstance(value, _types.ModuleType) and any(value is m for m in list(sys.modules.values()))
    io = False
    if model is not None:
        try:
            io = any(spec.value is value for spec in model.iospecs)
        except Exception:  # noqa: BLE001
            io = False
    import math
    fin = not (t is float and not math.isfinite(value))
    return {"ty": tn(t), "bases": [tn(b) for b in t.__mro__[1:]], "iface": iface, "valid": valid,
            "mod": sysmod, "io": io, "fin": fin}
