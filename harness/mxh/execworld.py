"""Exec-layer correspondence: build the same program on real modelx and in the Lean driver,
apply the same operations, and return per-op observations from both sides.

World on the implementation: model `M`, space `S` (space 0) and its child space `S.Ch` (space 1).
A cells `c<i>` lives in the space its description names (`"space"`, default 0); reference `r<j>` lives in
`S` for j < n_rn and in `S.Ch` otherwise.  A formula reads a reference *by name* (`r<j>`: resolved in the
namespace of the formula's own space – a `NameError` when the reference lives elsewhere) or through an
*attribute path* (`Ch.r<j>`, `_space.r<j>`, `_space.parent.r<j>`: `Space.get_attr`, recorded by the executor),
and calls cells of the other space through a path (`Ch.c<i>`, `_space.parent.c<i>`).  Model-level references:
the error classes formulas may catch and the execution logger `zlog` (a harness function called first in every
formula – the ghost `log`).
Edit ops (besides the value edits): `setref r v` (`space.r = v`: change or create), `delref r` (`del space.r`),
`setformula c <sexp>` (`cells.formula = …`), `setcached c 0|1` (`cells.is_cached = …`),
`delcell c` (`del space.c<i>`), `newcell c <cached> <allow_none> <nparams> <sexp>` (`space.new_cells(...)` in the space
the id belongs to – fixed for the whole history, so that the spelling of a call, `c<i>` / `Ch.c<i>` /
`_space.parent.c<i>`, does not depend on when a formula was written).  A cells description with `"absent": True` is
declared (it has a space, formulas may call it) but not created at the start.  Operations through the handle of a
cells that does not exist (deleted) are made on the stale handle (`DeletedObjectError`); for an id that never
existed there is no handle and the harness answers `err Deleted` itself.  Values and graph nodes are attributed to
cells ids through the implementation objects, including those of deleted cells (an orphaned implementation object
that still held a value, or a graph node of it, would show up under the id).
Model-level references (cells description key `"glob"` of the first cells: the reference ids that live in the MODEL,
`M.r<j>`): every space resolves them, no space owns them.  Formulas read them with `("rg", j, form)`: by name, `_space.r`,
through the other space (`Ch.r` / `_space.parent.r`), `_model.r`, `_space.Ch.r` / `_space.parent.Ch.r`.  `setref` / `delref`
of such an id act on the model; `shadow r k v` defines (or changes) a reference of the SAME name in space k, `unshadow r k`
deletes it again.  `copycell c k d` = `c<c>.copy(space k, "c<d>")` (the declared, absent id d comes into being as the copy),
`copyspace` = `S.Ch.copy(S, "Cp")` (the copies of the cells of `Ch` get the ids 100 + i).  These have no counterpart in the
Lean model: `impl_only(cells, ops)` says so and `run_both` then asks the implementation only.
Limit and administrative ops: `maxdepth n` (`mx.set_recursion(n)`), `admin start|stop|get|clear|tracestack`
(`mx.start_stacktrace()` … `with mx.trace_stack(): pass`), `admin getrecursion|geterror|gettraceback|setsame`
(`mx.get_recursion()`, `mx.get_error()`, `mx.get_traceback()`, `mx.set_recursion(mx.get_recursion())`); the
observation `maxdepth` is `mx.get_recursion()`.
"""
from . import core
from .expr import Renderer, sexp, parse_sexp, model_sexp, subexprs, KINDS
from .impl import mx, close_all, quiet, err_kind
from modelx.core.errors import DeepReferenceError, NoneReturnedError, FormulaError

OBS = ["values", "graph", "refgraph", "log", "tb", "quiescent", "maxdepth"]

# administrative calls: they must not change anything an evaluation depends on (op `admin <what>`)
ADMIN = ["start", "stop", "get", "clear", "tracestack", "getrecursion", "geterror", "gettraceback", "setsame"]


def val_s(v):
    if v is None:
        return "N"
    if isinstance(v, bool):
        return "B%d" % int(v)
    if isinstance(v, int):
        return str(v)
    return "?" + type(v).__name__


def parse_val(s):
    return None if s == "N" else int(s)


def split_args(toks):
    """argument tokens of a request: values, then `k<i>=<value>` -> (positional values, {parameter index: value})"""
    pos, kw = [], {}
    for t in toks:
        if t.startswith("k") and "=" in t:
            i, v = t[1:].split("=")
            kw[int(i)] = parse_val(v)
        else:
            pos.append(parse_val(t))
    return pos, kw


def node_s(cid, key):
    return "%d[%s]" % (cid, ",".join(val_s(k) for k in key))


class deep_counter:
    """Counts DeepReferenceError instantiations (harness-side patch of the exception class;
    nothing in /repo is changed)."""
    count = 0
    _orig = None

    @classmethod
    def install(cls):
        if cls._orig is None:
            cls._orig = DeepReferenceError.__init__

            def init(self, *a, **k):
                deep_counter.count += 1
                Exception.__init__(self, *a, **k)
            DeepReferenceError.__init__ = init


IMPL_ONLY_OPS = ("shadow", "unshadow", "copycell", "copyspace")
COPY_BASE = 100         # id of the copy of cells i made by `copyspace`: COPY_BASE + i


def impl_only(cells, ops):
    """does the program or the history use vocabulary the Lean model does not have?"""
    if cells and cells[0].get("glob"):
        return True
    if any(op[0] in IMPL_ONLY_OPS for op in ops):
        return True
    return any("(rg " in " ".join(op) for op in ops if op[0] in ("setformula", "newcell"))


class ExecImpl:
    def __init__(self, cells, refs, n_rn, maxdepth=None, log=True, nested=False, recorder=None):
        self.cells_def = cells
        self.n_rn = n_rn
        self.glob = set(cells[0].get("glob") or []) if cells else set()
        self.log = []
        self.nested = nested
        if not nested:
            close_all()
        deep_counter.install()
        self._stop_trace()
        self.old_depth = mx.get_recursion()
        with quiet():
            self.m = mx.new_model("Mn" if nested else "M")
            self.S = self.m.new_space("S")
            self.Ch = self.S.new_space("Ch")
            # allow_none at space / model level (cells -> space -> model, nearest setting that is not None wins)
            if cells and "an_space" in cells[0]:
                self.S.allow_none = cells[0]["an_space"]
            if cells and "an_model" in cells[0]:
                self.m.allow_none = cells[0]["an_model"]
            self.m.DeepReferenceError = DeepReferenceError
            self.m.NoneReturnedError = NoneReturnedError
            self.recorder = recorder
            if recorder is not None:
                self.m.zc = recorder.zc
                self.m.zlog = recorder.zlog
                self.m.zr = recorder.zr
                log = True
            elif log:
                self.m.zlog = self._log
            self.refimpl = {}
            for r, v in refs.items():
                self.set_ref(r, v)
            self.cell_space = {c["id"]: int(c.get("space", 0)) for c in cells}
            names = {"cell": self._cell_name, "rn": lambda r: "r%d" % r, "ra": self._attr_path, "rg": self._glob_path}
            self.rend = Renderer(names, "zlog" if log else None, "zc" if recorder is not None else None,
                                 "zr" if recorder is not None else None)
            self.cells = {}
            self.impls = {}         # cid -> every implementation object the id ever had (deleted ones included)
            self.ifaces = {}        # cid -> every interface object (handle) the id ever had
            self.linemaps = {}
            self.sources = {}
            self.cells_def = [dict(c) for c in cells]
            # how formulas spell a cells of their own space: by its name (default); "mixed" (set in the first cells'
            # description): call sites take turns between the name `c<i>`, a reference `zc<i>` that holds the cells,
            # and the attribute path `_space.c<i>` - three routes into the library for one and the same call
            self.call_style = cells[0].get("call_style") if cells else None
            self.n_sites = 0
            for c in cells:
                if not c.get("absent"):
                    self.define(c)
            if self.call_style == "mixed":
                for c in cells:
                    if not c.get("absent"):
                        setattr(self.space_obj(int(c.get("space", 0))), "zc%d" % c["id"], self.cells[c["id"]])
        mx.set_recursion(maxdepth if maxdepth else 100000)
        self.ex = mx.core.mxsys.executor

    def _log(self, cid, key):
        self.log.append(node_s(cid, key))
        # how deep the formulas are nested right now (the executor's own stack, whichever object it is)
        d = len(mx.core.mxsys.executor.callstack)
        if d > self.maxnest:
            self.maxnest = d

    maxnest = 0

    @staticmethod
    def _stop_trace():
        with quiet():
            try:
                mx.stop_stacktrace()
            except Exception:       # noqa: BLE001
                pass

    def ref_space(self, r):
        if r in self.glob:
            return 2
        return 0 if r < self.n_rn else 1

    def space_obj(self, k):
        return self.m if k == 2 else self.Cp if k == 3 else self.Ch if k else self.S

    def set_ref(self, r, v):
        setattr(self.space_obj(self.ref_space(r)), "r%d" % r, v)

    def _glob_path(self, r, form):
        """how the formula being rendered reads the model-level reference r (expr.py, "rg")"""
        here = self.cell_space.get(self.rend.cid, 0)
        if form == 0:
            return "r%d" % r
        if form == 1:
            return "_space.r%d" % r
        if form == 2:
            return ("Ch.r%d" if here == 0 else "_space.parent.r%d") % r
        if form == 3:
            return "_model.r%d" % r
        return ("_space.Ch.r%d" if here == 0 else "_space.parent.Ch.r%d") % r

    # how the formula being rendered (`self.rend.cid`) spells a cells / a reference of space `k`
    def _path_to(self, k):
        here = self.cell_space.get(self.rend.cid, 0)
        if here == k:
            return None
        return "Ch" if k == 1 else "_space.parent"

    def _cell_name(self, c):
        p = self._path_to(self.cell_space.get(c, 0))
        if p is None and self.call_style == "mixed":
            self.n_sites += 1
            return ("c%d", "zc%d", "_space.c%d")[self.n_sites % 3] % c
        return "c%d" % c if p is None else "%s.c%d" % (p, c)

    def _attr_path(self, r):
        if r in self.glob:
            return self._glob_path(r, 1)
        p = self._path_to(self.ref_space(r))
        return "%s.r%d" % ("_space" if p is None else p, r)

    def define(self, c):
        # "lam": the formula is handed to modelx as a lambda expression instead of a def
        src, lm = self.rend.render("c%d" % c["id"], c["id"], c["nparams"], c["body"], lam=bool(c.get("lam")),
                                   enforce_none=bool(c.get("enforce_none")), defaults=c.get("defaults") or ())
        self.sources[c["id"]] = src
        self.linemaps[c["id"]] = lm
        cells = self.space_obj(int(c.get("space", 0))).new_cells("c%d" % c["id"], formula=src, is_cached=c["cached"])
        cells.allow_none = c["allow_none"]
        self.cells[c["id"]] = cells
        self.impls.setdefault(c["id"], []).append(cells._impl)
        self.ifaces.setdefault(c["id"], []).append(cells)

    def exists(self, cid):
        c = self.cells.get(cid)
        return c is not None and c._is_valid()

    def close(self):
        self._stop_trace()
        mx.set_recursion(self.old_depth)
        if self.nested:
            recalc = mx.get_recalc()
            self.m.close()
            mx.set_recalc(recalc)
        else:
            close_all()

    # ---- ids
    def cid_of(self, impl):
        for cid, impls in self.impls.items():
            if any(i is impl for i in impls):
                return cid
        return "?%s" % getattr(impl, "name", impl)

    def cid_of_obj(self, obj):
        """the id of a cells interface (a traceback kept from an earlier failure may name a cells deleted since)"""
        for cid, objs in self.ifaces.items():
            if any(o is obj for o in objs):
                return cid
        return self.cid_of(obj._impl)

    def gnode_s(self, n):
        if len(n) == 1:
            return "%s*" % self.cid_of(n[0])
        return node_s(self.cid_of(n[0]), n[1])

    @staticmethod
    def _held(c, args):
        """(value,) when the element of cells `c` denoted by the positional arguments holds a value, else None"""
        data = c._impl.data
        if args in data:
            return (data[args],)
        try:
            b = c._impl.formula.signature.bind(*args)
            b.apply_defaults()
            key = tuple(b.arguments.values())
        except TypeError:
            return None
        return (data[key],) if key in data else None

    # ---- ops
    def apply(self, op):
        kind = op[0]
        try:
            with quiet():
                if kind in ("eval", "set", "clearat", "clear", "clearall", "setformula", "setcached") \
                        and int(op[1]) in self.cell_space and int(op[1]) not in self.cells:
                    return "err Deleted"        # the id never had a cells: no handle to go through
                if kind == "eval":
                    c = self.cells[int(op[1])]
                    args, kw = split_args(op[2:])
                    try:
                        v = c(*args, **{"a%d" % i: x for i, x in kw.items()})
                    except FormulaError:
                        e = mx.get_error()
                        tb = ",".join(node_s(self.cid_of_obj(n.obj), n.args) for n, _ in mx.get_traceback())
                        return "err Formula %s tb=%s" % (err_kind(e), tb)
                    return "ok " + val_s(v)
                if kind == "set":
                    c = self.cells[int(op[1])]
                    eq = op.index("=")
                    args = tuple(parse_val(a) for a in op[2:eq])
                    held = self._held(c, args)
                    if op[eq + 1] == "same":
                        # "the value the element holds now" (generated histories cannot know it): made concrete HERE,
                        # in place, so that the model driver, every later run of the history and the replay file see
                        # an ordinary assignment
                        op[eq + 1] = val_s(held[0]) if held and (held[0] is None or type(held[0]) is int) else "3"
                    v = parse_val(op[eq + 1])
                    if held and type(held[0]) is type(v) and held[0] == v:
                        # assigning an element the value it holds is `cells[k] = cells[k]`: the very object (CPython
                        # shares only small ints, so a parsed token would be an equal but distinct object otherwise)
                        v = held[0]
                    # the assignment is made for real, also with arguments that do not fit the signature: that
                    # modelx refuses it (TypeError from its own binding of the arguments) before changing
                    # anything is an observation, not something the harness may answer in its place
                    c[args] = v
                    return "ok"
                if kind == "clearat":
                    c = self.cells[int(op[1])]
                    args, kw = split_args(op[2:])
                    c.clear_at(*args, **{"a%d" % i: x for i, x in kw.items()})
                    return "ok"
                if kind == "clear":
                    self.cells[int(op[1])].clear()
                    return "ok"
                if kind == "clearall":
                    self.cells[int(op[1])].clear_all()
                    return "ok"
                if kind == "setref":
                    self.set_ref(int(op[1]), parse_val(op[2]))
                    return "ok"
                if kind == "delref":
                    r = int(op[1])
                    delattr(self.space_obj(self.ref_space(r)), "r%d" % r)
                    return "ok"
                if kind == "shadow":
                    setattr(self.space_obj(int(op[2])), "r%d" % int(op[1]), parse_val(op[3]))
                    return "ok"
                if kind == "unshadow":
                    delattr(self.space_obj(int(op[2])), "r%d" % int(op[1]))
                    return "ok"
                if kind == "copycell":
                    return self.copy_cell(int(op[1]), int(op[2]), int(op[3]))
                if kind == "copyspace":
                    return self.copy_space()
                if kind == "setformula":
                    cid = int(op[1])
                    c = next(x for x in self.cells_def if x["id"] == cid)
                    src, lm = self.rend.render("c%d" % cid, cid, c["nparams"], parse_sexp(" ".join(op[2:])),
                                               defaults=c.get("defaults") or ())
                    self.cells[cid].formula = src
                    self.sources[cid] = src
                    self.linemaps[cid] = lm
                    return "ok"
                if kind == "delcell":
                    cid = int(op[1])
                    delattr(self.space_obj(self.cell_space[cid]), "c%d" % cid)
                    return "ok"
                if kind == "newcell":
                    cid = int(op[1])
                    old = next(x for x in self.cells_def if x["id"] == cid)
                    c = dict(old, cached=op[2] == "1", allow_none=None if op[3] == "n" else op[3] == "1",
                             nparams=int(op[4]), body=parse_sexp(" ".join(op[5:])))
                    c.pop("absent", None)
                    c.pop("lam", None)
                    if self.exists(cid):
                        # the name is taken: `new_cells` refuses
                        self.space_obj(self.cell_space[cid]).new_cells("c%d" % cid, formula="lambda: 0")
                        return "bad-op"
                    self.define(c)
                    self.cells_def = [c if x["id"] == cid else x for x in self.cells_def]
                    return "ok"
                if kind == "setcached":
                    self.cells[int(op[1])].is_cached = (op[2] == "1")
                    return "ok"
                if kind == "maxdepth":
                    mx.set_recursion(int(op[1]))
                    return "ok"
                if kind == "recalc":
                    # the recalculation option (reset by `close_all` when the world is closed)
                    mx.set_recalc(op[1] == "on")
                    return "ok"
                if kind == "admin":
                    return self.admin(op[1])
                if kind == "obs":
                    return self.observe(op[1])
        except BaseException as e:      # noqa: BLE001
            # formulas of generated programs raise KeyboardInterrupt (with an argument) too: whatever comes out
            # of the library is an observation; a real Ctrl-C (no argument) is not
            if isinstance(e, (KeyboardInterrupt, SystemExit)) and not e.args:
                raise
            return "err " + err_kind(e)
        return "bad-op"

    def adopt(self, cid, cells, like, space):
        """a cells that came into being as a copy gets the id `cid` (definition as cells `like`)"""
        old = next(x for x in self.cells_def if x["id"] == like)
        self.cells[cid] = cells
        self.impls.setdefault(cid, []).append(cells._impl)
        self.ifaces.setdefault(cid, []).append(cells)
        self.cell_space[cid] = space
        self.sources[cid] = self.sources.get(like)
        self.linemaps[cid] = self.linemaps.get(like)
        c = dict(old, id=cid, space=space)
        c.pop("absent", None)
        self.cells_def = [x for x in self.cells_def if x["id"] != cid] + [c]

    def copy_cell(self, src, k, dst):
        """`c<src>.copy(space k, "c<dst>")`: formula, flags and INPUT values go with the copy; the copy resolves every
        name in space k"""
        if self.exists(dst):
            self.cells[src].copy(self.space_obj(k), "c%d" % dst)     # the name is taken: refused by the library
            return "bad-op"
        new = self.cells[src].copy(self.space_obj(k), "c%d" % dst)
        self.adopt(dst, new, src, k)
        return "ok"

    def copy_space(self):
        """`S.Ch.copy(S, "Cp")`: the copies of the cells of Ch get the ids COPY_BASE + i; the copied space has its own
        references (copies of those of Ch)"""
        self.Cp = self.Ch.copy(self.S, "Cp")
        for cid in sorted(c for c, k in list(self.cell_space.items()) if k == 1 and self.exists(c)):
            self.adopt(COPY_BASE + cid, self.Cp.cells["c%d" % cid], cid, 3)
        return "ok"

    def admin(self, what):
        if what == "start":
            mx.start_stacktrace()
        elif what == "stop":
            mx.stop_stacktrace()
        elif what == "get":
            mx.get_stacktrace()
        elif what == "clear":
            mx.clear_stacktrace()
        elif what == "tracestack":
            with mx.trace_stack():
                pass
        elif what == "getrecursion":
            return "ok %d" % mx.get_recursion()
        elif what == "geterror":
            mx.get_error()
        elif what == "gettraceback":
            mx.get_traceback()
            mx.get_traceback(show_locals=True)
        elif what == "setsame":
            mx.set_recursion(mx.get_recursion())
        else:
            return "bad-op"
        return "ok"

    def observe(self, what):
        if what == "maxdepth":
            return "maxdepth %d" % mx.get_recursion()
        if what == "values":
            items = []
            for cid, impls in self.impls.items():
                for impl in impls:
                    for k, v in impl.data.items():
                        items.append("%s=%s%s" % (node_s(cid, k), val_s(v), "I" if k in impl.input_keys else "C"))
            return "values " + " ".join(sorted(items))
        if what == "graph":
            g = self.m._impl.tracegraph
            ns = sorted(self.gnode_s(n) for n in g.nodes)
            es = sorted("%s>%s" % (self.gnode_s(a), self.gnode_s(b)) for a, b in g.edges)
            return "graph nodes " + " ".join(ns) + " edges " + " ".join(es)
        if what == "refgraph":
            g = self.m._impl.refgraph
            es = []
            for a, b in g.edges:
                es.append("r%s>%s" % (a.name[1:] if a.name.startswith("r") else a.name, self.gnode_s(b)))
            return "refgraph " + " ".join(sorted(es))
        if what == "log":
            s = "log " + " ".join(self.log)
            self.log = []
            return s
        if what == "tb":
            es = self.ex.errorstack
            e = getattr(self.ex, "excinfo", None)
            kind = err_kind(e[1]) if e else "-"
            nodes = [node_s(self.cid_of_obj(n.obj), n.args) for n, _ in mx.get_traceback()] if es else []
            return "tb %s %s" % (kind, " ".join(nodes))
        if what == "quiescent":
            return "q stack=%d idx=%d refstack=%d" % (
                len(self.ex.callstack), len(self.ex.callstack.idxstack), len(self.ex.refstack))
        if what == "handled":
            # a measurement the model driver makes for the coverage report; nothing is read off the implementation
            return "handled -"
        return "bad-op"


def model_prelude(cells, refs, maxdepth):
    lines = ["reset", "maxdepth %d" % (maxdepth if maxdepth else 100000)]
    if cells and "an_space" in cells[0]:
        lines.append("allownone space " + tri(cells[0]["an_space"]))
    if cells and "an_model" in cells[0]:
        lines.append("allownone model " + tri(cells[0]["an_model"]))
    for r, v in refs.items():
        lines.append("ref %d %s" % (r, val_s(v)))
    # signatures with default values (fixed per id for the whole history) before any formula: the reader of the model
    # driver writes the defaults of the callee into every call
    for c in cells:
        if c.get("defaults"):
            lines.append("sig %d %d %s" % (c["id"], c["nparams"], " ".join(val_s(v) for v in c["defaults"])))
    for c in cells:
        if not c.get("absent"):
            lines.append(cell_line(c))
    return lines


def space_lines(cells, refs, n_rn):
    """which space each cells / reference lives in (the model needs it for name resolution and for the set of
    cells a namespace change notifies)"""
    lines = []
    for r in range(max(list(refs) + [n_rn]) + 4):
        lines.append("space ref %d %d" % (r, 0 if r < n_rn else 1))
    for c in cells:
        lines.append("space cell %d %d" % (c["id"], int(c.get("space", 0))))
    return lines


def tri(v):
    return "n" if v is None else str(int(bool(v)))


def cell_line(c):
    return "cell %d %d %s %d %s" % (c["id"], int(c["cached"]), tri(c["allow_none"]), c["nparams"], model_sexp(c["body"]))


def model_line(op):
    """the op as the Lean driver reads it (formulas in the model's vocabulary)"""
    if op[0] == "setformula":
        return " ".join(op[:2]) + " " + model_sexp(parse_sexp(" ".join(op[2:])))
    if op[0] == "newcell":
        return " ".join(op[:5]) + " " + model_sexp(parse_sexp(" ".join(op[5:])))
    return " ".join(op)


def run_both(cells, refs, n_rn, maxdepth, ops, observe=OBS, log=True):
    """-> list of records {op, impl, model, obs: {what: (impl, model)}} ; one per op"""
    impl = ExecImpl(cells, refs, n_rn, maxdepth, log=log)
    try:
        only = impl_only(cells, ops)
        lines = [] if only else model_prelude(cells, refs, maxdepth) + space_lines(cells, refs, n_rn)
        npre = len(lines)
        recs = []
        for op in ops:
            rec = {"op": op, "impl": impl.apply(op), "obs": {}}
            lines.append(model_line(op))
            for w in observe:
                rec["obs"][w] = [impl.observe(w), None]
                lines.append("obs " + w)
            recs.append(rec)
        if only:
            # vocabulary without a counterpart in the Lean model: the implementation-only oracles judge the history
            for rec in recs:
                rec["model"] = None
            return recs
        out = core.run_driver("exec", lines)
        for l in out[:npre]:
            if l != "ok":
                raise core.Infra("driver rejected the program prelude: %r" % out[:npre])
        i = npre
        for rec in recs:
            rec["model"] = out[i]
            i += 1
            for w in observe:
                rec["obs"][w][1] = out[i]
                i += 1
        return recs
    finally:
        impl.close()
