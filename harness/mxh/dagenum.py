"""Small-scope EXHAUSTIVE enumeration of dependency shapes for the value layer (C06, C08).

The random programs of the exec family draw 1-6 cells with free bodies; whether a particular SHAPE of the dependency
graph arises together with a particular ORDER in which its edges were recorded is a matter of luck.  This module
enumerates instead:

* every dependency DAG on n cells over a fixed rank order (cells i calls a subset of the cells j < i: the
  upper-triangular adjacency matrices, 2^(n(n-1)/2) shapes: 8 / 64 / 1024 for n = 3 / 4 / 5); the formula of a cells is
  the sum of its callees (called in ascending or in descending rank order) plus a constant; all cells have no
  parameter, or all have one (the argument is passed on);
* every order in which the n cells can be requested from outside (the order decides in which order the edges enter
  the graph library's adjacency dicts; orders that record the same events in the same sequence are run once);
* every cells as the edited element, being a computed element or (assigned before anything was evaluated) an input;
* every value edit: assignment, clear_at, clear, clear_all, and the assignment with the recalculation option on.

What is checked per scenario is the property's own statement with everything computed independently from the SHAPE
(the calls a formula makes are its callees, by construction; every formula logs its executions):

  C06  held after the edit = held before - (edited element + its dependents) [+ the element as input for an
       assignment]; dependents = the search `desc` below over the calls; the input marks follow the ledger (assigned
       and not cleared since); with recalculation on, the dependents are held again with the values of plain
       evaluation, each formula having run exactly once; afterwards every cells returns the value plain Python
       evaluation gives (assigned values consulted first), and exactly the discarded elements run their formula.
  C08  after every request and after the edit: element nodes of the graph = elements holding a value; the
       predecessors of a computed element = the callees of its cells, an input has none; successors = the converse.

One modelx model is built per (shape, arity, callee order) and re-used across orders and edits (`clear_all` between
scenarios); a failing scenario is re-run as an ordinary exec-family case (fresh model, the property's full oracle,
the Lean correspondence) and reported with that history, so that the replay needs nothing from this module.
"""
import itertools

from .impl import mx, close_all, quiet

EDITS = ("set", "clearat", "clear", "clearall", "set-recalc")


def shapes(n):
    """-> list of callee lists: callees[i] = sorted list of j < i"""
    pairs = [(j, i) for i in range(n) for j in range(i)]
    out = []
    for bits in range(1 << len(pairs)):
        cal = [[] for _ in range(n)]
        for b, (j, i) in enumerate(pairs):
            if bits >> b & 1:
                cal[i].append(j)
        out.append(cal)
    return out


def const(i):
    return 1 + 3 * i


def events(callees, order, desc_order=False):
    """the sequence of graph events an evaluation of the cells in `order` records, starting from nothing held:
    ("e", callee, caller) when a call returns (miss or hit), ("n", i) when a top-level request completes"""
    held, ev = set(), []

    def run(i):
        for j in (reversed(callees[i]) if desc_order else callees[i]):
            if j not in held:
                run(j)
            ev.append(("e", j, i))
        held.add(i)
    for i in order:
        if i not in held:
            run(i)
            ev.append(("n", i))
    return tuple(ev)


def distinct_orders(callees, desc_order=False):
    seen, out = set(), []
    for order in itertools.permutations(range(len(callees))):
        sig = events(callees, order, desc_order)
        if sig not in seen:
            seen.add(sig)
            out.append(order)
    return out


def desc(callees, e):
    """dependents of cells e: everything that called it, directly or through others (own search)"""
    n = len(callees)
    res, todo = set(), [e]
    while todo:
        x = todo.pop()
        for i in range(n):
            if x in callees[i] and i not in res:
                res.add(i)
                todo.append(i)
    return res


def plain_values(callees, inputs):
    vals = {}
    for i in range(len(callees)):
        vals[i] = inputs[i] if i in inputs else sum(vals[j] for j in callees[i]) + const(i)
    return vals


def exec_case(callees, arity, desc_order, order, e, as_input, edit):
    """the scenario as an ordinary exec-family case (cells description + op list)"""
    arg = ["1"] if arity else []
    cells = []
    for i, cs in enumerate(callees):
        body = ("lit", const(i))
        for j in (reversed(cs) if desc_order else cs):
            body = ("add", body, ("call", j, [("p", 0)] if arity else []))
        cells.append({"id": i, "nparams": arity, "cached": True, "allow_none": False, "body": body})
    ev = [["eval", str(i)] + arg for i in order]
    ops = ([["set", str(e)] + arg + ["=", "500"]] if as_input else []) + ev
    if edit.startswith("set"):
        ops.append(["set", str(e)] + arg + ["=", "700"])
    elif edit == "clearat":
        ops.append(["clearat", str(e)] + arg)
    else:
        ops.append([edit, str(e)])
    ops += [["eval", str(i)] + arg for i in range(len(callees))]
    label = "dag/%s arity=%d %s order=%s %s c%d%s" % (
        "|".join(",".join(map(str, c)) for c in callees), arity, "desc" if desc_order else "asc",
        "".join(map(str, order)), edit, e, " input" if as_input else "")
    return {"cells": cells, "refs": {0: 1, 1: 2, 2: 3, 3: 4}, "n_rn": 2, "maxdepth": None, "ops": ops, "label": label}


class ShapeModel:
    """one modelx model for a shape; formulas log their executions through a model-level function"""

    def __init__(self, callees, arity, desc_order):
        self.callees, self.arity, self.desc_order = callees, arity, desc_order
        self.n = len(callees)
        self.log = []
        self.key = (1,) if arity else ()
        with quiet():
            self.m = mx.new_model("D")
            self.m.zlog = self.log.append
            s = self.m.new_space("S")
            self.cells = []
            par = "a0" if arity else ""
            for i, cs in enumerate(callees):
                terms = ["%d" % const(i)] + ["c%d(%s)" % (j, par) for j in (reversed(cs) if desc_order else cs)]
                src = "def c%d(%s):\n    zlog(%d)\n    return %s\n" % (i, par, i, " + ".join(terms))
                self.cells.append(s.new_cells("c%d" % i, formula=src))
        self.impls = [c._impl for c in self.cells]
        self.index = {id(im): i for i, im in enumerate(self.impls)}
        self.g = self.m._impl.tracegraph

    def close(self):
        with quiet():
            self.m.close()

    def reset(self):
        for c in self.cells:
            c.clear_all()

    def held(self):
        """{i: (value, is input)}"""
        out = {}
        for i, im in enumerate(self.impls):
            if self.key in im.data:
                out[i] = (im.data[self.key], self.key in im.input_keys)
            if len(im.data) > (1 if self.key in im.data else 0):
                out[("other", i)] = tuple(im.data)
        return out

    def graph(self):
        """(set of element nodes, set of edges) as cells indices; anything unexpected as a string"""
        nodes, edges = set(), set()
        for nd in self.g.nodes:
            nodes.add(self.index.get(id(nd[0]), "?") if len(nd) == 2 and nd[1] == self.key else "odd:%r" % (nd[1:],))
        for a, b in self.g.edges:
            edges.add((self.index.get(id(a[0]), "?"), self.index.get(id(b[0]), "?")))
        return nodes, edges

    def call(self, i):
        return self.cells[i](*self.key)


def check_graph(sm, inputs, when, fails):
    """C08's clauses, from the shape alone"""
    held = sm.held()
    nodes, edges = sm.graph()
    hs = {i for i in held if isinstance(i, int)}
    if nodes != hs:
        fails.append("%s: element nodes of the graph %s, elements holding a value %s" % (when, sorted(map(str, nodes)),
                                                                                       sorted(hs)))
        return
    want = {(j, i) for i in hs if i not in inputs for j in sm.callees[i]}
    if edges != want:
        fails.append("%s: graph edges only reported %s, calls made and not reported %s" % (
            when, sorted(edges - want), sorted(want - edges)))
        return
    # public API, one element
    for i in sorted(hs)[:2]:
        with quiet():
            p = {sm.index.get(id(x.obj._impl), "?") for x in sm.cells[i].preds(*sm.key)}
            s = {sm.index.get(id(x.obj._impl), "?") for x in sm.cells[i].succs(*sm.key)}
        wp = set() if i in inputs else set(sm.callees[i])
        ws = {k for k in hs if i in sm.callees[k] and k not in inputs}
        if p != wp or s != ws:
            fails.append("%s: c%d preds() %s (calls made %s), succs() %s (callers %s)" % (
                when, i, sorted(p), sorted(wp), sorted(s), sorted(ws)))
            return


def run_scenario(sm, order, e, as_input, edit, graph_checks=False):
    """-> list of failure texts (empty: the property held on this scenario)"""
    fails = []
    n, callees = sm.n, sm.callees
    recalc = edit == "set-recalc"
    sm.reset()
    inputs = {}
    with quiet():
        try:
            if as_input:
                sm.cells[e][sm.key] = 500
                inputs[e] = 500
            for i in order:
                sm.call(i)
                if graph_checks:
                    check_graph(sm, inputs, "after evaluating %s" % "".join(map(str, order[:order.index(i) + 1])), fails)
                    if fails:
                        return fails
            vals = plain_values(callees, inputs)
            before = sm.held()
            if before != {i: (vals[i], i in inputs) for i in range(n)}:
                return ["before the edit the held values are %s, plain evaluation gives %s" % (before, vals)]
            del sm.log[:]
            if recalc:
                mx.set_recalc(True)
            try:
                if edit.startswith("set"):
                    sm.cells[e][sm.key] = 700
                elif edit == "clearat":
                    sm.cells[e].clear_at(*sm.key)
                elif edit == "clear":
                    sm.cells[e].clear()
                else:
                    sm.cells[e].clear_all()
            finally:
                if recalc:
                    mx.set_recalc(False)
        except BaseException as x:      # noqa: BLE001
            return ["the history raised %r" % (x,)]
        ran = sorted(sm.log)
        del sm.log[:]
        # what the statement says
        ds = desc(callees, e)
        if edit == "clear" and e in inputs:
            gone = set()                # clear() spares inputs: nothing happens
        else:
            gone = ds | {e}
        if edit.startswith("set"):
            inputs[e] = 700
        elif gone:
            inputs.pop(e, None)
        nvals = plain_values(callees, inputs)
        expect = {i: before[i] for i in range(n) if i not in gone}
        if edit.startswith("set"):
            expect[e] = (700, True)
        if recalc:
            for i in ds:
                expect[i] = (nvals[i], False)
            if ran != sorted(ds):
                fails.append("recalculation ran the formulas %s; the dependents of c%d are %s" % (ran, e, sorted(ds)))
        elif ran:
            fails.append("the edit ran formulas: %s" % ran)
        after = sm.held()
        if after != expect:
            fails.append("held after the edit %s; before minus dependents %s gives %s" % (
                _show(after), sorted(gone), _show(expect)))
        if graph_checks:
            check_graph(sm, inputs, "after the edit", fails)
        # everything is asked again: plain values; exactly the discarded elements run
        try:
            got = {i: sm.call(i) for i in range(n)}
        except BaseException as x:      # noqa: BLE001
            fails.append("re-evaluation after the edit raised %r" % (x,))
            return fails
        ran = sorted(sm.log)
        del sm.log[:]
        if got != nvals:
            fails.append("values after the edit %s, plain evaluation gives %s" % (got, nvals))
        want_run = sorted(i for i in range(n) if i not in after and i not in inputs) if after == expect else None
        if want_run is not None and ran != want_run:
            fails.append("formulas run when everything is asked again: %s; elements without a value: %s" % (ran, want_run))
        if graph_checks:
            check_graph(sm, inputs, "after re-evaluation", fails)
    return fails


def _show(h):
    return " ".join("c%s=%s%s" % (i, v[0], "I" if v[1] else "C") if isinstance(i, int) else "%s=%s" % (i, v)
                    for i, v in sorted(h.items(), key=str))


def scenarios(n, tier, seed, slice_k, shape_k=1):
    """(callees, arity, desc_order, [orders]) per model; quick: the arity and the callee order alternate with the shape
    index (shifted by the seed), a rotating 1/shape_k slice of the shapes and a rotating 1/slice_k slice of the distinct
    orders of each is taken (which ones: by the seed); thorough: everything (5 cells: one variant per shape)"""
    for si, callees in enumerate(shapes(n)):
        if tier != "thorough" and shape_k > 1 and (si + seed) % shape_k:
            continue
        variants = [(a, d) for a in (0, 1) for d in (False, True)]
        if tier != "thorough" or n >= 5:
            # (thorough, 5 cells: every shape and every order, the variant alternating with the shape)
            variants = [variants[(si // max(shape_k, 1) + seed) % 4]]
        for arity, d in variants:
            orders = distinct_orders(callees, d)
            if tier != "thorough" and slice_k > 1:
                orders = [o for k, o in enumerate(orders) if (k + si // max(shape_k, 1) + seed) % slice_k == 0] or orders[:1]
            yield callees, arity, d, orders


def enumerate_all(ctx, on_failure, stats, n=4, slice_k=1, shape_k=1, graph_checks=False, edits=EDITS, max_failures=3):
    """run every scenario; on_failure(case, texts) for the first failing scenarios (case = exec-family form)"""
    close_all()
    nf = 0
    for callees, arity, d, orders in scenarios(n, ctx.tier, ctx.seed, slice_k, shape_k):
        sm = ShapeModel(callees, arity, d)
        stats["dag_shapes"] += 1
        try:
            for order in orders:
                stats["dag_orders"] += 1
                for e in range(n):
                    for as_input in (False, True):
                        for edit in edits:
                            if as_input and edit == "set-recalc" and not desc(callees, e):
                                continue
                            stats["dag_scenarios"] += 1
                            fails = run_scenario(sm, order, e, as_input, edit, graph_checks)
                            if fails:
                                nf += 1
                                on_failure(exec_case(callees, arity, d, order, e, as_input, edit), fails)
                                if nf >= max_failures:
                                    return
                                # the model may be in a broken state: start from a fresh one
                                sm.close()
                                sm = ShapeModel(callees, arity, d)
        finally:
            sm.close()
    close_all()


def sample_cases(ctx, n, count):
    """a seeded sample of the scenarios as exec-family cases (they go through the Lean correspondence and the
    property's full oracle like every other structured case): shapes spread over the whole list"""
    rng = ctx.rng("dag-sample", n)
    shp = shapes(n)
    # shapes with at least one cells that has two dependents (the others are chains / isolated cells)
    rich = [c for c in shp if any(sum(1 for cs in c if j in cs) >= 2 for j in range(n))]
    out = []
    for k in range(count):
        callees = rng.choice(rich)
        arity, d = rng.randrange(2), rng.random() < 0.5
        order = rng.choice(distinct_orders(callees, d))
        cand = [e for e in range(n) if desc(callees, e)] or list(range(n))
        out.append(exec_case(callees, arity, d, order, rng.choice(cand), rng.random() < 0.4,
                             rng.choice(("set", "clearat", "clear", "clearall"))))
    return out
