"""Formulas given as OBJECTS (not source text): the catalogue the structure-level histories draw from.

Every API of modelx that accepts a formula accepts a Python object as well as a source string: a function made by
`def`, a lambda object (its source is searched in the file that defines it), another cells, a `Formula`.  What the
object IS decides whether modelx can take it, and the decision is made by code paths the source-string stream
never enters (`inspect.getsource`, the tokenizer search for the lambda, `signature`).  The catalogue below holds
objects modelx accepts and objects it has reasons to refuse, addressed by a short kind name so that a history
(`["set_formula_obj", space, cells, kind, how]`) can be written to a JSON replay and rebuilt verbatim.

The objects are built by this module's own source text - several of the kinds are ABOUT how the source is laid
out (two lambdas on one line, a lambda inside a call, a def behind a decorator), so do not reformat the block
between the two marker comments.
"""
import functools
import types

# ---- layout matters from here ------------------------------------------------------------------------------
_PAIR = (lambda x: x + 101, lambda x: x + 202)                      # two lambda expressions on one line
_TRIPLE = {"a": lambda x: x * 3 + 1, "b": lambda x: x * 5 + 2, "c": lambda x: 7}
_COND = (lambda x: x + 11) if len(_PAIR) == 2 else (lambda x: x + 12)
_NESTED = lambda x: (lambda y: y + 1)(x) + 30                       # a lambda that contains a lambda
_SINGLE = lambda x: x + 303                                         # one lambda on its line
_DEFAULT = lambda x, k=4: x + k                                     # a lambda with a default
_MULTI = (lambda x:
          x + 404)                                                  # one lambda over two lines


def _wrap(f):
    return f


_INCALL = _wrap(lambda x: x + 505)                                  # a lambda that is an argument of a call


def plain(x):
    return x + 606


def with_default(x, k=2):
    return x * k + 1


def no_params():
    return 707


def varargs(*args):
    return len(args) + 808


def kwonly(x, *, k=3):
    return x + k + 909


def varkw(x, **kw):
    return x + len(kw) + 111


@_wrap
def decorated(x):
    return x + 222


def generator(x):
    yield x


async def coroutine(x):
    return x


def with_closure(k):
    def inner(x):
        return x + k
    return inner


class _Callable:
    def __call__(self, x):
        return x + 333

    def method(self, x):
        return x + 444

    @staticmethod
    def static(x):
        return x + 555
# ---- layout matters up to here ------------------------------------------------------------------------------


def _from_exec():
    ns = {}
    exec("def made(x):\n    return x + 666\n", ns)       # a function whose source cannot be found
    return ns["made"]


def _lambda_from_eval():
    return eval("lambda x: x + 777")                     # a lambda whose source cannot be found


def _renamed():
    f = types.FunctionType(plain.__code__, {}, "other_name")
    return f


# kind -> factory of the object handed to modelx
OBJECTS = {
    # accepted by modelx (the stream is not refusals only; an accepted edit must take effect like a source string)
    "def": lambda: plain,
    "def_default": lambda: with_default,
    "def_noparams": lambda: no_params,
    "lambda1": lambda: _SINGLE,
    "lambda_default": lambda: _DEFAULT,
    "lambda_multiline": lambda: _MULTI,
    "lambda_incall": lambda: _INCALL,
    "decorated": lambda: decorated,
    "closure": lambda: with_closure(5),
    "static": lambda: _Callable.static,
    # lambda objects whose source line holds more than one lambda expression
    "lambda2_first": lambda: _PAIR[0],
    "lambda2_second": lambda: _PAIR[1],
    "lambda3_dict": lambda: _TRIPLE["b"],
    "lambda_cond": lambda: _COND,
    "lambda_nested": lambda: _NESTED,
    # functions without retrievable source
    "exec_def": _from_exec,
    "eval_lambda": _lambda_from_eval,
    "renamed_code": _renamed,
    # callables that are not plain functions
    "builtin": lambda: len,
    "builtin_abs": lambda: abs,
    "partial": lambda: functools.partial(with_default, k=3),
    "callable_obj": lambda: _Callable(),
    "bound_method": lambda: _Callable().method,
    "unbound_method": lambda: _Callable.method,
    "class": lambda: _Callable,
    # functions with signatures modelx may not support
    "varargs": lambda: varargs,
    "kwonly": lambda: kwonly,
    "varkw": lambda: varkw,
    "generator": lambda: generator,
    "coroutine": lambda: coroutine,
    # not callable at all
    "int": lambda: 3,
    "none": lambda: None,
    "tuple": lambda: (plain,),
    "bytes": lambda: b"lambda x: x",
}
KINDS = list(OBJECTS)

# the kinds a rejection is most likely for (the malformed stream draws these more often); nothing in the oracles
# depends on this list - an accepted edit is checked as an accepted edit, a raising one as a refused one
SUSPECT = ["lambda2_first", "lambda2_second", "lambda3_dict", "lambda_cond", "lambda_nested", "exec_def", "eval_lambda",
           "builtin", "partial", "callable_obj", "bound_method", "class", "varargs", "kwonly", "varkw", "int", "tuple",
           "renamed_code", "generator", "coroutine", "bytes", "builtin_abs", "unbound_method"]

# how a formula object reaches an EXISTING cells
HOW = ["attr", "method", "defcells", "defcells_flag"]
# how it reaches a space (the formula of a parametrised space)
HOW_SPACE = ["attr", "method"]


def make(kind):
    return OBJECTS[kind]()
