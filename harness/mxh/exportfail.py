"""The FAILURE family for C15: formulas that RAISE, callers that handle the failure, repeated reads.

The exported package keeps values in caches of its own (`_has_<name>` / `_v_<name>` for a cached cells without
parameters, a dict `_v_<name>` keyed by the arguments for a cached cells with parameters, nothing for an uncached
cells).  Whether a cache is right shows only when the SAME element is read again - and whether it is right for an
evaluation that FAILED shows only when the element is read again after the failure: modelx stores nothing for a
failed evaluation (the next read evaluates - and fails - again), so the package must not either.

`family()` -> [(label, desc, queries)], one model per FAILURE KIND (which exception, raised how), the same on every
run; only the order of the last part of the queries depends on the seed.  Every description carries
`"compare_errors": true`: the check compares per query "same value or same exception class" (the class modelx
reports inside its FormulaError against the class the package raises).

One model (all names are plain; `cnt` = 0, `one` = 1, `tot` = 10 are references of the model):

    S              static
    D(S)           derived from S (inherited formulas: the exporter flattens them)
    P[x]           the parameterless elements fail iff x == 0;  static child Ch (reads x of the enclosing item)

every space holds the ELEMENTS (D is the divisor-like int the failure depends on: the element fails iff D == 0)

    f0() n0()          no parameter, cached / uncached     D = cnt  (S, D: always fails)   D = x  (P, Ch)
    g0() h0()          no parameter, cached / uncached     D = one  (S) / x + 1 (P)        never fails (the control)
    f1(t) n1(t)        one parameter                       D = t - 2
    f2(t, u) n2(t, u)  two parameters (one with a default) D = t - u

and for every element e the CALLERS (alternately cached / uncached)

    sa_e(..)   try: return e(..)  except <the class>: return -1
    sb_e(..)   try: return e(..)  except Exception:   return -2
    rep_e(..)  (sa_e(..), sb_e(..), sa_e(..))                      three reads through two handlers in one query
    tw_e(..)   a loop reading e(..) twice, each time in its own try (the second read follows the failure directly)
    mid_e(..)  e(..) + 1, cached: an evaluation that fails because what it reads fails - nothing stored either
    sm_e(..)   try: return mid_e(..)  except Exception: return -3
    all_e()    for elements with parameters: reads e over a range of arguments, failing ones in between, twice

Queries per place (S, D, P[0], P[3], P[0].Ch, P[2].Ch): the controls, then for every element - in an order that
differs from place to place, so that the first read of a failing element is a direct one here and one inside a
handler there - direct reads with failing and non-failing arguments (each twice, then interleaved), the callers,
the direct reads again.
"""

# (id, exception class, expression over D (an int expression) that fails iff D == 0 and is an int otherwise,
#  statement form: lines before `return` (None: the expression alone))
KINDS = [
    ("zerodiv", "ZeroDivisionError", "100 // (D)", None),
    ("index", "IndexError", "(11, 22, 33, 44)[4 if (D) == 0 else (D) % 4]", None),
    ("key", "KeyError", "{1: 10, 2: 20, 0: 30}[((D) % 3) if (D) else -1]", None),
    ("value", "ValueError", "int('x' if (D) == 0 else str((D) * 3))", None),
    ("type", "TypeError", "(None if (D) == 0 else (D)) + 1", None),
    ("raise", "ValueError", "(D) * 7", ["if (D) == 0:", "    raise ValueError('nothing for %d' % (D))"]),
    ("assert", "AssertionError", "(D) + 5", ["assert (D) != 0, 'zero'"]),
    ("lookup", "LookupError", "(D) - 1", ["if (D) == 0:", "    raise KeyError((D))"]),   # handler names a base class
]
KIND_IDS = [k[0] for k in KINDS]


def _cells(name, src, cached=True):
    return {"name": name, "src": src, "cached": cached}


def _ref(name, val):
    return {"name": name, "val": val, "mode": "auto"}


def _def(name, params, lines):
    return "def %s(%s):\n%s\n" % (name, params, "\n".join("    " + ln for ln in lines))


def element_src(kind, name, params, d, as_lambda):
    _id, _exc, expr, pre = kind
    e = expr.replace("(D)", "(" + d + ")")
    if pre is None and as_lambda:
        return "lambda %s: %s" % (params, e) if params else "lambda: " + e
    lines = [ln.replace("(D)", "(" + d + ")") for ln in (pre or [])] + ["return " + e]
    return _def(name, params, lines)


# element name -> (parameter text, argument text used by its callers, D)
def elements(d0, d0_ok):
    return [
        ("f0", "", "", d0, True), ("n0", "", "", d0, False),
        ("g0", "", "", d0_ok, True), ("h0", "", "", d0_ok, False),
        ("f1", "t", "t", "t - 2", True), ("n1", "t", "t", "t - 2", False),
        ("f2", "t, u=1", "t, u", "t - u", True), ("n2", "t, u=1", "t, u", "t - u", False),
    ]


def space_cells(kind, d0, d0_ok, salt):
    exc = kind[1]
    cells = [_cells("ok0", "lambda: tot * 2"), _cells("ok1", "lambda t: tot + t")]
    k = salt
    for name, params, args, d, cached in elements(d0, d0_ok):
        cells.append(_cells(name, element_src(kind, name, params, d, as_lambda=(k % 2 == 0)), cached))
        call = "%s(%s)" % (name, args)
        cp = params            # the callers take the element's parameters

        def cached_next():
            nonlocal k
            k += 1
            return k % 3 != 0
        cells.append(_cells("sa_" + name, _def("sa_" + name, cp, [
            "try:", "    return " + call, "except %s:" % exc, "    return -1"]), cached_next()))
        cells.append(_cells("sb_" + name, _def("sb_" + name, cp, [
            "try:", "    return " + call, "except Exception:", "    return -2"]), cached_next()))
        cargs = args
        cells.append(_cells("rep_" + name, _def("rep_" + name, cp, [
            "return (sa_%s(%s), sb_%s(%s), sa_%s(%s))" % (name, cargs, name, cargs, name, cargs)]), cached_next()))
        cells.append(_cells("tw_" + name, _def("tw_" + name, cp, [
            "out = []",
            "for k in range(2):",
            "    try:",
            "        out.append(" + call + ")",
            "    except %s as e:" % exc,
            "        out.append(-10 - k)",
            "return tuple(out)"]), cached_next()))
        cells.append(_cells("mid_" + name, _def("mid_" + name, cp, ["return " + call + " + 1"]), True))
        cells.append(_cells("sm_" + name, _def("sm_" + name, cp, [
            "try:", "    return mid_%s(%s)" % (name, cargs), "except Exception:", "    return -3"]), cached_next()))
        if params:
            rng_args = "k" if name[1] == "1" else "k, 2"
            cells.append(_cells("all_" + name, _def("all_" + name, "", [
                "out = []",
                "for k in (0, 1, 2, 3, 2, 1, 2):",
                "    try:",
                "        out.append(%s(%s))" % (name, rng_args),
                "    except %s:" % exc,
                "        out.append(None)",
                "return out"]), cached_next()))
    return cells


def model(kind):
    def sp(name, formula, cells, spaces=(), bases=()):
        return {"name": name, "bases": list(bases), "formula": formula, "refs": [], "cells": cells,
                "spaces": list(spaces)}
    s = sp("S", None, space_cells(kind, "cnt", "one", 0))
    d = sp("D", None, [], bases=["S"])
    ch = sp("Ch", None, space_cells(kind, "x", "x + 1", 2))
    p = sp("P", [["x", None]], space_cells(kind, "x", "x + 1", 1), [ch])
    return {"name": "Fail", "profile": "failures", "compare_errors": True,
            "grefs": [_ref("cnt", {"lit": 0}), _ref("one", {"lit": 1}), _ref("tot", {"lit": 10})],
            "spaces": [s, d, p]}


A = lambda n: {"attr": n}                                  # noqa: E731
I = lambda *a: {"item": list(a), "via": "call"}            # noqa: E731

PLACES = [
    ("S", [A("S")]), ("D", [A("D")]), ("P0", [A("P"), I(0)]), ("P3", [A("P"), I(3)]),
    ("P0Ch", [A("P"), I(0), A("Ch")]), ("P2Ch", [A("P"), I(2), A("Ch")]),
]

# argument tuples per arity: failing, fine, failing through the default, ...
ARGS = {"": [[]], "t": [[2], [1], [5]], "t, u=1": [[3, 3], [1], [4, 2], [0, 0], [2]]}
FAIL_FIRST = {"": [], "t": [2], "t, u=1": [1]}


def queries(rng=None):
    qs = []

    def q(steps, c, args=(), repeat=False):
        d = {"sp": steps, "cells": c, "args": list(args), "kw": {}}
        if repeat:
            d["_repeat"] = True
        qs.append(d)
    for pi, (_label, steps) in enumerate(PLACES):
        q(steps, "ok0")
        q(steps, "ok1", [1])
        for ei, (name, params, _a, _d, _c) in enumerate(elements("", "")):
            argl = ARGS[params]
            direct = []
            for a in argl:
                direct += [(name, a), (name, a)]
            direct += [(name, a) for a in argl] + [(name, a) for a in reversed(argl)]
            callers = []
            for a in [FAIL_FIRST[params]] + argl:
                for pre in ("rep_", "sa_", "sb_", "tw_", "sm_", "mid_", "sm_", "rep_"):
                    callers.append((pre + name, a))
            if params:
                callers += [("all_" + name, []), ("all_" + name, [])]
            first, second = (direct, callers) if (pi + ei) % 2 == 0 else (callers, direct)
            for c, a in first + second:
                q(steps, c, a)
            for c, a in first[:4]:
                q(steps, c, a, repeat=True)
        q(steps, "ok0", repeat=True)
    if rng is not None:
        # a seed-dependent tail: the same reads in another order
        tail = [dict(x, _repeat=True) for x in rng.sample(qs, min(len(qs), 150))]
        qs += tail
    return qs


def family(rng=None, kinds=None):
    res = []
    for kind in KINDS:
        if kinds and kind[0] not in kinds:
            continue
        res.append(("fail/" + kind[0], model(kind), queries(rng)))
    return res
