"""Formula SHAPES at Python level (scenario family of C01, implementation only).

The exec family renders interaction-tree formulas to one fixed shape of Python text (`def cN(p0, ...):` + straight-line
statements, handed over as source text).  Which pure function a cells memoises is decided before anything is cached: by
the code that turns what the user hands over - a function object, a lambda object, source text, a formula re-created
from its source by a copy - into the function the cells evaluates.  That code looks at the SYNTAX of the definition
(is it a `def`, does it contain a lambda, where does a decorator end, ...), so the family varies the syntax:

  def formulas whose body contains lambdas (key functions, map / filter functions, local and immediately applied lambdas,
  lambdas inside lambdas, lambda defaults of nested defs), nested defs (closures, decorated, with docstrings), nested
  classes, comprehensions of the four kinds, conditional expressions, walrus, try / finally, loops, f-strings, string
  literals / docstrings / comments that contain the words `lambda`, `def` and `@`, one-line defs, decorated defs,
  parameters with defaults; lambda formulas with and without inner lambdas, alone on their line or in a tuple.

Every program is a handful of such cells calling lower cells (by name, positionally, by keyword, with star arguments)
and reading two references; it is handed to modelx in several WAYS (source text; function objects of a real module
file; `defcells`; `set_formula` on an existing cells; `UserSpace.copy` / `Cells.copy`, which re-create the formula from
its source), asked in several request orders and spellings, and compared with the SAME text compiled by Python alone
and run over a plain dict (no modelx): every returned value, every held value, and "the formula of an element that
holds a value ran exactly once, with the arguments of that element" (a counting reference called first by every formula).
"""
import importlib.util
import os
import sys
import tempfile

from .impl import mx, close_all, quiet

XS = [0, 1, 2, 3]


# --------------------------------------------------------------------------------------- generator

class _Gen:
    def __init__(self, rng, i, cells):
        self.rng, self.i, self.cells = rng, i, cells      # cells: the lower cells [(name, nparams)]

    def C(self, e):
        """text of a call to a lower cells with argument expression `e` (or a reference expression when none exists)"""
        rng = self.rng
        if not self.cells:
            return "(%s + r0)" % e
        name, n = rng.choice(self.cells)
        k = rng.randrange(6)
        if n == 1:
            return ["%s(%s)", "%s(%s)", "%s(x=%s)", "%s(*[%s])", "%s(**{'x': %s})", "%s(%s)"][k] % (name, e)
        return ["%s(%s)", "%s(%s, 3)", "%s(%s, k=1)", "%s(k=4, x=%s)", "%s(%s, *[2]),"[:-1], "%s(*[%s], **{'k': 5})"][k] % (name, e)


def _exprs(g):
    C = g.C
    return {
        "plain": lambda: "%s + r0 * 2" % C("x"),
        "cond": lambda: "%s if x %% 2 else %s" % (C("x"), C("x + 1")),
        "lambda_key": lambda: "max(range(1, x + 3), key=lambda q: %s)" % C("q"),
        "lambda_sorted": lambda: "sorted(range(x + 2), key=lambda q: -%s)[0]" % C("q"),
        "lambda_map": lambda: "sum(map(lambda q: %s, range(x + 1)))" % C("q"),
        "lambda_filter": lambda: "len(list(filter(lambda q: %s %% 2, range(x + 2))))" % C("q"),
        "lambda_applied": lambda: "(lambda a, b=2: a * b + %s)(x)" % C("a"),
        "lambda_nested": lambda: "(lambda a: (lambda b: b + %s)(a + 1))(x)" % C("a"),
        "lambda_noargs": lambda: "(lambda: %s)() + r1" % C("x"),
        "listcomp": lambda: "sum([%s for i in range(x + 1) if i != 1])" % C("i"),
        "genexp": lambda: "sum(%s * 2 for i in (0, x))" % C("i"),
        "dictcomp": lambda: "sum({i: %s for i in range(x + 1)}.values())" % C("i"),
        "setcomp": lambda: "len({%s %% 3 for i in range(x + 2)}) + r1" % C("i"),
        "walrus": lambda: "(w := %s) + w" % C("x"),
        "fstring": lambda: "len(f\"{%s}:{x!r}\") + x" % C("x"),
        "keywords_in_string": lambda: "len(\"lambda x: x; def f(): pass; @deco\") + %s" % C("x"),
    }


def _stmts(g, name, U):
    C = g.C
    return {
        "nested_def": lambda: ["def inner(a):", U + "return %s + 1" % C("a"), "r = inner(x)"],
        "nested_def_closure": lambda: ["def inner():", U + "'''inner doc'''", U + "return %s + r1" % C("x"), "r = inner()"],
        "nested_def_lambda_default": lambda: ["def inner(a, f=lambda q: q + 1):", U + "return f(%s)" % C("a"),
                                              "r = inner(x)"],
        "nested_decorated": lambda: ["def twice(f):", U + "return lambda v: 2 * f(v)", "", "@twice", "def g(v):",
                                     U + "return %s" % C("v"), "r = g(x)"],
        "nested_class": lambda: ["class K:", U + "def __init__(self, w):", U + U + "self.w = w", "",
                                 U + "def val(self):", U + U + "return %s" % C("self.w"), "r = K(x).val()"],
        "control": lambda: ["if x > 1:", U + "r = %s" % C("x"), "elif x == 1:", U + "r = 7", "else:", U + "r = -x",
                            "for i in range(2):", U + "r += %s" % C("i")],
        "try": lambda: ["try:", U + "r = 10 // x + %s" % C("x"), "except ZeroDivisionError:", U + "r = %s" % C("x + 1"),
                        "finally:", U + "pass"],
        "while": lambda: ["r, i = 0, x", "while i > 0:", U + "i -= 1", U + "r += %s" % C("i")],
        "local_lambda": lambda: ["h = lambda a: %s + 1" % C("a"), "r = h(x) + h(x + 1)"],
        "local_lambda_pair": lambda: ["h, j = (lambda a: a + 1), (lambda a: %s)" % C("a"), "r = h(x) * 100 + j(x)"],
        "docstring_with_keywords": lambda: ['"""uses lambda q: q, def f(): pass and @deco"""', "r = %s" % C("x")],
        "comment_with_keywords": lambda: ["# lambda q: q + 1", "r = %s  # def f(): lambda: 0" % C("x")],
        "recursion": lambda: ["r = r0 if x <= 0 else %s(x - 1) + %s" % (name, C("x"))],
    }


SIGS = [("x", 1), ("x", 1), ("x", 1), ("x, k=2", 2)]


def gen_program(rng, force=None):
    """-> {"cells": [{"name", "text", "nparams", "kind", "shapes"}], "refs": {...}}; cell texts are complete definitions
    (`def cN(...)` possibly behind a decorator, or `cN = lambda ...`)"""
    n = rng.randrange(3, 6)
    cells, lower = [], []
    for i in range(n):
        name = "c%d" % i
        g = _Gen(rng, i, list(lower))
        lam = rng.random() < 0.22
        sig, npar = rng.choice(SIGS)
        tickargs = "x, k" if npar == 2 else "x"
        E = _exprs(g)
        shapes = []
        if lam:
            en = (force if force in E and i == n - 1 else None) or rng.choice(sorted(E))
            shapes.append("lambda:" + en)
            expr = E[en]()
            if npar == 2:
                expr = "(%s) + k" % expr
            layout = rng.randrange(3)
            lam_src = "lambda %s: tick(%r, %s) or (%s)" % (sig, name, tickargs, expr)
            text = ["%s = %s\n", "%s = (%s)\n", "%s = (%s, 0)[0]\n"][layout] % (name, lam_src)
            cells.append({"name": name, "text": text, "lambda": lam_src, "nparams": npar, "kind": "lambda",
                          "shapes": shapes})
        else:
            U = rng.choice(["    ", "  ", "\t"])
            S = _stmts(g, name, U)
            pool = sorted(E) + sorted(S)
            names = [rng.choice(pool) for _ in range(rng.randrange(1, 3))]
            if force and i == n - 1:
                names[0] = force
            body, first = [], True
            for nm in names:
                lines = S[nm]() if nm in S else ["r = " + E[nm]()]
                if not first:
                    # a second template adds to the first: keep its result
                    lines = ["r0_ = r"] + lines + ["r = r + r0_"]
                    lines = [ln for ln in lines if not ln.startswith('"""')]
                body += lines
                first = False
                shapes.append("def:" + nm)
            if npar == 2:
                body.append("r = r * 10 + k")
            deco = rng.random() < 0.2
            oneline = len(body) == 1 and rng.random() < 0.5
            head = ("@deco\n" if deco else "") + "def %s(%s):" % (name, sig)
            if deco:
                shapes.append("def:decorated")
            if oneline:
                shapes.append("def:oneline")
                text = head + " tick(%r, %s); return %s\n" % (name, tickargs, body[0][4:])
            else:
                doc = [body.pop(0)] if body[0].startswith('"""') else []
                text = head + "\n" + "".join(U + ln + "\n" if ln else "\n" for ln in
                                             doc + ["tick(%r, %s)" % (name, tickargs)] + body + ["return r"])
            cells.append({"name": name, "text": text, "nparams": npar, "kind": "def", "shapes": shapes})
        lower.append((name, npar))
    return {"cells": cells, "refs": {"r0": rng.randrange(1, 9), "r1": rng.randrange(10, 99)}}


def gen_requests(rng, prog):
    reqs = []
    for _ in range(rng.randrange(4, 9)):
        c = rng.choice(prog["cells"])
        x = rng.choice(XS)
        if c["nparams"] == 1:
            reqs.append([c["name"], rng.choice(["pos", "kw", "sub"]), [x]])
        else:
            how = rng.choice(["pos", "kw", "sub", "default", "mixed"])
            reqs.append([c["name"], how, [x] if how == "default" else [x, rng.choice([2, 6])]])
    return reqs


WAYS = ["source", "function", "defcells", "set_formula", "space_copy", "cells_copy"]


# --------------------------------------------------------------------------------------- the two evaluations

MODULE_HEAD = "def deco(f):\n    return f\n\n\n"


def module_text(prog):
    return MODULE_HEAD + "\n\n".join(c["text"] for c in prog["cells"])


def plain_namespace(prog):
    """the program text compiled by Python alone over a plain dict: references, a no-op counter, the functions"""
    ns = dict(prog["refs"])
    ns["tick"] = lambda *a: None
    exec(compile(module_text(prog), "<formula-shapes-reference>", "exec"), ns)
    for c in prog["cells"]:
        ns[c["name"]] = _Plain(ns[c["name"]])
    return ns


class _Plain:
    """a plain function that can also be subscripted (formulas spell calls of cells both ways)"""
    def __init__(self, f):
        self.f = f

    def __call__(self, *a, **k):
        return self.f(*a, **k)

    def __getitem__(self, key):
        return self.f(*key) if isinstance(key, tuple) else self.f(key)


def _ask(obj, how, args):
    if how == "pos" or how == "default":
        return obj(*args)
    if how == "kw":
        return obj(**dict(zip(("x", "k"), args)))
    if how == "mixed":
        return obj(args[0], k=args[1])
    # subscription (plain functions have none: called positionally)
    if hasattr(obj, "_impl"):
        return obj[args[0]] if len(args) == 1 else obj[tuple(args)]
    return obj(*args)


class _Module:
    """the program as a real module file (function objects whose source `inspect` finds)"""
    n = 0

    def __init__(self, prog, tmp):
        _Module.n += 1
        self.name = "mxh_shapes_%d_%d" % (os.getpid(), _Module.n)
        self.path = os.path.join(tmp, self.name + ".py")
        with open(self.path, "w") as f:
            f.write("r0 = r1 = 0\n\n\ndef tick(*a):\n    pass\n\n\n" + module_text(prog))
        spec = importlib.util.spec_from_file_location(self.name, self.path)
        self.mod = importlib.util.module_from_spec(spec)
        sys.modules[self.name] = self.mod
        spec.loader.exec_module(self.mod)

    def close(self):
        sys.modules.pop(self.name, None)


def build(prog, way, tmp):
    """-> (model, space, counts, module or None)"""
    counts = {}

    def tick(name, *args):
        counts[(name, args)] = counts.get((name, args), 0) + 1

    m = mx.new_model("Shapes")
    mod = None
    first = m.new_space("S0" if way in ("space_copy", "cells_copy") else "S")
    for k, v in prog["refs"].items():
        setattr(first, k, v)
    first.tick = tick
    first.deco = lambda f: f
    if way == "source":
        for c in prog["cells"]:
            first.new_cells(c["name"], formula=c["text"] if c["kind"] == "def" else c["lambda"])
        return m, first, counts, None
    mod = _Module(prog, tmp)
    for c in prog["cells"]:
        f = getattr(mod.mod, c["name"])
        if c["kind"] == "lambda" and c["text"].count("lambda") > 1:
            # a lambda OBJECT whose line holds several lambda expressions is refused by modelx: this one as text
            first.new_cells(c["name"], formula=c["lambda"])
        elif way == "defcells" and c["kind"] == "def":
            mx.defcells(space=first, name=c["name"])(f)
        elif way == "set_formula":
            first.new_cells(c["name"], formula="lambda x: -1")
            first.cells[c["name"]].set_formula(f)
        else:
            first.new_cells(c["name"], formula=f)
    s = first
    if way == "space_copy":
        s = first.copy(m, "S")
    elif way == "cells_copy":
        s = m.new_space("S")
        for k, v in prog["refs"].items():
            setattr(s, k, v)
        s.tick = tick
        s.deco = first.deco
        for c in prog["cells"]:
            first.cells[c["name"]].copy(s)
    return m, s, counts, mod


REFUSED = []      # the (empty) result of a history whose definitions modelx refused; compared by identity


def check(prog, way, requests, tmp):
    """-> list of violation texts (empty when the property holds on this history)"""
    ns = plain_namespace(prog)
    bad = []
    close_all()
    mod = None
    try:
        with quiet():
            try:
                m, s, counts, mod = build(prog, way, tmp)
            except BaseException as e:      # noqa: BLE001
                if way != "source" and isinstance(e, ValueError) and any(
                        c["kind"] == "lambda" and c["text"].count("lambda") > 1 for c in prog["cells"]):
                    # a lambda OBJECT whose source line holds several lambda expressions is refused when it is handed
                    # over (loudly, nothing is memoised): not a statement of this property
                    return REFUSED
                return ["building the model raised %s: %s (Python compiles and runs the same definitions)" % (
                    type(e).__name__, str(e).splitlines()[0] if str(e) else "")]
            for name, how, args in requests:
                want = _ask(ns[name], how, args)
                try:
                    got = _ask(s.cells[name], how, args)
                except BaseException as e:      # noqa: BLE001
                    bad.append("%s%r (%s) raised %s: %s; plain Python evaluation of the same definitions gives %r" % (
                        name, tuple(args), how, type(e).__name__, (str(e).splitlines() or [""])[0], want))
                    continue
                if got != want or type(got) is not type(want):
                    bad.append("%s%r (%s) returned %r, plain Python evaluation of the same definitions gives %r" % (
                        name, tuple(args), how, got, want))
            held = set()
            for c in prog["cells"]:
                cells = s.cells[c["name"]]
                for key, v in sorted(cells._impl.data.items()):
                    held.add((c["name"], key))
                    try:
                        want = ns[c["name"]](*key)
                    except BaseException as e:      # noqa: BLE001
                        bad.append("%s%r holds %r but is not an element of the formula given (%s)" % (
                            c["name"], key, v, type(e).__name__))
                        continue
                    if v != want:
                        bad.append("%s%r holds %r, plain Python evaluation gives %r" % (c["name"], key, v, want))
                    if counts.get((c["name"], key), 0) != 1:
                        bad.append("%s%r holds a value but its formula ran %d time(s) with these arguments" % (
                            c["name"], key, counts.get((c["name"], key), 0)))
            for (name, key), k in sorted(counts.items(), key=repr):
                if (name, key) not in held and not bad:
                    bad.append("the formula of %s ran with %r (%d time(s)) but the element holds no value" % (name, key, k))
    finally:
        if mod is not None:
            mod.close()
        close_all()
    return bad


def history(prog, way, requests):
    return {"scenario": "formula_shapes", "way": way, "requests": [list(r) for r in requests],
            "refs": prog["refs"], "cells": [dict(c) for c in prog["cells"]]}


def check_history(h, tmp):
    prog = {"cells": h["cells"], "refs": h["refs"]}
    return check(prog, h["way"], h["requests"], tmp)


def shrink(h, tmp):
    """fewer requests, then fewer cells (from the top: nothing calls upwards)"""
    def fails(x):
        try:
            return bool(check_history(x, tmp))
        except Exception:      # noqa: BLE001
            return False
    for r in h["requests"]:
        cand = dict(h, requests=[r])
        if fails(cand):
            h = cand
            break
    while len(h["cells"]) > 1:
        top = h["cells"][-1]["name"]
        cand = dict(h, cells=h["cells"][:-1], requests=[r for r in h["requests"] if r[0] != top])
        if cand["requests"] and fails(cand):
            h = cand
        else:
            break
    return h


def run(ctx, out, stats, n_quick, n_thorough):
    """every shape at least once (forced into the top cells of a program), then random programs; each program in every
    way of handing it over, two request orders"""
    tmp = tempfile.mkdtemp(prefix="mxh_shapes_")
    rng0 = ctx.rng("shapes", "names")
    g = _Gen(rng0, 0, [])
    forced = sorted(_exprs(g)) + sorted(_stmts(g, "c", "    "))
    n = ctx.n(n_quick, n_thorough)
    shapes_seen = set()
    try:
        for i in range(len(forced) + n):
            rng = ctx.rng("shapes", i)
            prog = gen_program(rng, force=forced[i] if i < len(forced) else None)
            reqs = gen_requests(rng, prog)
            if i < len(forced):
                top = prog["cells"][-1]
                reqs.append([top["name"], "pos", [2] if top["nparams"] == 1 else [2, 6]])
            for c in prog["cells"]:
                shapes_seen.update(c["shapes"])
            ways = list(WAYS) if i < len(forced) or ctx.tier != "quick" else ["source", "function"] + [
                rng.choice(WAYS[2:])]
            for way in ways:
                for order in (0, 1):
                    rq = list(reqs) if order == 0 else list(reversed(reqs))
                    stats["shape_histories"] += 1
                    stats["shape_way_" + way] += 1
                    bad = check(prog, way, rq, tmp)
                    if bad is REFUSED:
                        stats["shape_refused_lambda_objects"] += 1
                    if bad:
                        h = shrink(history(prog, way, rq), tmp)
                        bad = check_history(h, tmp) or bad
                        out.fail("formula shapes (handed over as %s): %s" % (way, "; ".join(bad[:3])), h)
                        stats["shape_failures"] += 1
                        break
                if stats["shape_failures"] >= 3:
                    break
            if stats["shape_failures"] >= 3:
                break
        stats["shape_kinds_covered"] = len(shapes_seen)
        stats.pop("shape_failures", None)
    finally:
        import shutil
        shutil.rmtree(tmp, ignore_errors=True)
    return sorted(shapes_seen)


def replay(h, out):
    tmp = tempfile.mkdtemp(prefix="mxh_shapes_")
    try:
        bad = check_history(h, tmp)
        if bad:
            out.fail("formula shapes (handed over as %s): %s" % (h["way"], "; ".join(bad[:3])), h)
    finally:
        import shutil
        shutil.rmtree(tmp, ignore_errors=True)
