"""Object-valued REFERENCES for C15: references (model level: no mode; space level: auto / absolute / relative;
own and inherited) whose values are spaces or cells at every position relative to the item in which the reading
formula runs - inside the same item tree, the parametrised space itself, an enclosing item level, a nested item level,
ANOTHER parametrised tree, a static space outside every tree.

In modelx a reference inside an ItemSpace `P[a]` is the base space's reference, re-bound to the item's counterpart
(`P[a].Ch` for `P.Ch`) when its mode is relative - or auto and the target lies inside the tree that was copied; a
MODEL-level reference has no mode and always denotes the static object.  The exporter reproduces this in the generated
`_mx_copy_refs` (ParentTranslator.ref_copies).  Whether a name denotes the static `P.Ch` or the item's `P[a].Ch` is
visible exactly when the target's value DEPENDS ON THE ARGUMENTS and the static object has a value too: every parameter
name is therefore also a model-level reference (the value the static spaces see), so `P.Ch.cv()` is 5 + 1 while
`P[2].Ch.cv()` is 2 + 1.

`family()` -> [(label, desc, queries)]: reader cells in every space of

    model level   x = 5, y = 7, t = 9;  g_* -> every space and cells below (no mode)
    O             static, outside every tree
    P[x]          val();  child Ch (cv()),  nested Q[y] (qv(), static child In (iv()))
    T[t]          another parametrised tree
    D(P)[x]       derived from P: inherited references

each reading every model-level reference and the space-level references `r<mode>_<target>` defined in its own space
(one per mode and target position), evaluated on the static space and inside items (`P[1]`, `P[2].Ch`, `P[1].Q[2]`,
`P[1].Q[2].In`, `T[3]`, `D[4]`, `D[4].Q[1]`).  The value of a reader is what identifies the object denoted: for a
space the tuple of its cells' values, for a cells its value - all of which depend on x / y / t.
"""

MODES = ("auto", "absolute", "relative")

# target id -> (dotted path of the object, how a formula gets a value out of a reference `R` to it)
TARGETS = {
    "O": ("O", "R.c()"),
    "Oc": ("O.c", "R()"),
    "P": ("P", "R.val()"),
    "Pval": ("P.val", "R()"),
    "Ch": ("P.Ch", "R.cv()"),
    "Chcv": ("P.Ch.cv", "R()"),
    "Q": ("P.Q", "R.qv()"),
    "Qqv": ("P.Q.qv", "R()"),
    "In": ("P.Q.In", "R.iv()"),
    "Iniv": ("P.Q.In.iv", "R()"),
    "T": ("T", "R.tv()"),
    "Ttv": ("T.tv", "R()"),
}
# the parametrised spaces: a reference to one of them can also be called with arguments
ITEMS = {"P": "R[3].val()", "Q": "R[4].qv()", "T": "R[6].tv()"}


def _cells(name, src, cached=True):
    return {"name": name, "src": src, "cached": cached}


def _ref(name, val, mode="auto"):
    return {"name": name, "val": val, "mode": mode}


def _use(tid, rname):
    return TARGETS[tid][1].replace("R", rname)


def readers_for(space_label, own_refs, salt=0):
    """reader cells of one space: every model-level reference, every own reference"""
    cells = []
    names = ["g_" + t for t in TARGETS] + [r["name"] for r in own_refs]
    k = 0
    for nm in names:
        tid = nm.split("_", 1)[1]
        cells.append(_cells("rd_" + nm, "lambda: " + _use(tid, nm), cached=(k + salt) % 3 != 2))
        k += 1
        if tid in ITEMS:
            cells.append(_cells("it_" + nm, "lambda: " + ITEMS[tid].replace("R", nm), cached=(k + salt) % 3 != 2))
            k += 1
    return cells


def own_refs(targets, modes=MODES):
    return [_ref("r%s_%s" % (m[:3], t), {"obj": TARGETS[t][0]}, m) for t in targets for m in modes]


INSIDE = {"P": ("P", "Pval", "Ch", "Chcv", "Q", "Qqv", "In", "Iniv"), "Q": ("Q", "Qqv", "In", "Iniv"),
          "T": ("T", "Ttv")}


def refs_in(root, modes, targets=None):
    """the references defined in a space whose innermost parametrised root is `root` (None: outside every tree).
    modelx refuses to create an item when a RELATIVE reference of the tree points out of it, so relative references
    only point inside the innermost root."""
    res = []
    for r in own_refs(targets or list(TARGETS), modes):
        tid = r["name"].split("_", 1)[1]
        if r["mode"] == "relative" and root is not None and tid not in INSIDE[root]:
            continue
        if r["mode"] == "auto" and root == "Q" and tid in INSIDE["P"] and tid not in INSIDE["Q"]:
            continue        # known finding C15-nested-item-auto-ref (witness in the corpus)
        res.append(r)
    return res


def family(modes=MODES, derived=True):
    """`modes`: the modes of the space-level references (quick tier: one per run, rotating; the model-level references
    are read on every run)"""
    r_o = refs_in(None, modes)
    r_p = refs_in("P", modes)
    r_ch = refs_in("P", modes)
    r_q = refs_in("Q", modes)
    r_in = refs_in("Q", modes)
    r_t = refs_in("T", modes)
    # a static base whose references (to objects outside it) are INHERITED by the parametrised space D
    base_t = ["O", "Oc", "P", "Pval", "Ch", "Chcv", "T", "Ttv"]
    r_b = refs_in(None, [m for m in modes if m != "relative"], base_t)

    def sp(name, formula, refs, cells, spaces=(), bases=()):
        return {"name": name, "bases": list(bases), "formula": formula, "refs": refs, "cells": cells,
                "spaces": list(spaces)}
    s_in = sp("In", None, r_in, [_cells("iv", "lambda: x * 1000 + y * 10 + 3")] + readers_for("In", r_in, 1))
    s_q = sp("Q", [["y", None]], r_q, [_cells("qv", "lambda: x * 100 + y")] + readers_for("Q", r_q, 2), [s_in])
    s_ch = sp("Ch", None, r_ch, [_cells("cv", "lambda: x + 1")] + readers_for("Ch", r_ch, 0))
    s_p = sp("P", [["x", None]], r_p, [_cells("val", "lambda: x * 10")] + readers_for("P", r_p, 1), [s_ch, s_q])
    s_o = sp("O", None, r_o, [_cells("c", "lambda: 100 + x")] + readers_for("O", r_o, 2))
    s_t = sp("T", [["t", None]], r_t, [_cells("tv", "lambda: t * 7 + x")] + readers_for("T", r_t, 0))
    spaces = [s_o, s_p, s_t]
    s_d = None
    if derived:
        spaces.append(sp("Base", None, r_b, [_cells("bv", "lambda: x * 3")] + readers_for("Base", r_b, 1)))
        s_d = sp("D", [["x", None]], [], [_cells("dv", "lambda: x * 2")], bases=["Base"])
        spaces.append(s_d)
    desc = {"name": "Refs", "profile": "objrefs",
            "grefs": [_ref("x", {"lit": 5}), _ref("y", {"lit": 7}), _ref("t", {"lit": 9})] +
                     [_ref("g_" + t_, {"obj": TARGETS[t_][0]}) for t_ in TARGETS],
            "spaces": spaces}

    def q(steps, c):
        return {"sp": steps, "cells": c, "args": [], "kw": {}}
    A = lambda n: {"attr": n}                  # noqa: E731
    I = lambda *a: {"item": list(a), "via": "call"}      # noqa: E731
    places = [
        ("O", [A("O")], s_o), ("P", [A("P")], s_p), ("P1", [A("P"), I(1)], s_p),
        ("PCh", [A("P"), A("Ch")], s_ch), ("P2Ch", [A("P"), I(2), A("Ch")], s_ch),
        ("PQ", [A("P"), A("Q")], s_q), ("P1Q", [A("P"), I(1), A("Q")], s_q),
        ("P1Q2", [A("P"), I(1), A("Q"), I(2)], s_q), ("PQ2", [A("P"), A("Q"), I(2)], s_q),
        ("P1Q2In", [A("P"), I(1), A("Q"), I(2), A("In")], s_in), ("PQIn", [A("P"), A("Q"), A("In")], s_in),
        ("T", [A("T")], s_t), ("T3", [A("T"), I(3)], s_t),
    ]
    qs = []
    for label, steps, sdesc in places:
        for c in sdesc["cells"]:
            qs.append(q(steps, c["name"]))
    if derived:
        for steps in ([A("Base")], [A("D")], [A("D"), I(4)]):
            for c in spaces[-2]["cells"] + (s_d["cells"] if steps[0]["attr"] == "D" else []):
                qs.append(q(steps, c["name"]))
    return [("objrefs", desc, qs)]
