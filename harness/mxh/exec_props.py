"""Shared driver for the Exec-family properties (C01, C05, C06, C08, C17): generate programs
and histories, run them on modelx and on the Lean mechanism model, compare the observables
the property speaks about, and evaluate the property's own oracle on the implementation.
"""
import collections
import json
import os

from . import core, execworld
from .expr import Gen, sexp, subexprs
from .execworld import ExecImpl, run_both, val_s, node_s, parse_val


def gen_case(rng, cfg):
    g = Gen(rng, catch_all_p=cfg.get("catch_all_p", 0.12), raise_p=cfg.get("raise_p", 0.06),
            none_p=cfg.get("none_p", 0.04), fail_cell_p=cfg.get("fail_cell_p", 0.0),
            handled_seq_p=cfg.get("handled_seq_p", 0.0), lam_p=cfg.get("lam_p", 0.0),
            space_p=cfg.get("space_p", 0.0), block_p=cfg.get("block_p", 0.0), via_p=cfg.get("via_p", 0.0),
            default_p=cfg.get("default_p", 0.0), glob_p=cfg.get("glob_p", 0.0), trx_p=cfg.get("trx_p", 0.0))
    if cfg.get("no_try_p") and rng.random() < cfg["no_try_p"]:
        g.no_try = True
    g.after_call_p = cfg.get("after_call_p", 0.0)
    ncells = rng.randint(cfg.get("min_cells", 2), cfg.get("max_cells", 6))
    cells, refs = g.program(ncells)
    if cfg.get("all_cached"):
        for c in cells:
            c["cached"] = True
    maxdepth = rng.choice(cfg.get("maxdepths", [None, None, None, 6, 12]))
    if cfg.get("absent_p"):
        # cells that are declared (they have a space, formulas call them) but created only later, by `newcell`
        for c in cells:
            if rng.random() < cfg["absent_p"]:
                c["absent"] = True
    exists = {c["id"]: not c.get("absent") for c in cells}
    if g.glob_p:
        cells[0]["glob"] = list(range(g.n_rn + g.n_ra, g.n_rn + g.n_ra + g.n_glob))
    ops = []
    w = cfg["weights"]
    kinds = list(w)
    aims = cells            # the cells operations aim at: the program's, and (histories with copies) the copies made
    n_refs = g.n_rn + g.n_ra + (g.n_glob if g.glob_p else 0)
    for _ in range(rng.randint(cfg.get("min_ops", 8), cfg.get("max_ops", 16))):
        k = rng.choices(kinds, [w[x] for x in kinds])[0]
        c = rng.choice(aims)
        if k == "copycell":
            # Cells.copy into either space under a new name; the copy is then a cells like any other
            src = rng.choice([x for x in aims if exists.get(x["id"], True)] or aims)
            dst = 50 + sum(1 for o in ops if o[0] == "copycell")
            sp = rng.randrange(2)
            ops.append(["copycell", str(src["id"]), str(sp), str(dst)])
            aims = aims + [dict(src, id=dst, space=sp, orig=src.get("orig", src["id"]))]
            exists[dst] = True
            continue
        if k == "copyspace":
            if any(o[0] == "copyspace" for o in ops):
                k = "eval"
            else:
                ops.append(["copyspace"])
                new = [dict(x, id=execworld.COPY_BASE + x["id"], space=3, orig=x.get("orig", x["id"])) for x in aims
                       if int(x.get("space", 0)) == 1 and exists.get(x["id"], True)]
                aims = aims + new
                for x in new:
                    exists[x["id"]] = True
                continue
        if k in ("shadow", "unshadow"):
            # a reference of the name of a model-level one (or, in the copied space, of any of its own) defined in /
            # deleted from a space
            spaces = [0, 1] + ([3] if any(o[0] == "copyspace" for o in ops) else [])
            sp = rng.choice(spaces)
            ids = list(range(g.n_rn + g.n_ra, n_refs)) + (list(range(g.n_rn, g.n_rn + g.n_ra)) if sp == 3 else [])
            if not ids:
                k = "eval"
            else:
                r = rng.choice(ids)
                ops.append(["shadow", str(r), str(sp), str(rng.randint(-1, 6))] if k == "shadow" else
                           ["unshadow", str(r), str(sp)])
                continue
        if k in ("delcell", "newcell"):
            # mostly a request that applies (an existing cells is deleted, a missing one created); sometimes not
            want = k == "delcell"
            pool = [x for x in cells if exists[x["id"]] == want]
            if pool and rng.random() < 0.9:
                c = rng.choice(pool)
            if k == "delcell":
                ops.append(["delcell", str(c["id"])])
                exists[c["id"]] = False
            else:
                g.cur_space = int(c.get("space", 0))
                body = g.body(c["id"], c["nparams"], [x["nparams"] for x in cells])
                cached = rng.random() < 0.75
                ops.append(["newcell", str(c["id"]), str(int(cached)), execworld.tri(c["allow_none"]),
                            str(c["nparams"]), sexp(body)])
                exists[c["id"]] = True
            continue
        if not exists[c["id"]] and rng.random() < 0.8:
            # (only histories that delete / create cells get here) mostly operate on cells that exist
            pool = [x for x in cells if exists[x["id"]]]
            if pool:
                c = rng.choice(pool)
        dfl = c.get("defaults") or []
        if k == "eval":
            ops.append(["eval", str(c["id"])] + g.spelled_args(c["nparams"], dfl))
        elif k == "reeval" and ops:
            prev = [o for o in ops if o[0] == "eval"]
            ops.append(list(rng.choice(prev)) if prev else ["eval", str(c["id"])] + g.spelled_args(c["nparams"], dfl))
            if g.default_p and prev and rng.random() < 0.6:
                ops[-1] = respell(rng, cells, ops[-1])
        elif k == "set":
            cc = [x for x in cells if x["cached"]] or cells
            c = rng.choice(cc)
            v = "N" if rng.random() < 0.08 else str(rng.randint(0, 9))
            ops.append(["set", str(c["id"])] + g.spelled_args(c["nparams"], c.get("defaults") or [], positional=True)
                       + ["=", v])
            if cfg.get("same_p") and rng.random() < cfg["same_p"]:
                # the element is assigned the very value it holds (`cells[k] = cells[k]`, pasting a value over the
                # calculation that produced it): aimed at an element that was evaluated before
                ids = {x["id"] for x in cells if x["cached"]}
                prev = [o for o in ops[:-1] if o[0] == "eval" and int(o[1]) in ids]
                if prev:
                    ops[-1] = ["set"] + respell(rng, cells, rng.choice(prev), positional=True)[1:] + ["=", "same"]
            elif g.default_p and rng.random() < 0.4:
                # the value edit aims at an element that was requested before, under another spelling
                prev = [o for o in ops[:-1] if o[0] in ("eval", "set", "clearat") and o[1] == str(c["id"])]
                if prev:
                    ops[-1] = ["set"] + respell(rng, cells, rng.choice(prev), positional=True)[1:] + ["=", v]
        elif k == "clearat":
            ops.append(["clearat", str(c["id"])] + g.spelled_args(c["nparams"], dfl))
            if g.default_p and rng.random() < 0.5:
                prev = [o for o in ops[:-1] if o[0] in ("eval", "set") and o[1] == str(c["id"])]
                if prev:
                    ops[-1] = ["clearat"] + respell(rng, cells, rng.choice(prev))[1:]
        elif k == "clear":
            ops.append(["clear", str(c["id"])])
        elif k == "clearall":
            ops.append(["clearall", str(c["id"])])
        elif k == "setref":
            ops.append(["setref", str(rng.randrange(n_refs)), str(rng.randint(-1, 6))])
        elif k == "delref":
            ops.append(["delref", str(rng.randrange(n_refs))])
        elif k == "setformula":
            # a new body of the same arity; it calls lower cells (or itself, guarded) only, like the old one
            g.cur_space = int(c.get("space", 0))
            # (a copy gets a body written for the cells it was copied from: it calls the program's lower cells)
            ops.append(["setformula", str(c["id"]),
                        sexp(g.body(c.get("orig", c["id"]), c["nparams"], [x["nparams"] for x in cells]))])
        elif k == "setcached":
            ops.append(["setcached", str(c["id"]), str(rng.randrange(2))])
        elif k == "admin":
            # administrative calls, in bursts (a stack-trace session is two of them)
            for _ in range(rng.choice([1, 1, 2, 3])):
                ops.append(["admin", rng.choice(execworld.ADMIN + ["start", "stop", "tracestack"])])
        elif k == "maxdepth":
            ops.append(["maxdepth", str(rng.choice(cfg.get("limits", [3, 4, 5, 6, 8, 10, 14, 100000])))])
    return {"cells": cells, "refs": refs, "n_rn": g.n_rn, "maxdepth": maxdepth, "ops": ops}


def op_args(op):
    """the argument tokens of an eval / set / clearat operation"""
    return op[2:op.index("=")] if "=" in op else op[2:]


def canon_key(case_or_cells, cid, toks):
    """the element the argument tokens denote: full key as a tuple of values, by Python's own binder on a signature
    built from the program description (independent of modelx); None when the spelling does not bind"""
    from .expr import py_bind
    cells = case_or_cells["cells"] if isinstance(case_or_cells, dict) else case_or_cells
    ops = case_or_cells.get("ops", []) if isinstance(case_or_cells, dict) else []
    c = next(x for x in cells if x["id"] == origin_of(ops, int(cid)))
    pos, kw = execworld.split_args(toks)
    return py_bind(c["nparams"], c.get("defaults") or [], pos, kw)


def origin_of(ops, cid):
    """the cells of the program a copy (of a copy ...) was made from: it has the same signature"""
    for _ in range(20):
        if cid >= execworld.COPY_BASE:
            cid -= execworld.COPY_BASE
            continue
        src = next((int(o[1]) for o in ops if o[0] == "copycell" and int(o[3]) == cid), None)
        if src is None:
            return cid
        cid = src
    return cid


def canon_node(case_or_cells, cid, toks):
    key = canon_key(case_or_cells, cid, toks)
    return None if key is None else node_s(int(cid), key)


def respell(rng, cells, op, positional=False):
    """the same request (same cells, same element) spelled another way: defaults left out or written out, positional
    or keyword arguments in any order; positional=True: as a subscript (trailing defaults may be left out).
    -> [op kind, cid, tokens...] (an `eval`, unless the caller renames it)"""
    c = next(x for x in cells if x["id"] == int(op[1]))
    key = canon_key(cells, op[1], op_args(op))
    if key is None:
        return ["eval", op[1]] + [t for t in op_args(op) if not (positional and "=" in t)]
    n, d = c["nparams"], c.get("defaults") or []
    req = n - len(d)
    # a parameter may be left out when its value is its default
    can_drop = [i >= req and key[i] == d[i - req] for i in range(n)]
    if positional:
        m = n
        while m > 0 and can_drop[m - 1] and rng.random() < 0.7:
            m -= 1
        return ["eval", op[1]] + [val_s(v) for v in key[:m]]
    supplied = [i for i in range(n) if not (can_drop[i] and rng.random() < 0.6)]
    maxpos = 0
    while maxpos in supplied:
        maxpos += 1
    npos = rng.randint(0, maxpos)
    kws = [i for i in supplied if i >= npos]
    if rng.random() < 0.4:
        rng.shuffle(kws)
    return ["eval", op[1]] + [val_s(key[i]) for i in range(npos)] + ["k%d=%s" % (i, val_s(key[i])) for i in kws]


def all_spellings(nparams, defaults, key, limit=14):
    """Every way Python lets one write the arguments `key` (a full tuple) for a signature of `nparams` parameters whose
    last ones have `defaults`: any subset of the parameters whose value equals their default left out, a positional
    prefix of any length, the rest by keyword in parameter order and in reverse.  -> [(label, pos list, {index: value})],
    the fully positional spelling first; at most `limit`, spread over the whole list."""
    import itertools
    n = nparams
    req = n - len(defaults)
    droppable = [i for i in range(req, n) if key[i] == defaults[i - req] and type(key[i]) is type(defaults[i - req])]
    out, seen = [], set()
    for k in range(len(droppable) + 1):
        for drop in itertools.combinations(droppable, k):
            supplied = [i for i in range(n) if i not in drop]
            maxpos = 0
            while maxpos in supplied:
                maxpos += 1
            for npos in range(maxpos, -1, -1):
                kws = [i for i in supplied if i >= npos]
                for order in (kws, kws[::-1]):
                    sig = (npos, tuple(order))
                    if sig in seen:
                        continue
                    seen.add(sig)
                    label = "(%s)" % ", ".join([val_s(key[i]) for i in range(npos)] +
                                               ["a%d=%s" % (i, val_s(key[i])) for i in order])
                    out.append((label, [key[i] for i in range(npos)], {i: key[i] for i in order}))
    if len(out) > limit:
        step = (len(out) - 1) / float(limit - 1)
        out = [out[int(round(j * step))] for j in range(limit)]
    return out


def spelled_call(cells, pos, kw, subscript=False):
    """request an element of the interface `cells` the way it is spelled"""
    if subscript:
        return cells[tuple(pos) if len(pos) != 1 else pos[0]]
    return cells(*pos, **{"a%d" % i: v for i, v in kw.items()})


def plain_world(case):
    """the program as plain Python functions (plainworld.PlainWorld); a formula must not return None where modelx would
    refuse to store it (cached cells that do not allow None, by the documented rule)"""
    from .plainworld import PlainWorld
    enforce = {c["id"]: bool(c["cached"]) and not documented_allow_none(case, c["id"]) for c in case["cells"]}
    return PlainWorld(case["cells"], case["refs"], case["n_rn"], enforce)


def case_json(case):
    j = {"cells": [dict(c, body=sexp(c["body"])) for c in case["cells"]],
         "cells_raw": case["cells"],
         "refs": {str(k): v for k, v in case["refs"].items()},
         "n_rn": case["n_rn"], "maxdepth": case["maxdepth"], "ops": case["ops"]}
    if "label" in case:
        j["label"] = case["label"]       # which scenario family a structured case belongs to
    return j


def case_from_json(j):
    case = {"cells": [dict(c, body=_untuple(c["body"])) for c in j["cells_raw"]],
            "refs": {int(k): v for k, v in j["refs"].items()},
            "n_rn": j["n_rn"], "maxdepth": j["maxdepth"], "ops": j["ops"]}
    if "label" in j:
        case["label"] = j["label"]
    return case


def _untuple(x):
    if isinstance(x, list):
        if x and isinstance(x[0], str) and x[0] == "call":
            return ("call", x[1], [_untuple(a) for a in x[2]])
        if x and isinstance(x[0], str) and x[0] == "callk":
            return ("callk", x[1], [_untuple(a) for a in x[2]], [(i, _untuple(a)) for i, a in x[3]])
        return tuple(_untuple(a) for a in x)
    return x


def has_catch_all(case):
    for c in case["cells"]:
        for e in subexprs(c["body"]):
            if e[0] in ("try", "trx") and e[2] in ("all", "deep"):
                return True
    return False


def features(case, recs, stats):
    """measured input distribution"""
    for rec in recs:
        stats["ops:" + rec["op"][0]] += 1
        r = rec["impl"].split()
        if r[0] == "err":
            stats["result:" + " ".join(r[1:3])] += 1
        else:
            stats["result:" + r[0]] += 1
    gs = [rec["obs"]["graph"][0] for rec in recs if "graph" in rec["obs"]]
    if any("*" in g for g in gs):
        stats["hist_with_uncached_object_node"] += 1
    if any(">" in g for g in gs):
        stats["hist_with_edges"] += 1
    if any(len(rec["obs"].get("refgraph", ["refgraph "])[0]) > 9 for rec in recs):
        stats["hist_with_attr_reads"] += 1
    if any("tb=" in rec["impl"] and "," in rec["impl"].split("tb=")[1] for rec in recs):
        stats["hist_with_chain_failure"] += 1
    if any(rec["impl"].startswith("err Formula Deep") for rec in recs):
        stats["hist_with_deep_error"] += 1
    if has_catch_all(case):
        stats["hist_with_catch_all"] += 1
    if any(c.get("lam") for c in case["cells"]):
        stats["hist_with_lambda_cells"] += 1
    if "label" in case:
        stats["scenario:" + case["label"].split("/")[0]] += 1
    # measured by the model driver (`obs handled`, only when the property asks for it): top-level evaluations in
    # which formulas handled failures of their callees themselves, and how they ended
    for rec in recs:
        h = rec["obs"].get("handled")
        if h and h[1] and rec["op"][0] == "eval":
            t = h[1].split()
            if len(t) == 4 and int(t[2]) > 0 and rec["impl"].startswith("err Formula"):
                stats["evals_escaping_failure_after_handled_failures"] += 1
                stats["evals_escaping_after_handled:%s_exceptions" % min(int(t[3]), 3)] += 1
            elif len(t) == 4 and int(t[1]) > 0 and rec["impl"].startswith("ok"):
                stats["evals_ok_after_handled_failures"] += 1


def compare(case, recs, compare_obs, out):
    for k, rec in enumerate(recs):
        if rec["model"] is None:
            return True         # implementation-only vocabulary (execworld.impl_only): nothing to compare with
        if rec["impl"] != rec["model"]:
            out.disagree(case_json(case), k, rec["impl"], rec["model"], layer="exec:result")
            return False
        for w in compare_obs:
            a, b = rec["obs"][w]
            if a != b:
                out.disagree(case_json(case), k, a, b, layer="exec:" + w)
                return False
    return True


def documented_allow_none(case, cid):
    """`allow_none` as documented (base.py): the cells' own setting; if that is None the space's; if that is None the
    model's (False unless set) - computed from the program description, not read from modelx"""
    cell = next(c for c in case["cells"] if c["id"] == cid)
    for v in (cell.get("allow_none"), case["cells"][0].get("an_space"), case["cells"][0].get("an_model", False)):
        if v is not None:
            return bool(v)
    return False


def replica_values(case, queries):
    """Pure recomputation by modelx itself: a fresh model with every cells uncached, nothing
    evaluated before, the default (very large) recursion limit, inputs re-applied."""
    # modelx applies the None rule ("returning None where it is not allowed is an error") only when it stores a value,
    # i.e. to cached cells; the replica's formulas of cells that are cached in the program enforce it themselves
    cells = [dict(c, cached=False, enforce_none=bool(c["cached"]) and not documented_allow_none(case, c["id"]))
             for c in case["cells"]]
    impl = ExecImpl(cells, case["refs"], case["n_rn"], None, log=False)
    try:
        res = []
        for q in queries:
            res.append(impl.apply(q))
        return res
    finally:
        impl.close()


def shrink_ops(case, still_fails):
    """delta debugging on the op list (the program is kept)"""
    ops = list(case["ops"])
    n = 2
    while len(ops) >= 2:
        chunk = max(1, len(ops) // n)
        reduced = False
        for i in range(0, len(ops), chunk):
            cand = ops[:i] + ops[i + chunk:]
            if cand and still_fails(dict(case, ops=cand)):
                ops = cand
                n = max(n - 1, 2)
                reduced = True
                break
        if not reduced:
            if chunk == 1:
                break
            n = min(len(ops), n * 2)
    return dict(case, ops=ops)


def input_then_redefined_cases(finals):
    """Scenario family "an input does not outlive the redefinition of its cells" (shared by C02, C06, C08; each gives
    the last step it speaks about): element 0[] holds an INPUT and has a dependent 1[]; cells 0 is redefined - a new
    formula (reading a reference BY NAME and calling cells 2), or the cache flag switched off and on again -, which
    discards the input with everything else of the cells; 0[] and 1[] are evaluated again: 0[] now holds a computed
    value; then `finals[label]` (a list of operations: a reference edit, a value edit, ...) and both are evaluated
    again.  The reference lives in space 0 or in space 1 (cells 0 lives where the reference lives, 1 and 2 in the other:
    a change of the namespace of cells 0 reaches 0[] through nothing but the cells itself)."""
    cases = []
    for R in (0, 2):
        rsp = 0 if R < 2 else 1
        for hit in ("setformula", "flag-off-on"):
            for label, last in finals.items():
                cells = [
                    {"id": 0, "nparams": 0, "cached": True, "allow_none": False, "space": rsp,
                     "body": ("add", ("add", ("rn", R), ("call", 2, [])), ("lit", 10))},
                    {"id": 1, "nparams": 0, "cached": True, "allow_none": False, "space": 1 - rsp,
                     "body": ("add", ("call", 0, []), ("lit", 1))},
                    {"id": 2, "nparams": 0, "cached": True, "allow_none": False, "space": 1 - rsp, "body": ("lit", 5)},
                ]
                ev = [["eval", "0"], ["eval", "1"]]
                h = {"setformula": [["setformula", "0", "(add (add (rn %d) (call 2)) (lit 30))" % R]],
                     "flag-off-on": [["setcached", "0", "0"], ["setcached", "0", "1"]]}[hit]
                cases.append({"cells": cells, "refs": {0: 1, 1: 2, 2: 3, 3: 4}, "n_rn": 2, "maxdepth": None,
                              "ops": [["set", "0", "=", "7"], ["eval", "1"]] + h + ev + [list(o) for o in last(R)] + ev,
                              "label": "input-then-redefined/%s/%s/ref%d" % (hit, label, R)})
    return cases


def copy_cases():
    """Scenario family "a copy is a cells of its new space" (shared by C01, C06, C08; implementation-only: the Lean
    model has no copy): `Cells.copy` into the same space under another name / into the other space, `UserSpace.copy` of
    the child space - taken before anything was evaluated, or after the source was evaluated and holds calculated
    values next to ASSIGNED ones (only the latter go with the copy) - then what makes the copy resolve a name
    differently from its source: a reference of the source's space changed (copy in the same space), the copy living
    where the name means something else or nothing, a reference of the COPIED space changed.  Copies and sources are
    asked for assigned and for calculated elements, before and after the edit; value edits on the copy.
    c0(x) = x * 10 + r0 (S);  c1(x) = x + r2 (Ch);  c2(x) = c1(x) + _space.parent.c0(x) + _space.r3 (Ch);
    c3(x) = c0(x) + Ch.c2(x) (S)."""
    P0, L = ("p", 0), (lambda i: ("lit", i))
    cells = [
        {"id": 0, "nparams": 1, "space": 0, "body": ("add", ("mul", P0, L(10)), ("rn", 0))},
        {"id": 1, "nparams": 1, "space": 1, "body": ("add", P0, ("rn", 2))},
        {"id": 2, "nparams": 1, "space": 1, "body": ("add", ("add", ("call", 1, [P0]), ("call", 0, [P0])), ("ra", 3))},
        {"id": 3, "nparams": 1, "space": 0, "body": ("add", ("call", 0, [P0]), ("call", 2, [P0]))},
    ]
    for c in cells:
        c.update(cached=True, allow_none=False)
    inputs = [["set", "0", "1", "=", "500"], ["set", "1", "1", "=", "600"]]
    evs = [["eval", "3", "1"], ["eval", "3", "2"], ["eval", "2", "3"]]
    B = COPY = execworld.COPY_BASE
    variants = {
        # name: (copy ops, queries of the copies, an edit that separates copy and source, value edits on the copy)
        "cell-same-space": ([["copycell", "0", "0", "50"]], [["eval", "50", "1"], ["eval", "50", "2"], ["eval", "50", "4"]],
                            [["setref", "0", "5"]], [["set", "50", "2", "=", "7"], ["clear", "50"], ["clearat", "50", "1"]]),
        "cell-other-space": ([["copycell", "0", "1", "50"]], [["eval", "50", "1"], ["eval", "50", "2"]],
                             [["shadow", "0", "1", "6"]], [["clearall", "50"]]),
        "cell-from-child": ([["copycell", "1", "0", "50"], ["copycell", "2", "0", "51"]],
                            [["eval", "50", "1"], ["eval", "50", "2"], ["eval", "51", "2"]],
                            [["shadow", "2", "0", "4"]], [["set", "50", "2", "=", "8"], ["eval", "50", "2"]]),
        "space": ([["copyspace"]], [["eval", str(B + 1), "1"], ["eval", str(B + 1), "2"], ["eval", str(B + 2), "2"],
                                    ["eval", str(B + 2), "3"]],
                  [["shadow", "2", "3", "9"]], [["set", str(B + 1), "2", "=", "70"], ["eval", str(B + 2), "2"],
                                                 ["clear", str(B + 1)], ["clearall", str(B + 2)]]),
        "space-then-cell": ([["copyspace"], ["copycell", str(B + 1), "3", "50"]],
                            [["eval", "50", "1"], ["eval", "50", "3"], ["eval", str(B + 2), "3"]],
                            [["shadow", "2", "3", "9"], ["shadow", "3", "3", "1"]], [["clearat", "50", "1"]]),
    }
    cases = []
    for name, (copy, asks, edit, vedits) in variants.items():
        for when in ("after-evaluation", "before-evaluation", "inputs-only"):
            pre = {"after-evaluation": inputs + evs, "before-evaluation": [], "inputs-only": inputs}[when]
            ops = pre + copy + asks + evs + edit + asks + evs + vedits + asks + evs
            cases.append({"cells": [dict(c) for c in cells], "refs": {0: 1, 1: 2, 2: 3, 3: 4}, "n_rn": 2,
                          "maxdepth": None, "ops": [list(o) for o in ops], "label": "copies/%s/%s" % (name, when)})
    return cases


def run_family(ctx, out, cfg, oracle, n_quick, n_thorough, corpus_name=None, structured=None):
    """oracle(case, recs, out, stats) evaluates the property on the implementation alone.
    `structured`: cases (scenario families of the property) run on every run after the corpus and before the
    random programs.  cfg["model_obs"]: extra `obs` requests answered by the model driver only (measurements)."""
    stats = collections.Counter()
    n = ctx.n(n_quick, n_thorough)
    seen, samples, nontrivial = set(), [], 0
    cases = []
    cdir = os.path.join(core.CORPUS_DIR, corpus_name or ctx.prop)
    if os.path.isdir(cdir):
        for f in sorted(os.listdir(cdir)):
            if f.endswith(".json"):
                cases.append(case_from_json(json.load(open(os.path.join(cdir, f)))))
    nfile = len(cases)
    cases.extend(structured or [])
    ncorpus = len(cases)
    for i in range(n):
        cases.append(gen_case(ctx.rng("case", i), cfg))
    observe = execworld.OBS + list(cfg.get("model_obs", []))
    for i, case in enumerate(cases):
        recs = run_both(case["cells"], case["refs"], case["n_rn"], case["maxdepth"], case["ops"], observe=observe)
        features(case, recs, stats)
        ok = compare(case, recs, cfg["compare"], out)
        nt = oracle(case, recs, out, stats)
        key = json.dumps(case_json(case), sort_keys=True, default=str)
        if key not in seen:
            seen.add(key)
            if nt:
                nontrivial += 1
        if i in (ncorpus, ncorpus + 1):
            samples.append({"program": [execworld.cell_line(c) for c in case["cells"]],
                            "maxdepth": case["maxdepth"],
                            "ops": [" ".join(o) for o in case["ops"]],
                            "impl_results": [r["impl"] for r in recs]})
    out.coverage.update({
        "evaluations": len(cases),
        "programs": len(seen),
        "distinct_nontrivial": nontrivial,
        "rule": cfg["rule"],
        "samples": samples,
        "input_distribution": dict(stats),
        "corpus_cases": nfile,
        "structured_scenarios": ncorpus - nfile,
        "traces_validated_against_impl": len(cases),
        "compared_observables": ["eval result"] + cfg["compare"],
    })
    return stats


def replay_family(ctx, payload, out, cfg, oracle):
    j = payload.get("history")
    if j is None:
        for u in payload.get("unexplained", []):
            d = u.get("detail")
            if isinstance(d, dict) and "history" in d:
                j = d["history"]
    if not j:
        return
    case = case_from_json(j)
    recs = run_both(case["cells"], case["refs"], case["n_rn"], case["maxdepth"], case["ops"],
                    observe=execworld.OBS + list(cfg.get("model_obs", [])))
    compare(case, recs, cfg["compare"], out)
    oracle(case, recs, out, collections.Counter())
