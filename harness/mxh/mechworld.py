"""Correspondence between the *incremental mechanism* model of SpaceManager / SpaceUpdater
(lean/MxModel/Struct/Mech.lean, driver layer `smech`) and the real modelx.

Every structural edit of a struct-family history is sent to the model in the model's own vocabulary (spaces, ordered
direct bases, cells and references as members with a `derived` flag and an opaque payload standing for "formula +
cache flag" / "value + mode"); after every edit the two sides must agree on
  * whether the edit was accepted or refused, and
  * the whole structural state: per space its direct bases in order, its linearisation, and every cells / reference
    with its derived flag and payload.
The model is the mechanism (which sub spaces each operation walks and what it does to each), not the specification;
`Props/C03.lean` proves that the mechanism keeps the state equal to derivation from scratch.

Vocabulary not in the model (object-valued references and their relative rebinding, renaming of spaces): the
correspondence of a history ends at the first such edit that the implementation accepts.
"""
import re

from . import core
from . import structworld as W

NONSTRUCT = ("eval", "evalall", "set_value", "clear", "clear_all", "clear_at", "allow_none", "set_param", "eval_item")


def norm_src(src):
    """the text of a formula without the name of the def (renaming a cells rewrites it)"""
    if src is None:
        return None
    return re.sub(r"^def\s+[A-Za-z_][A-Za-z_0-9]*\s*\(", "def _(", src)


class Interner:
    def __init__(self):
        self.ids = {}

    def __call__(self, key):
        if key not in self.ids:
            self.ids[key] = len(self.ids) + 1
        return self.ids[key]


def cells_key(c):
    return ("c", norm_src(c.formula.source if c.formula is not None else None), bool(c.is_cached))


def ref_key(r):
    return ("r", W.val_repr(r.interface), r.refmode)


def impl_state(model, intern):
    rows = []
    for path, s in W.all_spaces(model):
        bases = ",".join(W.rel(model, b) for b in s._direct_bases)
        try:
            mro = " ".join(W.rel(model, b) for b in s.bases)
        except Exception:   # noqa
            mro = "NONE"
        cells = sorted("%s:%s:%d" % (n, "d" if c._is_derived() else "o", intern(cells_key(c))) for n, c in s.cells.items())
        refs = []
        for rn in s._own_refs:
            r = s._impl.own_refs[rn]
            refs.append("%s:%s:%d" % (rn, "d" if r.is_derived() else "o", intern(ref_key(r))))
        rows.append("%s bases=%s mro=%s cells=%s refs=%s" % (path, bases, mro, ",".join(cells), ",".join(sorted(refs))))
    return " | ".join(sorted(rows))


def is_obj(v):
    return isinstance(v, (tuple, list)) and bool(v) and v[0] == "obj"


class MechCorr:
    """collects, per history, the model lines and the implementation's observations; `finish` runs the driver"""

    def __init__(self):
        self.intern = Interner()
        self.lines = ["reset"]
        self.expect = [None]        # per line: expected output or None (not compared)
        self.where = [None]         # per line: index of the op in the history
        self.alive = True
        self.noop = False
        self.compared = 0

    def _emit(self, line, expect, k):
        self.lines.append(line)
        self.expect.append(expect)
        self.where.append(k)

    def csv(self, xs):
        return ",".join(xs) if xs else "-"

    def before(self, live, k, op):
        """what has to be read before the edit: `Cells.is_cached = v` returns at once when the flag already is `v`
        (the interface's setter, not the SpaceManager)"""
        self.noop = False
        if self.alive and op[0] == "set_cached":
            try:
                self.noop = bool(live.space(op[1]).cells[op[2]].is_cached) == bool(op[3])
            except Exception:   # noqa
                self.noop = False

    def after(self, live, k, op, result):
        if not self.alive:
            return
        kind = op[0]
        if kind in NONSTRUCT or (kind == "set_cached" and self.noop):
            return
        acc = not result.startswith("err")
        line = None
        m = live.m

        def cpay(path, name):
            try:
                return self.intern(cells_key(live.space(path).cells[name]))
            except Exception:   # noqa
                return 0

        def rpay(path, name):
            try:
                return self.intern(ref_key(live.space(path)._impl.own_refs[name]))
            except Exception:   # noqa
                return 0
        UNM = "UNMODELLED"
        f = None        # the fields of the model line
        try:
            if kind == "new_space":
                f = ["newspace", op[1], op[2], self.csv(op[3])]
            elif kind == "del_space":
                f = ["delspace", op[1]]
            elif kind in ("new_cells", "new_cells_src"):
                if op[3] == "BAD":
                    f = UNM if acc else None
                elif acc and (not isinstance(op[2], str) or op[2] not in live.space(op[1]).cells):
                    f = UNM         # the cells was given another name (AutoNamer: outside the model)
                else:
                    f = ["newcells", op[1], op[2], str(cpay(op[1], op[2]) if acc else 0)]
            elif kind in ("set_formula", "set_cached"):
                if kind == "set_formula" and op[3] == "BAD":
                    f = UNM if acc else None
                else:
                    f = ["setformula", op[1], op[2], str(cpay(op[1], op[2]) if acc else 0)]
            elif kind == "del_cells":
                f = ["delcells", op[1], op[2]]
            elif kind == "rename_cells":
                f = ["rename", op[1], op[2], op[3]]
            elif kind == "add_bases":
                f = ["addbases", op[1], self.csv(op[2])]
            elif kind == "remove_bases":
                f = ["rmbases", op[1], self.csv(op[2])]
            elif kind == "set_ref":
                if is_obj(op[3]):
                    f = UNM if acc else None
                else:
                    f = ["setref", op[1], op[2], str(rpay(op[1], op[2]) if acc else 0)]
            elif kind == "del_ref":
                f = ["delref", op[1], op[2]]
            elif kind == "set_mref":
                if is_obj(op[2]):
                    f = UNM if acc else None
                else:
                    f = ["setglobal", op[1]]
            elif kind == "del_mref":
                f = ["delglobal", op[1]]
            else:
                f = UNM if acc else None
        except Exception:   # noqa  (malformed op of the bad stream)
            f = UNM if acc else None
        if f == UNM:
            self.alive = False
            return
        if f is None:
            return
        if not all(isinstance(x, str) and x and not re.search(r"\s", x) for x in f):
            # names with blanks, None, ... of the malformed stream cannot travel through the line protocol
            if acc:
                self.alive = False
            return
        self._emit(" ".join(f), "acc" if acc else "rej", k)
        self._emit("obs", impl_state(m, self.intern), k)

    def finish(self, out, hist_of, stats=None):
        if len(self.lines) <= 1:
            return
        got = core.run_driver("smech", self.lines)
        for i, (line, exp, g) in enumerate(zip(self.lines, self.expect, got)):
            if exp is None:
                continue
            self.compared += 1
            if exp != g:
                k = self.where[i]
                what = line if line != "obs" else "state after " + self.lines[i - 1]
                out.disagree(hist_of(k), k, exp, g, layer="smech:" + what.split(" ")[0])
                return
        if stats is not None:
            stats["mech_lines_compared"] += self.compared
