"""Correspondence between the *incremental mechanism* model of SpaceManager / SpaceUpdater
(lean/MxModel/Struct/Mech.lean, driver layer `smech`) and the real modelx.

Every structural edit of a struct-family history is sent to the model in the model's own vocabulary (spaces, ordered
direct bases, cells and references as members with a `derived` flag and an opaque payload standing for "formula +
cache flag" / "value + mode"); after every edit the two sides must agree on
  * whether the edit was accepted or refused, and
  * the whole structural state: per space its direct bases in order, its linearisation, and every cells / reference
    with its derived flag and payload.
The model is the mechanism (which sub spaces each operation walks and what it does to each), not the specification;
`Props/C03.lean` proves that the mechanism keeps the state equal to derivation from scratch.

The state also lists the model-level references.  `obj.name = v` and `del obj.name` are dispatched on what the name is
in the live model BEFORE the edit (`struct_api_gen.name_kind`): an attribute of the interface class never reaches
modelx' own set_attr / del_attr, assigning to a cells without parameters is a value assignment, `del space.name` deletes
a cells, a child space or a reference - in these cases the model is asked the operation that it is, or only that the
state is unchanged.  `new_cells` sends the name given AND the name of the formula; the model applies the naming rule
(`St.newCellsNamed`); references handed to `new_space(refs=...)` travel with the operation.

`space.rename(name)` is the model's `renamespace` (Struct/MechRename.lean).
The calls that create several members (`batch_api`): new_cells_from_pandas / _csv are `cellsbatch` (`St.newCellsBatch`:
every name checked in the state the call was given, then created), new_cells_from_module / import_funcs `modulebatch`,
new_space_from_pandas / _csv `spacebatch` (names, then the space, then the cells), import_module / new_space_from_module
`spacemodule` - the space first, then the functions: a refused module leaves the space, in the model as in the code
(Struct/MechBatch.lean).  `Space.copy` is not in the model.
Vocabulary not in the model (object-valued references and their relative rebinding): the
correspondence of a history ends at the first such edit that the implementation accepts.  It also ends, without a
report of its own, at an edit that is an instance of a known finding on which the model (which describes the repaired
code) and the unchanged code differ - recognised on the implementation's state alone (`struct_api_gen`), and reported
by the property's own oracle.
"""
import re

from . import core
from . import structworld as W
from . import struct_api_gen as api
from . import batch_api

NONSTRUCT = ("eval", "evalall", "set_value", "clear", "clear_all", "clear_at", "allow_none", "set_param", "eval_item")


def norm_src(src):
    """the text of a formula without the name of the def (renaming a cells rewrites it)"""
    if src is None:
        return None
    return re.sub(r"^def\s+[A-Za-z_][A-Za-z_0-9]*\s*\(", "def _(", src)


class Interner:
    def __init__(self):
        self.ids = {}

    def __call__(self, key):
        if key not in self.ids:
            self.ids[key] = len(self.ids) + 1
        return self.ids[key]


def cells_key(c):
    return ("c", norm_src(c.formula.source if c.formula is not None else None), bool(c.is_cached))


def ref_key(r):
    return ("r", W.val_repr(r.interface), r.refmode)


def impl_state(model, intern):
    rows = []
    for path, s in W.all_spaces(model):
        bases = ",".join(W.rel(model, b) for b in s._direct_bases)
        try:
            mro = " ".join(W.rel(model, b) for b in s.bases)
        except Exception:   # noqa
            mro = "NONE"
        cells = sorted("%s:%s:%d" % (n, "d" if c._is_derived() else "o", intern(cells_key(c))) for n, c in s.cells.items())
        refs = []
        for rn in s._own_refs:
            r = s._impl.own_refs[rn]
            refs.append("%s:%s:%d" % (rn, "d" if r.is_derived() else "o", intern(ref_key(r))))
        rows.append("%s bases=%s mro=%s cells=%s refs=%s" % (path, bases, mro, ",".join(cells), ",".join(sorted(refs))))
    # `__builtins__` is the one model-level reference modelx creates itself; every other name - `__d__` too - is the
    # user's (`model.name = value` tests no name)
    return " | ".join(sorted(rows)) + " || globals=" + ",".join(sorted(k for k in model.refs if k != "__builtins__"))


def is_obj(v):
    return isinstance(v, (tuple, list)) and bool(v) and v[0] == "obj"


class MechCorr:
    """collects, per history, the model lines and the implementation's observations; `finish` runs the driver"""

    def __init__(self):
        self.intern = Interner()
        self.lines = ["reset"]
        self.expect = [None]        # per line: expected output or None (not compared)
        self.where = [None]         # per line: index of the op in the history
        self.alive = True
        self.ended = None           # (index, kind) of the edit at which the correspondence of the history ended early
        self.noop = False
        self.compared = 0

    def _emit(self, line, expect, k):
        self.lines.append(line)
        self.expect.append(expect)
        self.where.append(k)

    def csv(self, xs):
        return ",".join(xs) if xs else "-"

    def before(self, live, k, op):
        """what has to be read before the edit: `Cells.is_cached = v` returns at once when the flag already is `v`
        (the interface's setter, not the SpaceManager)"""
        self.noop = False
        self.pre_kind = None
        self.pre_cells = None
        self.pre_canadd = True
        self.pre_defined_ref = False
        self.pre_state = None
        if not self.alive:
            return
        if op[0] == "copy_space":
            try:
                self.pre_state = impl_state(live.m, Interner())
            except Exception:   # noqa
                self.pre_state = None
        if op[0] == "set_cached":
            try:
                self.noop = bool(live.space(op[1]).cells[op[2]].is_cached) == bool(op[3])
            except Exception:   # noqa
                self.noop = False
        elif op[0] in ("set_ref", "del_ref"):
            self.pre_kind = api.name_kind(live, op[1], op[2])
            try:
                refs = live.space(op[1])._impl.own_refs
                self.pre_defined_ref = op[2] in refs and refs[op[2]].is_defined()
            except Exception:   # noqa
                self.pre_defined_ref = False
        elif op[0] in ("set_mref", "del_mref"):
            self.pre_kind = api.name_kind(live, None, op[1], model_level=True)
        elif op[0] == "del_space" and isinstance(op[1], str):
            # `del parent.name`
            par, _, nm = op[1].rpartition(".")
            self.pre_kind = api.name_kind(live, par, nm, model_level=not par)
        elif op[0] in ("new_cells", "new_cells_src"):
            try:
                sp = live.space(op[1])
                self.pre_cells = set(sp.cells)
                # the check `new_cells` would make if the name of the formula had been given explicitly
                self.pre_canadd = (api.resolved_kind(op) != "formula"
                                   or bool(sp._impl.spmgr._can_add(sp._impl, api.formula_name(op), W.mx.core.cells.CellsImpl)))
            except Exception:   # noqa
                self.pre_cells = None
                self.pre_canadd = True

    def after(self, live, k, op, result):
        if not self.alive:
            return
        kind = op[0]
        if kind in NONSTRUCT or (kind == "set_cached" and self.noop):
            return
        acc = not result.startswith("err")
        line = None
        m = live.m

        def cpay(path, name):
            try:
                return self.intern(cells_key(live.space(path).cells[name]))
            except Exception:   # noqa
                return 0

        def rpay(path, name):
            try:
                return self.intern(ref_key(live.space(path)._impl.own_refs[name]))
            except Exception:   # noqa
                return 0
        UNM = "UNMODELLED"
        f = None        # the fields of the model line
        try:
            if kind == "new_space":
                f = ["newspace", op[1], op[2], self.csv(op[3])]
                if len(op) > 4 and op[4]:
                    refs = dict(op[4])
                    if any(is_obj(v) for v in refs.values()):
                        f = UNM if acc else None
                    elif acc and api.trigger(live, op, result) == api.KEY_CTORREFS:
                        f = UNM         # known finding: the unchanged code accepts what the repaired code (the model) refuses
                    else:
                        path = op[2] if op[1] == "-" else op[1] + "." + op[2]
                        f.append(",".join("%s=%d" % (n, rpay(path, n) if acc else 0) for n in refs))
            elif kind == "del_space":
                f = ["delspace", op[1]] if self.pre_kind != "iface" else ["obs"]
            elif kind in ("new_cells", "new_cells_src"):
                given = op[2] if isinstance(op[2], str) and op[2] else "-"
                fname = api.formula_name(op)
                if op[3] == "BAD" or (kind == "new_cells_src" and op[3] is not None and not isinstance(op[3], str)):
                    f = UNM if acc else None
                elif not acc:
                    # a refusal for a reason the model does not know (malformed formula) is not compared
                    f = ["newcells", op[1], given, fname, "0"] if result != "err Syntax" else None
                else:
                    now = set(live.space(op[1]).cells)
                    how = api.resolved_kind(op)
                    actual = op[2] if how == "given" else fname if how == "formula" else None
                    if actual is None:
                        new = sorted(now - (self.pre_cells or set()))
                        actual = new[0] if len(new) == 1 else None
                    if actual is None or actual not in now:
                        f = UNM
                    elif how != "given" and (api.trigger(live, op, result) == api.KEY_CELLSNAME
                                             or actual in (self.pre_cells or ()) or not self.pre_canadd):
                        f = UNM         # known finding: the name the cells got was never checked (clash / silent replacement)
                    else:
                        f = ["newcells", op[1], given, fname, str(cpay(op[1], actual))]
            elif kind in ("set_formula", "set_cached"):
                if kind == "set_formula" and op[3] == "BAD":
                    f = UNM if acc else None
                else:
                    f = ["setformula", op[1], op[2], str(cpay(op[1], op[2]) if acc else 0)]
            elif kind == "del_cells":
                f = ["delcells", op[1], op[2]]
            elif kind == "rename_cells":
                f = ["rename", op[1], op[2], op[3]]
            elif kind == "rename_space":
                # `space.rename(name)` (`St.renameSpace`, Struct/MechRename.lean): one relabelling of every path the
                # structural state holds; the state after it (ids from the containers, direct bases, linearisations
                # read through the inheritance graph) is compared like after every other edit
                f = ["renamespace", op[1], op[2]]
            elif kind == "add_bases":
                f = ["addbases", op[1], self.csv(op[2])]
            elif kind == "remove_bases":
                f = ["rmbases", op[1], self.csv(op[2])]
            elif kind == "set_ref":
                if is_obj(op[3]):
                    f = UNM if acc else None
                elif self.pre_kind in ("iface", "scalar"):
                    f = ["obs"]         # not a reference edit: the structural state is what it was
                else:
                    f = ["setref", op[1], op[2], str(rpay(op[1], op[2]) if acc else 0)]
            elif kind == "del_ref":
                # `del space.name` deletes whatever the name is in the namespace of the space
                if not acc and self.pre_defined_ref and api.trigger(live, op, result) in (api.KEY_CTORREFS, api.KEY_DELDREF):
                    f = UNM             # known finding: the reference was deleted, then the operation raised
                elif self.pre_kind == "iface":
                    f = ["obs"]
                elif self.pre_kind in ("cells", "scalar"):
                    f = ["delcells", op[1], op[2]]
                elif self.pre_kind == "space":
                    f = ["delspace", op[1] + "." + op[2]]
                else:
                    f = ["delref", op[1], op[2]]
            elif kind == "set_mref":
                if is_obj(op[2]):
                    f = UNM if acc else None
                elif self.pre_kind == "iface":
                    f = ["obs"]
                else:
                    f = ["setglobal", op[1]]
            elif kind == "del_mref":
                if self.pre_kind == "iface":
                    f = ["obs"]
                elif self.pre_kind == "space":
                    f = ["delspace", op[1]]
                else:
                    f = ["delglobal", op[1]]
            elif kind in batch_api.KINDS:
                f = self._batch(live, op, acc, cpay, UNM)
            else:
                f = UNM if acc else None
        except Exception:   # noqa  (malformed op of the bad stream)
            f = UNM if acc else None
        if f == UNM:
            self.alive = False
            self.ended = (k, kind)
            return
        if f is None:
            return
        if f == ["obs"]:
            self._emit("obs", impl_state(m, self.intern), k)
            return
        if not all(isinstance(x, str) and x and x.isascii() and not re.search(r"\s", x) for x in f):
            # names with blanks, None, ... of the malformed stream cannot travel through the line protocol; the name
            # kernel of the model (Names.isValidName) is the ASCII part of str.isidentifier(): non-ASCII identifiers,
            # which the code accepts, are outside the model
            if acc:
                self.alive = False
            return
        self._emit(" ".join(f), "acc" if acc else "rej", k)
        self._emit("obs", impl_state(m, self.intern), k)

    def _batch(self, live, op, acc, cpay, UNM):
        """the model line of a call that creates several members (None: not compared; ["obs"]: state only)"""
        kind = op[0]

        def es(path, names):
            return ",".join("%s=%d" % (n, cpay(path, n) if acc else 0) for n in names) if names else "-"
        if kind == "copy_space":
            # not in the model: the correspondence ends unless the call was refused and changed nothing
            if acc or self.pre_state is None or impl_state(live.m, Interner()) != self.pre_state:
                return UNM
            return None
        if kind in ("batch_cells_pandas", "batch_space_pandas") and op[-1] == "csv":
            labels = op[2] if kind == "batch_cells_pandas" else op[3]
            if len(set(labels)) != len(labels):
                # a csv file with one column label twice: pandas renames the second (`n2.1`) when it reads the file -
                # the names modelx is offered are not the ones in the operation; not compared (state only if refused)
                return UNM if acc else ["obs"]
        if kind == "batch_cells_pandas":
            return ["cellsbatch", op[1], es(op[1], batch_api.resolved_names(op[2], op[3]))]
        if kind == "batch_space_pandas":
            path = op[2] if op[1] == "-" else op[1] + "." + op[2]
            return ["spacebatch", op[1], op[2], es(path, batch_api.resolved_names(op[3], op[4]))]
        funcs = op[2] if kind == "batch_cells_module" else op[3]
        names = sorted(n for n, _ in funcs)
        twin = any(fk == "twin" for _, fk in funcs)
        if any(not api.valid_name(n) for n in names):
            return UNM if acc else None      # a cells named automatically: which one it is is not looked up here
        if kind == "batch_cells_module":
            if twin:
                # a formula modelx cannot take: a reason for refusal the model does not know; nothing may have changed
                return UNM if acc else ["obs"]
            return ["modulebatch", op[1], es(op[1], names)]
        first = batch_api.import_module_checks_first()
        if twin:
            # ... here the space-first code leaves the space behind (known finding), the model knows no reason to refuse
            return (UNM if acc else ["obs"]) if first else UNM
        path = op[2] if op[1] == "-" else op[1] + "." + op[2]
        return ["spacemodulechecked" if first else "spacemodule", op[1], op[2], self.csv(op[5] if len(op) > 5 and op[5] else []), es(path, names)]

    def finish(self, out, hist_of, stats=None):
        if len(self.lines) <= 1:
            return
        # one long-lived driver process (every history starts with `reset`); the first conversations go through
        # `run_driver`, which keeps them as samples for the evidence file
        if len(core.DRIVER_SAMPLE) < core.DRIVER_SAMPLE_MAX_CONV:
            got = core.run_driver("smech", self.lines)
        else:
            got = core.DriverProc.ask("smech", self.lines)
        for i, (line, exp, g) in enumerate(zip(self.lines, self.expect, got)):
            if exp is None:
                continue
            self.compared += 1
            if exp != g:
                k = self.where[i]
                what = line if line != "obs" else "state after " + self.lines[i - 1]
                out.disagree(hist_of(k), k, exp, g, layer="smech:" + what.split(" ")[0])
                return
        if stats is not None:
            stats["mech_lines_compared"] += self.compared
