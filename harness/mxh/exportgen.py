"""Generator of models within the documented export subset (C15).

Every random choice comes from the `random.Random` handed in.  The result is a model
description (see exportworld.py) - plain data, the replay format.

What is generated (and measured in `features`):
 * 1-4 top-level spaces, nesting <= 3, static spaces and parametrised spaces (formula
   `lambda x, y=2: None`), nested parametrised spaces that REUSE a parameter name, static child
   spaces below parametrised ones;
 * inheritance (one or two bases), overridden cells and references;
 * cells: `def` and `lambda` formulas, 0-2 parameters with defaults, cached and uncached,
   bodies from a typed expression grammar: arithmetic, conditional expressions, immediately
   applied lambdas (with defaults that read globals), list/set/dict comprehensions, generator
   expressions, nested comprehensions, nested `def`s, local assignments, `for` loops,
   local names / parameters that coincide with names that are global elsewhere;
 * SCOPING on purpose (exportscope.py): comprehension / generator-expression variables named like a global of the
   formula (reference, ItemSpace parameter, cells, child space) that is read as a global elsewhere in the same
   formula - mostly the idiom `for n in range(n)` -, comprehensions 1-3 deep whose inner element / condition /
   iterables read the outer variable, lambdas and generator expressions in and around them, keyword arguments named
   like globals (`bar(x=x)`), parenthesised names (`(n)`, `(foo)(1)`); `scope_shapes` counts which of these shapes
   every generated formula has (features `shape_*`);
 * child spaces and ItemSpace parameters named like built-ins; model-level references holding cells / spaces;
 * names shadowing built-ins as references AND as cells (`len`, `max`, `type`, ...), next to
   uses of real built-ins that nothing shadows;
 * references: literal (int, str, bool, None), pickled (list, tuple, dict, nested; one object
   shared by two names), module (`math`), object-valued (cells, space, parametrised space) in
   modes auto / absolute / relative for static spaces; inside a parametrised tree only
   `absolute`, or targets outside the tree (documented limitation of export_model);
   model-level references;
 * reference VALUE KINDS (exportvals.py): every type the exporter writes as a source literal at its
   boundary values, instances of strict subclasses of those types (user classes, enum members,
   numpy scalars), look-alikes, containers and arrays holding them, importable things - at model
   level and space level, overridden in derived spaces, copied into ItemSpaces; read by `rd_*`
   cells in ways that expose the exact type (identity, type name, str/repr/format, arithmetic,
   methods), int-like ones also as int atoms of the expression grammar;
 * calls: by name, `_space.f`, `Child.f`, `_model.A.f`, through references holding cells /
   spaces / parametrised spaces (`r[e].f()`, `r(e, e).f()`), keyword arguments.

Termination: every cells NAME has a rank and a signature, model wide; a formula calls only
names of lower rank (whatever space the call lands in, also through overrides), or its own
name with the first argument decremented under the guard `> 0`.

Shapes that belong to a `status: known` entry of known_findings.json are recognised by `source_triggers` /
`desc_triggers` / `query_triggers` and are not generated (corpus witnesses cover them); the shapes of repaired
findings (`status: fixed`) are generated like any other.
"""
import ast
import builtins as _bi

from . import exportvals as V
from . import exportscope as SC

SHADOW_POOL = ["len", "max", "min", "abs", "type", "id", "list", "str", "int", "sorted", "any", "all",
               "round", "pow", "hash", "bin", "ord", "chr", "dict", "set", "zip", "map", "filter",
               "iter", "next", "format", "dir", "vars", "bool", "divmod", "repr", "enumerate",
               "reversed", "slice", "object", "input", "print", "open"]
PLAIN_CELLS = ["foo", "bar", "baz", "qux", "quux", "alpha", "beta", "gamma", "delta", "eps", "zeta"]
PLAIN_REFS = ["g", "k", "d", "u", "v", "w", "rate", "base", "tbl", "cfg"]
TOP_SPACES = ["A", "B", "C", "D", "E"]
CHILD_SPACES = ["Ch", "Gc", "In", "Sb", "Tk"]
SPACE_PARAMS = ["x", "y", "n", "t"]
CELL_PARAMS = ["a", "b", "i", "j", "x", "y", "n", "p", "id", "len", "g", "k"]
LOCAL_NAMES = ["i", "j", "z", "q", "r", "s"]
ALL_BUILTINS = set(n for n in _bi.__dict__ if n[:2] != "__" or n[-2:] != "__")


# ----------------------------------------------------------------------------- static views

class SpaceInfo:
    """what the generator knows about one static space"""

    def __init__(self, path, parent):
        self.path = path                  # tuple of names
        self.parent = parent              # SpaceInfo | None
        self.children = []
        self.bases = []                   # SpaceInfo
        self.formula = None               # [[name, default]]
        self.own_cells = {}               # name -> desc (filled late)
        self.own_refs = {}                # name -> ref desc
        self.cell_names = []              # own + inherited
        self.desc = None

    @property
    def dotted(self):
        return ".".join(self.path)

    def ancestors(self):
        p, res = self.parent, []
        while p is not None:
            res.append(p)
            p = p.parent
        return res

    def visible_params(self):
        """innermost first"""
        res = []
        for s in [self] + self.ancestors():
            for nm, _ in (s.formula or []):
                if nm not in res:
                    res.append(nm)
        return res

    def in_param_tree(self):
        return any(s.formula for s in [self] + self.ancestors())

    def param_root(self):
        """outermost parametrised space among self and ancestors"""
        root = None
        for s in [self] + self.ancestors():
            if s.formula:
                root = s
        return root

    def all_bases(self):
        res = []
        for b in self.bases:
            for x in [b] + b.all_bases():
                if x not in res:
                    res.append(x)
        return res

    def visible_cells(self):
        names = list(self.own_cells)
        for b in self.all_bases():
            for n in b.own_cells:
                if n not in names:
                    names.append(n)
        return names

    def visible_refs(self, grefs):
        res = dict()
        for b in reversed(self.all_bases()):
            res.update(b.own_refs)
        res.update(self.own_refs)
        for n, r in grefs.items():
            res.setdefault(n, r)
        return res


# ----------------------------------------------------------------------------- the generator

class ModelGen:

    def __init__(self, rng, name, profile=None):
        self.rng = rng
        self.name = name
        self.profile = profile or rng.choice(["mixed", "mixed", "shadow", "items", "inherit", "syntax", "values"])
        self.features = {}
        self.spaces = []          # SpaceInfo in creation order
        self.grefs = {}           # name -> ref desc
        self.cellsig = {}         # cells name -> [[param, default]]
        self.rank = {}            # cells name -> int
        self.ret_int = {}         # cells name -> returns an int (callers rely on it)
        self.reftype = {}         # ref name -> ("int",) | ("str",) | ("seq", n) | ("dict", keys) | ("mod",) |
        #                            ("cells", dotted, cname) | ("space", dotted) | ("ispace", dotted)

    def feat(self, k, n=1):
        self.features[k] = self.features.get(k, 0) + n

    # ---- structure ------------------------------------------------------------------

    def gen(self):
        rng = self.rng
        prof = self.profile
        # one pool of built-in names for the whole model: child spaces, ItemSpace parameters, cells and
        # references draw from it without replacement, so no two members of a model share such a name
        self.pool_sh = list(SHADOW_POOL)
        rng.shuffle(self.pool_sh)
        self.builtin_named = set()        # child spaces and parameters named like a built-in
        self.p_bi = {"shadow": 0.3, "mixed": 0.12, "items": 0.2, "inherit": 0.08, "syntax": 0.12, "values": 0.05}[prof]
        ntop = rng.randint(1, 3 if prof != "items" else 2) + (1 if prof == "inherit" else 0)
        tops = rng.sample(TOP_SPACES, ntop)
        p_formula = {"items": 0.7, "mixed": 0.35, "shadow": 0.2, "inherit": 0.2, "syntax": 0.15, "values": 0.3}[prof]
        for nm in tops:
            s = SpaceInfo((nm,), None)
            self.spaces.append(s)
            self._children(s, 1, p_formula)
        # formulas
        for s in self.spaces:
            if rng.random() < p_formula:
                self._give_formula(s)
        # inheritance: a space may derive from earlier spaces that are neither ancestors nor descendants
        p_inh = {"inherit": 0.7, "mixed": 0.3, "shadow": 0.25, "items": 0.15, "syntax": 0.1, "values": 0.4}[prof]
        for idx, s in enumerate(self.spaces):
            cands = [b for b in self.spaces[:idx] if not self._related(s, b)]
            if cands and rng.random() < p_inh:
                nb = 2 if (len(cands) > 1 and rng.random() < 0.3) else 1
                s.bases = rng.sample(cands, nb)
                # keep the linearisation trivially consistent: a second base must not be a base of the first
                if nb == 2 and (s.bases[1] in s.bases[0].all_bases() or s.bases[0] in s.bases[1].all_bases()):
                    s.bases = s.bases[:1]
                self.feat("space_with_bases")
                if nb == 2 and len(s.bases) == 2:
                    self.feat("space_with_two_bases")
                if s.formula is None and rng.random() < 0.5:
                    fb = [b for b in s.bases if b.formula]
                    if fb:
                        s.formula = [list(p) for p in fb[0].formula]
        self._name_universe()
        self._assign_members()
        self._refs()
        self._formulas()
        return self._desc()

    def _children(self, s, depth, p_formula):
        rng = self.rng
        if depth >= 3:
            return
        nch = rng.choice([0, 0, 1, 1, 2]) if depth == 1 else rng.choice([0, 0, 1])
        if self.profile == "items" and depth == 1:
            nch = max(nch, 1)
        for nm in rng.sample(CHILD_SPACES, nch):
            if self.pool_sh and rng.random() < self.p_bi:
                nm = self.pool_sh.pop()               # a child space named like a built-in
                self.builtin_named.add(nm)
                self.feat("child_space_named_like_builtin")
            c = SpaceInfo(s.path + (nm,), s)
            s.children.append(c)
            self.spaces.append(c)
            self._children(c, depth + 1, p_formula)

    def _related(self, s, b):
        return b in s.ancestors() or s in b.ancestors() or b is s

    def _give_formula(self, s):
        rng = self.rng
        outer = []
        for a in s.ancestors():
            outer += [p for p, _ in (a.formula or [])]
        n = rng.choice([1, 1, 2])
        names = []
        for _ in range(n):
            if outer and rng.random() < 0.6:
                cand = rng.choice(outer)           # REUSE the name of an enclosing parameter
            elif self.pool_sh and rng.random() < self.p_bi and not (
                    self.pool_sh[-1] in CALL_TEMPLATE_BUILTINS and _is_active(K_PARAM_ZIP)):
                cand = self.pool_sh.pop()          # a parameter named like a built-in
                self.builtin_named.add(cand)
                self.feat("space_param_named_like_builtin")
            else:
                cand = rng.choice(SPACE_PARAMS)
            if cand not in names:
                names.append(cand)
        params = []
        for i, nm in enumerate(names):
            dflt = rng.randint(-2, 9) if (i == len(names) - 1 and rng.random() < 0.4) else None
            params.append([nm, dflt])
        s.formula = params
        self.feat("parametrised_space")
        if any(nm in outer for nm in names):
            self.feat("nested_param_name_reused")

    # ---- names ----------------------------------------------------------------------

    def _name_universe(self):
        rng = self.rng
        p_sh = {"shadow": 0.6, "mixed": 0.3, "items": 0.1, "inherit": 0.2, "syntax": 0.25, "values": 0.15}[self.profile]
        pool_sh = self.pool_sh
        reserved = set(SPACE_PARAMS)
        ncells = rng.randint(3, 8)
        names = []
        plain = list(PLAIN_CELLS)
        rng.shuffle(plain)
        for _ in range(ncells):
            if rng.random() < p_sh and pool_sh:
                names.append(pool_sh.pop())
            else:
                names.append(plain.pop())
        rng.shuffle(names)
        cell_params = CELL_PARAMS + ([] if _is_active(K_CELLS_PARAM_VAL) else list(CACHE_TEMPLATE_LOCALS))
        for r, nm in enumerate(names):
            self.rank[nm] = r
            np_ = rng.choice([0, 1, 1, 1, 2, 2])
            ps = []
            for c in rng.sample(cell_params, np_):
                ps.append([c, None])
            if ps and rng.random() < 0.35:
                ps[-1][1] = rng.randint(-1, 5)
            self.cellsig[nm] = ps
            self.ret_int[nm] = rng.random() < 0.7
        self.cell_universe = names
        nrefs = rng.randint(2, 7)
        plainr = list(PLAIN_REFS)
        rng.shuffle(plainr)
        self.ref_universe = []
        for _ in range(nrefs):
            if rng.random() < p_sh and pool_sh:
                self.ref_universe.append(pool_sh.pop())
            else:
                self.ref_universe.append(plainr.pop())
        self.shadowed = set(self.cell_universe) | set(self.ref_universe)
        assert not (self.shadowed & reserved)
        assert not (self.shadowed & self.builtin_named)
        self.shadowed |= self.builtin_named       # formulas do not rely on the built-in of such a name anywhere

    def _assign_members(self):
        rng = self.rng
        for s in self.spaces:
            inherited = []
            for b in s.all_bases():
                inherited += [n for n in b.own_cells if n not in inherited]
            k = rng.randint(1, min(5, len(self.cell_universe)))
            own = rng.sample(self.cell_universe, k)
            if inherited:
                # some overrides, some new
                own = [n for n in own if n not in inherited or rng.random() < 0.5]
                if not own and rng.random() < 0.5:
                    own = [rng.choice(inherited)]
                for n in own:
                    if n in inherited:
                        self.feat("cells_override")
            own.sort(key=lambda n: self.rank[n])
            for n in own:
                s.own_cells[n] = None
            if s.in_param_tree():
                self.feat("space_in_param_tree")

    # ---- references -----------------------------------------------------------------

    def _lit(self):
        rng = self.rng
        r = rng.random()
        if r < 0.7:
            return ("int",), {"lit": rng.randint(-3, 9)}
        if r < 0.9:
            return ("str",), {"lit": {"s": rng.choice(["ab", "xyz", "", "q"])}}
        return ("int",), {"lit": rng.choice([True, False])}

    def _pick(self):
        rng = self.rng
        r = rng.random()
        if r < 0.45:
            n = rng.randint(1, 4)
            return ("seq", n), {"pick": {"l": [rng.randint(-2, 7) for _ in range(n)]}}
        if r < 0.7:
            n = rng.randint(1, 3)
            return ("seq", n), {"pick": {"t": [rng.randint(-2, 7) for _ in range(n)]}}
        keys = rng.sample(["a", "b", "c"], rng.randint(1, 3))
        if rng.random() < 0.5:
            return ("dict", keys), {"pick": {"d": [[{"s": k_}, rng.randint(0, 9)] for k_ in keys]}}
        ik = sorted(rng.sample(range(4), len(keys)))
        return ("dict", ik), {"pick": {"d": [[k_, rng.randint(0, 9)] for k_ in ik]}}

    def _refs(self):
        rng = self.rng
        # fix a type per reference name, model wide
        obj_cells = [(s, n) for s in self.spaces for n in s.visible_cells() if not s.in_param_tree()]
        obj_spaces = [s for s in self.spaces if not s.in_param_tree() or s.formula and s.param_root() is s]
        p_val = 0.6 if self.profile == "values" else 0.2
        vkinds = [k for k in V.KINDS if k.random_ok]
        for nm in self.ref_universe:
            if rng.random() < p_val:
                self.reftype[nm] = ("val", rng.choice(vkinds).id)
                continue
            r = rng.random()
            if r < 0.5:
                self.reftype[nm] = ("lit",)
            elif r < 0.72:
                self.reftype[nm] = ("pick",)
            elif r < 0.78 and "math" not in self.shadowed:
                self.reftype[nm] = ("mod",)
            elif r < 0.9 and obj_cells:
                s, n = rng.choice(obj_cells)
                self.reftype[nm] = ("cells", s, n)
            elif obj_spaces:
                s = rng.choice(obj_spaces)
                self.reftype[nm] = ("ispace", s) if s.formula else ("space", s)
            else:
                self.reftype[nm] = ("lit",)
        # MODEL-LEVEL-ONLY references to cells / spaces INSIDE parametrised trees (and the parametrised spaces
        # themselves): a model-level reference has no mode and denotes the static object also when it is read inside an
        # item of that very tree
        self.model_only = set()
        in_tree_cells = [(s, n) for s in self.spaces for n in s.visible_cells() if s.in_param_tree()]
        in_tree_spaces = [s for s in self.spaces if s.in_param_tree()]
        p_g = {"items": 0.7, "mixed": 0.4, "inherit": 0.3}.get(self.profile, 0.25)
        for nm in ("mg1", "mg2", "mg3"):
            if not in_tree_spaces or rng.random() > p_g:
                continue
            if in_tree_cells and rng.random() < 0.5:
                s, n = rng.choice(in_tree_cells)
                self.reftype[nm] = ("cells", s, n)
            else:
                s = rng.choice(in_tree_spaces)
                self.reftype[nm] = ("ispace", s) if s.formula else ("space", s)
            self.ref_universe.append(nm)
            self.model_only.add(nm)
            self.shadowed.add(nm)
            self.feat("model_level_ref_into_param_tree")
        self.refval = {}        # (space dotted | "", name) -> (type tuple, valspec)
        shared = None
        # the value a parameter name has where no ItemSpace binds it (static spaces): a model-level reference of the
        # same name, so that formulas that depend on the arguments have values on the static spaces too
        for s in self.spaces:
            for p_, _d in (s.formula or []):
                if p_ not in self.grefs and rng.random() < 0.5:
                    self.grefs[p_] = {"name": p_, "val": {"lit": rng.randint(-3, 9)}, "mode": "auto", "_type": ("int",)}
                    self.feat("model_level_ref_named_like_param")
        # model level
        for nm in self.ref_universe:
            if nm in self.model_only or rng.random() < 0.3:
                rd = self._make_ref(None, nm, shared)
                if rd:
                    self.grefs[nm] = rd
                    self.feat("model_level_ref")
                    if "obj" in rd["val"]:
                        self.feat("model_level_ref_to_object")
        for s in self.spaces:
            vis = {}
            for b in s.all_bases():
                vis.update(b.own_refs)
            for nm in self.ref_universe:
                if nm in self.model_only:
                    continue
                p = 0.35 if nm not in vis else 0.25
                if rng.random() < p:
                    rd = self._make_ref(s, nm, shared)
                    if rd:
                        s.own_refs[nm] = rd
                        if nm in vis:
                            self.feat("ref_override")
                        if nm in self.grefs:
                            self.feat("ref_shadows_model_level")

    def _make_ref(self, s, nm, shared):
        """a reference `nm` for space `s` (None: model level); the value kind is fixed per name"""
        rng = self.rng
        kind = self.reftype[nm]
        mode = "auto"
        if kind[0] == "lit":
            ty, val = self._lit()
            # keep the python type stable per name: decide once
            first = self.refval.get(nm)
            if first and first[0] != ty:
                ty, val = first[0], self._same_type(first[0])
            self.refval.setdefault(nm, (ty, val))
        elif kind[0] == "pick":
            first = self.refval.get(nm)
            if first is None:
                ty, val = self._pick()
                self.refval[nm] = (ty, val)
            else:
                ty, val = first      # the same shape everywhere (values too: shape is what formulas rely on)
                if rng.random() < 0.5:
                    val = self._reshuffle(ty, val)
            self.feat("pickled_ref")
        elif kind[0] == "mod":
            ty, val = ("mod",), {"mod": "math"}
            self.feat("module_ref")
        elif kind[0] == "val":
            k = V.BY_ID[kind[1]]
            ty, val = ("val", k.id), {"kind": k.id, "alt": rng.randrange(len(k.makers))}
            self.feat("valuekind_ref")
            self.feat("vk_" + k.id)
            if s is None:
                self.feat("valuekind_ref_model_level")
        else:
            target = kind[1]
            if s is not None and (target is s or target in s.ancestors() or s in target.ancestors()):
                # a reference to the space itself / an ancestor / a descendant: allowed for static spaces
                pass
            in_tree = s is not None and (s.in_param_tree() or any(
                t.in_param_tree() for t in self.spaces if s in t.all_bases()))
            if in_tree and not s.in_param_tree():
                mode = "absolute"       # inherited into a parametrised tree: must not be relative there
            elif in_tree:
                # documented limitation: no relative references inside ItemSpaces
                root = s.param_root()
                inside = target is root or root in target.ancestors()
                mode = "absolute" if inside else rng.choice(["auto", "absolute"])
            elif s is None:
                mode = "auto"           # model level: the mode is not used
            else:
                mode = rng.choice(["auto", "auto", "absolute", "relative"])
            if kind[0] == "cells":
                ty, val = ("cells", kind[1], kind[2]), {"obj": kind[1].dotted + "." + kind[2]}
                self.feat("ref_to_cells")
            elif kind[0] == "space":
                ty, val = ("space", kind[1]), {"obj": kind[1].dotted}
                self.feat("ref_to_space")
            else:
                ty, val = ("ispace", kind[1]), {"obj": kind[1].dotted}
                self.feat("ref_to_param_space")
            self.feat("objref_mode_" + mode)
        return {"name": nm, "val": val, "mode": mode, "_type": ty}

    def _same_type(self, ty):
        rng = self.rng
        if ty == ("int",):
            return {"lit": rng.randint(-3, 9)}
        return {"lit": {"s": rng.choice(["ab", "xyz", "q", "mm"])}}

    def _reshuffle(self, ty, val):
        rng = self.rng
        if ty[0] == "seq":
            tag = "l" if "l" in val["pick"] else "t"
            return {"pick": {tag: [rng.randint(-2, 7) for _ in range(ty[1])]}}
        return {"pick": {"d": [[k, rng.randint(0, 9)] for k, _ in val["pick"]["d"]]}}

    # ---- formulas -------------------------------------------------------------------

    def _view(self, s, cname):
        """what the formula of `cname` defined in space `s` may use"""
        rank = self.rank[cname]
        v = {"int": [], "str": [], "seq": [], "dict": [], "mod": [], "calls": [], "items": []}
        refs = s.visible_refs(self.grefs)
        for nm, rd in refs.items():
            ty = rd["_type"]
            if ty[0] in ("int", "str", "mod"):
                v[ty[0]].append(nm)
            elif ty[0] == "seq":
                v["seq"].append((nm, ty[1]))
            elif ty[0] == "dict":
                v["dict"].append((nm, ty[1]))
            elif ty[0] == "val":
                if "intatom" in V.BY_ID[ty[1]].traits:
                    v["int"].append(nm)          # an int SUBCLASS instance wherever an int may stand
            elif ty[0] == "cells":
                if self.rank[ty[2]] < rank and self.ret_int[ty[2]]:
                    v["calls"].append((None, nm, self.cellsig[ty[2]], "ref_to_cells"))
            elif ty[0] == "space":
                for cn in ty[1].visible_cells():
                    if self.rank[cn] < rank and self.ret_int[cn]:
                        v["calls"].append((nm + ".", cn, self.cellsig[cn], "via_space_ref"))
            elif ty[0] == "ispace":
                cs = [(cn, self.cellsig[cn]) for cn in ty[1].visible_cells()
                      if self.rank[cn] < rank and self.ret_int[cn]]
                if cs and not [a for a in ty[1].ancestors() if a.formula]:
                    v["items"].append((nm, ty[1].formula, cs, "via_param_space_ref"))
        for p in s.visible_params():
            v["int"].append(p)
        for cn in s.visible_cells():
            if self.rank[cn] < rank and self.ret_int[cn]:
                v["calls"].append(("", cn, self.cellsig[cn], "by_name"))
                v["calls"].append(("_space.", cn, self.cellsig[cn], "via__space"))
        for c in s.children:
            cs = [(cn, self.cellsig[cn]) for cn in c.visible_cells() if self.rank[cn] < rank and self.ret_int[cn]]
            if c.formula:
                if cs:
                    v["items"].append((c.path[-1], c.formula, cs, "child_param_space"))
            else:
                for cn, sig in cs:
                    v["calls"].append((c.path[-1] + ".", cn, sig, "via_child"))
        for t in self.spaces:
            if t.in_param_tree() and not (t.formula and t.param_root() is t):
                continue
            cs = [(cn, self.cellsig[cn]) for cn in t.visible_cells() if self.rank[cn] < rank and self.ret_int[cn]]
            if not cs:
                continue
            if t.formula:
                v["items"].append(("_model." + t.dotted, t.formula, cs, "via__model_param_space"))
            else:
                for cn, sig in cs:
                    v["calls"].append(("_model." + t.dotted + ".", cn, sig, "via__model"))
        return v

    def _formulas(self):
        for s in self.spaces:
            for cn in list(s.own_cells):
                src, cached, tags = None, True, []
                for attempt in range(6):
                    fg = FormulaGen(self, s, cn, self._view(s, cn), simple=(attempt >= 4))
                    src = fg.source()
                    tags = fg.tags
                    if not source_triggers(src, self.cell_universe):
                        break
                    self.feat("regenerated_for_known_trigger")
                else:
                    src = "lambda %s: 1" % params_src(self.cellsig[cn])
                    tags = []
                cached = self.rng.random() >= 0.22
                if not cached:
                    self.feat("uncached_cells")
                for t in tags:
                    self.feat("syn_" + t)
                for t in scope_shapes(src):
                    self.feat("shape_" + t)
                s.own_cells[cn] = {"name": cn, "src": src, "cached": cached}
                if cn in ALL_BUILTINS:
                    self.feat("cells_shadowing_builtin")
        for s in self.spaces:
            for nm in s.own_refs:
                if nm in ALL_BUILTINS:
                    self.feat("ref_shadowing_builtin")
        # reader cells for references holding value kinds: read in ways that expose the exact type
        for s in self.spaces:
            refs = s.visible_refs(self.grefs)
            inherited = set(s.visible_cells())
            for nm, rd in refs.items():
                if rd["_type"][0] != "val":
                    continue
                k = V.BY_ID[rd["_type"][1]]
                pats = [(sfx, src) for sfx, src in V.readers(k, nm, avoid=self.shadowed | set(SPACE_PARAMS))
                        if not source_triggers(src, self.cell_universe)]
                if not pats:
                    continue
                # the identity reader mostly; then a few of the kind's own patterns
                chosen = ([pats[0]] if self.rng.random() < 0.7 else []) + \
                    self.rng.sample(pats, min(len(pats), self.rng.randint(1, 3)))
                for sfx, src in chosen:
                    cn = "rd_%s_%s" % (nm, sfx)
                    if cn in inherited or cn in s.own_cells:
                        continue
                    node = _func_node(src)
                    a = node.args
                    self.cellsig[cn] = [[x.arg, None] for x in a.args]
                    self.ret_int[cn] = False
                    self.rank[cn] = -1
                    s.own_cells[cn] = {"name": cn, "src": src, "cached": self.rng.random() < 0.75}
                    self.feat("valuekind_reader_cells")
                    if s.in_param_tree():
                        self.feat("valuekind_read_in_param_tree")
                    if nm not in s.own_refs:
                        self.feat("valuekind_read_inherited_or_model_level")
        # reader cells for the model-level references into parametrised trees: which object does the name denote
        # HERE (the static one, whatever item the reader runs in)?  the value depends on the arguments
        for s in self.spaces:
            if not getattr(self, "model_only", None) or not (s.in_param_tree() or self.rng.random() < 0.3):
                continue
            for nm in sorted(self.model_only):
                rd = self.grefs.get(nm)
                if rd is None:
                    continue
                ty = rd["_type"]

                def lits(sig):
                    return ", ".join(str(self.rng.randint(0, 2)) for p_, d_ in sig if d_ is None)
                if ty[0] == "cells":
                    src = "lambda: %s(%s)" % (nm, lits(self.cellsig[ty[2]]))
                elif ty[0] == "space":
                    cs = ty[1].visible_cells()
                    if not cs:
                        continue
                    cn = self.rng.choice(cs)
                    src = "lambda: %s.%s(%s)" % (nm, cn, lits(self.cellsig[cn]))
                else:
                    cs = ty[1].visible_cells()
                    if not cs or [a for a in ty[1].ancestors() if a.formula]:
                        continue
                    cn = self.rng.choice(cs)
                    src = "lambda: %s(%s).%s(%s)" % (nm, lits(ty[1].formula) or "1", cn, lits(self.cellsig[cn]))
                rn = "rg_" + nm
                if rn in s.own_cells or rn in s.visible_cells():
                    continue
                self.cellsig[rn] = []
                self.ret_int[rn] = False
                self.rank[rn] = -1
                s.own_cells[rn] = {"name": rn, "src": src, "cached": self.rng.random() < 0.7}
                self.feat("model_level_objref_reader")
                if s.in_param_tree():
                    self.feat("model_level_objref_read_in_param_tree")
        # probe cells `lambda: name` (what does a name resolve to in this space / instance?)
        for s in self.spaces:
            if not s.in_param_tree() and self.rng.random() < 0.7:
                continue
            refs = s.visible_refs(self.grefs)
            names = list(s.visible_params()) + [n for n, rd in refs.items() if rd["_type"] == ("int",)]
            if not names:
                continue
            for nm in self.rng.sample(names, min(len(names), self.rng.randint(1, 3))):
                cn = "get_" + nm
                self.cellsig[cn] = []
                self.ret_int[cn] = True
                self.rank[cn] = -1
                s.own_cells[cn] = {"name": cn, "src": "lambda: " + nm, "cached": self.rng.random() < 0.7}
                self.feat("probe_cells")

    # ---- output ---------------------------------------------------------------------

    def _desc(self):
        def ref_out(rd):
            return {k: v for k, v in rd.items() if not k.startswith("_")}

        def sp_out(s):
            return {"name": s.path[-1],
                    "bases": [b.dotted for b in s.bases],
                    "formula": s.formula,
                    "refs": [ref_out(r) for r in s.own_refs.values()],
                    "cells": [s.own_cells[n] for n in s.own_cells],
                    "spaces": [sp_out(c) for c in s.children]}
        # creation order must put bases first: top-level order is creation order, and a base always
        # precedes (it was drawn from earlier spaces) - but "earlier" is depth first, which is also
        # the order in which exportworld.build creates spaces
        return {"name": self.name, "profile": self.profile,
                "grefs": [ref_out(r) for r in self.grefs.values()],
                "spaces": [sp_out(s) for s in self.spaces if s.parent is None],
                "sigs": {n: self.cellsig[n] for n in self.cellsig}}


def is_lambda(src):
    return src.strip().startswith("lambda")


def params_src(sig):
    return ", ".join(p if d is None else "%s=%r" % (p, d) for p, d in sig)


# ----------------------------------------------------------------------------- formula bodies

class FormulaGen:
    """one cells formula: typed expressions (int / seq) over the view of its space"""

    def __init__(self, mg, space, cname, view, simple=False):
        self.mg = mg
        self.rng = mg.rng
        self.space = space
        self.cname = cname
        self.view = view
        self.sig = mg.cellsig[cname]
        self.simple = simple
        self.tags = []
        self.ncalls = 0
        self.fn_locals = set(p for p, _ in self.sig)      # names local to the whole function
        self.shadow = set(self.fn_locals)                 # names that must not be used as globals
        self.budget = 14 if not simple else 5
        self.flat = 0
        self.global_universe = (set(view["int"]) | set(view["str"]) | set(view["mod"]) |
                                set(x[0] for x in view["seq"]) | set(x[0] for x in view["dict"]) |
                                set(mg.cell_universe) | set(mg.ref_universe) | set(SPACE_PARAMS))

    def tag(self, t):
        if t not in self.tags:
            self.tags.append(t)

    def ok_builtin(self, name):
        return name not in self.mg.shadowed and name not in self.shadow

    # ---- atoms

    def lit(self):
        return str(self.rng.randint(-3, 6))

    def nonneg(self, e, m=3):
        if e.isidentifier() or e.lstrip("-").isdigit():
            return "%s %% %d" % (e, m) if not e.startswith("-") else "(%s) %% %d" % (e, m)
        return "(%s) %% %d" % (e, m)

    def flat_int(self, d, locs):
        """an int expression without any nested scope (for default values of nested functions)"""
        self.flat += 1
        try:
            return self.int_expr(d, locs)
        finally:
            self.flat -= 1

    def g_int(self, locs):
        """an int-valued atom: local, global reference / parameter, literal"""
        rng = self.rng
        gl = [n for n in self.view["int"] if n not in self.shadow and n not in locs]
        r = rng.random()
        if locs and r < 0.4:
            return rng.choice(locs)
        if gl and r < 0.85:
            sh = [n for n in gl if n in ALL_BUILTINS]
            n = rng.choice(sh) if (sh and rng.random() < 0.6) else rng.choice(gl)
            self.tag("global_int_name")
            if n in ALL_BUILTINS:
                self.tag("uses_ref_shadowing_builtin")
            if rng.random() < 0.06:
                self.tag("parenthesised_global_name")
                return "(%s)" % n
            return n
        return self.lit()

    # ---- int expressions

    def int_expr(self, d, locs):
        rng = self.rng
        self.budget -= 1
        if d <= 0 or self.budget <= 0:
            return self.g_int(locs)
        forms = ["atom", "atom", "bin", "bin", "cond", "call", "call", "builtin", "seqred", "lam", "genexp",
                 "dictget", "strlen", "item", "mod", "seqidx", "scoped", "scoped"]
        if self.simple:
            forms = ["atom", "bin", "call", "builtin"]
        if self.flat:
            forms = ["atom", "bin", "cond", "call", "dictget", "seqidx", "mod", "strlen"]
        f = rng.choice(forms)
        if f == "atom":
            return self.g_int(locs)
        if f == "scoped":
            e = self.scoped_expr(locs)
            if e:
                return e
            return self.g_int(locs)
        if f == "bin":
            op = rng.choice(["+", "-", "+", "*", "//", "%"])
            a = self.int_expr(d - 1, locs)
            if op == "*":
                return "(%s * %s)" % (a, rng.randint(-2, 3))
            if op in ("//", "%"):
                return "(%s %s %d)" % (a, op, rng.choice([2, 3, 5]))
            return "(%s %s %s)" % (a, op, self.int_expr(d - 1, locs))
        if f == "cond":
            self.tag("conditional")
            return "(%s if %s %s %s else %s)" % (self.int_expr(d - 1, locs), self.int_expr(d - 1, locs),
                                                 rng.choice(["<", ">", "==", "!=", "<="]), self.g_int(locs),
                                                 self.int_expr(d - 1, locs))
        if f == "call":
            e = self.call_expr(d, locs)
            if e:
                return e
            return self.g_int(locs)
        if f == "item":
            e = self.item_expr(d, locs)
            if e:
                return e
            return self.g_int(locs)
        if f == "builtin":
            cands = [b for b in ("max", "min", "abs", "len", "int", "divmod", "bool", "pow", "round")
                     if self.ok_builtin(b)]
            if not cands:
                return self.g_int(locs)
            b = rng.choice(cands)
            self.tag("real_builtin")
            if b in ("max", "min"):
                return "%s(%s, %s)" % (b, self.int_expr(d - 1, locs), self.int_expr(d - 1, locs))
            if b == "abs":
                return "abs(%s)" % self.int_expr(d - 1, locs)
            if b == "len":
                return "len(%s)" % self.seq_expr(d - 1, locs)
            if b == "int":
                return "int(%s)" % self.int_expr(d - 1, locs) if not self.ok_builtin("str") else \
                    "int(str(%s))" % self.int_expr(d - 1, locs)
            if b == "divmod":
                return "divmod(%s, %d)[%d]" % (self.int_expr(d - 1, locs), rng.choice([2, 3]), rng.randint(0, 1))
            if b == "bool":
                return "int(bool(%s))" % self.int_expr(d - 1, locs) if self.ok_builtin("int") else \
                    "(1 if bool(%s) else 0)" % self.int_expr(d - 1, locs)
            if b == "pow":
                return "pow(%s, 2)" % self.g_int(locs)
            return "round(%s)" % self.int_expr(d - 1, locs)
        if f == "seqred":
            return "sum(%s)" % self.seq_expr(d - 1, locs)
        if f == "lam":
            # immediately applied lambda; parameter names may coincide with names global elsewhere
            self.tag("nested_lambda")
            p = self.fresh_local(locs, allow_global_names=True)
            inner = locs + [p]
            if rng.random() < 0.4:
                q = self.fresh_local(inner, allow_global_names=False)
                self.tag("lambda_default_reads_outer")
                dflt = self.flat_int(d - 1, locs)        # evaluated in the enclosing scope
                body = self.with_shadow([p, q], lambda: self.int_expr(d - 1, inner + [q]))
                return "(lambda %s, %s=%s: %s)(%s)" % (p, q, dflt, body, self.int_expr(d - 1, locs))
            body = self.with_shadow([p], lambda: self.int_expr(d - 1, inner))
            return "(lambda %s: %s)(%s)" % (p, body, self.int_expr(d - 1, locs))
        if f == "genexp":
            self.tag("generator_expression")
            v = self.fresh_local(locs, allow_global_names=True)
            it = self.iter_expr(d - 1, locs)
            body = self.with_shadow([v], lambda: self.int_expr(d - 1, locs + [v]))
            return "sum(%s for %s in %s)" % (body, v, it)
        if f == "dictget":
            ds = [x for x in self.view["dict"] if x[0] not in self.shadow and x[0] not in locs]
            if not ds:
                return self.g_int(locs)
            nm, keys = rng.choice(ds)
            self.tag("pickled_dict_ref")
            return "%s[%r]" % (nm, rng.choice(keys))
        if f == "strlen":
            ss = [x for x in self.view["str"] if x not in self.shadow and x not in locs]
            if not ss or not self.ok_builtin("len"):
                return self.g_int(locs)
            self.tag("str_ref")
            return "len(%s + 'z')" % rng.choice(ss)
        if f == "mod":
            ms = [x for x in self.view["mod"] if x not in self.shadow and x not in locs]
            if not ms:
                return self.g_int(locs)
            self.tag("module_ref_use")
            return "%s.gcd(%s, %d)" % (rng.choice(ms), self.int_expr(d - 1, locs), rng.choice([4, 6, 12]))
        if f == "seqidx":
            ss = [x for x in self.view["seq"] if x[0] not in self.shadow and x[0] not in locs]
            if not ss:
                return self.g_int(locs)
            nm, n = rng.choice(ss)
            self.tag("pickled_seq_ref")
            return "%s[%d]" % (nm, rng.randrange(n))
        return self.g_int(locs)

    def with_shadow(self, names, thunk):
        """generate a sub-expression of a scope that binds `names`: they are not global there"""
        added = [n for n in names if n not in self.shadow]
        self.shadow.update(added)
        try:
            return thunk()
        finally:
            for n in added:
                self.shadow.discard(n)

    def fresh_local(self, locs, allow_global_names, p_global=0.3):
        rng = self.rng
        taken = set(locs) | self.fn_locals
        if allow_global_names and rng.random() < p_global:
            cands = [n for n in (self.view["int"] + [x[0] for x in self.view["seq"]] + list(self.mg.cell_universe) +
                                 [c.path[-1] for c in self.space.children])
                     if n not in taken and n != self.cname]
            if cands:
                self.tag("local_named_like_a_global")
                return rng.choice(cands)
        cands = [n for n in LOCAL_NAMES if n not in taken and n not in self.mg.shadowed]
        if not cands:
            cands = ["v%d" % k for k in range(20) if "v%d" % k not in taken]
        return rng.choice(cands)

    def comp_var(self, locs):
        """the variable of a comprehension / generator expression: often a name that is global elsewhere in
        the formula (a reference, a parameter of the space, a cells, a child space), or a built-in"""
        v = self.fresh_local(locs, allow_global_names=True, p_global=0.45)
        if v in self.global_universe or v in ALL_BUILTINS:
            self.tag("comprehension_variable_named_like_global")
        return v

    def comp_iter(self, v, d, locs):
        """the (first) iterable of a comprehension whose variable is `v`: when `v` is an int-valued global of the
        formula, mostly the idiom `for n in range(n)` - global in the iterable, loop variable after it"""
        if v in self.view["int"] and v not in self.shadow and v not in locs and self.rng.random() < 0.6:
            self.tag("loop_variable_named_like_global_of_its_iterable")
            return "range(%s)" % self.nonneg(v, 3)
        return self.iter_expr(d, locs)

    def scoped_expr(self, locs):
        """an int expression of exportscope.ScopeExprGen over the int-valued globals of this position: every binder
        (comprehension 1-3 deep, lambda, generator expression) picks its variable among the global names, the names
        bound around it and fresh ones; every place may read every name in scope"""
        if self.flat or self.budget <= 0:
            return None
        need = ("sum", "range", "sorted", "list", "tuple", "enumerate")
        if not all(self.ok_builtin(b) for b in need):
            return None
        taken = set(locs) | self.fn_locals | self.shadow
        globs = [SC.int_kind("i", n) for n in self.view["int"] if n not in taken]
        # a parameterless-or-one-parameter cells by name, a child space's cells: used as `foo(1)` / `Ch.foo(1)`
        for prefix, cn, sig, how in self.view["calls"]:
            if self.ncalls >= 3 or len(globs) >= 6:
                break
            if prefix not in ("",) and how != "via_child":
                continue
            head = cn if prefix == "" else prefix[:-1]
            if head in taken or any(g.name == head for g in globs) or len([1 for p_, d_ in sig if d_ is None]) > 1:
                continue
            args = ", ".join(str(self.rng.randint(0, 2)) for p_, d_ in sig if d_ is None)
            if prefix == "":
                globs.append(SC.NameKind("c", cn, "%s(%s)" % (cn, args), "(%s)(%s)" % (cn, args)))
            else:
                globs.append(SC.NameKind("s", head, "%s.%s(%s)" % (head, cn, args), "(%s).%s(%s)" % (head, cn, args)))
        if not globs:
            return None
        globs = self.rng.sample(globs, min(len(globs), self.rng.randint(1, 3)))
        if any(g.label in ("c", "s") for g in globs):
            self.ncalls += 1
        avoid = taken | self.global_universe | self.mg.shadowed | set(locs)
        fresh = [n for n in ["i", "j", "q", "r", "s", "z", "u0", "u1", "u2", "u3"] if n not in avoid] or ["u7", "u8", "u9"]
        gen = SC.ScopeExprGen(self.rng, globs, fresh=fresh, budget=self.rng.choice([8, 11, 14]), p_shadow=0.8,
                              p_nest=0.55, avoid_builtins=() if self.ok_builtin("len") else ("len",),
                              allow_walrus=False)
        self.budget -= 4
        if self.rng.random() < 0.6:
            e = "sum(%s)" % gen.seq_expr(self.rng.choice([2, 3]), list(locs), "int")      # a comprehension for sure
        else:
            e = gen.int_expr(self.rng.choice([2, 3]), list(locs))
        for t in sorted(gen.tags):
            self.tag("scoped_" + t)
        self.tag("scoped_expression")
        return e

    def args_for(self, sig, d, locs, allow_kw=True):
        rng = self.rng
        parts = []
        kw_started = False
        for i, (p, dflt) in enumerate(sig):
            if dflt is not None and rng.random() < 0.4:
                continue
            e = self.int_expr(d - 1, locs)
            if i == 0:
                e = self.nonneg(e, 3)
            kw_ok = allow_kw
            if kw_started and not kw_ok:
                break       # only keywords may follow a keyword; the rest is left to defaults (or fails alike)
            # a keyword named like a global name of the formula (`bar(x=x)`) is the common idiom: preferred
            if kw_ok and (kw_started or rng.random() < (0.4 if p in self.global_universe else 0.15)):
                if p in self.global_universe:
                    self.tag("keyword_named_like_global")
                    if rng.random() < 0.5 and p in self.view["int"] and p not in self.shadow and p not in locs:
                        e = p                  # f(x=x)
                        if i == 0:
                            e = self.nonneg(e, 3)
                parts.append("%s=%s" % (p, e))
                kw_started = True
                self.tag("keyword_argument")
            else:
                parts.append(e)
        return ", ".join(parts)

    def call_expr(self, d, locs):
        rng = self.rng
        if self.ncalls >= 3:
            return None
        cands = [c for c in self.view["calls"]
                 if (c[0] is not None and (c[0] != "" or (c[1] not in self.shadow and c[1] not in locs))
                     and c[0].split(".")[0] not in self.shadow and c[0].split(".")[0] not in locs)
                 or (c[0] is None and c[1] not in self.shadow and c[1] not in locs)]
        if not cands:
            return None
        sh = [c for c in cands if c[1] in ALL_BUILTINS and c[0] in ("", None)]
        c = rng.choice(sh) if (sh and rng.random() < 0.5) else rng.choice(cands)
        prefix, name, sig, how = c
        self.ncalls += 1
        self.tag("call_" + how)
        if name in ALL_BUILTINS and prefix in ("", None):
            self.tag("uses_member_shadowing_builtin")
        target = name if prefix is None else prefix + name
        if prefix in ("", None) and rng.random() < 0.06:
            self.tag("parenthesised_global_name")
            target = "(%s)" % target
        return "%s(%s)" % (target, self.args_for(sig, d, locs))

    def item_expr(self, d, locs):
        rng = self.rng
        if self.ncalls >= 3:
            return None
        cands = [c for c in self.view["items"]
                 if c[0].split(".")[0] not in self.shadow and c[0].split(".")[0] not in locs]
        if not cands:
            return None
        sp, fparams, cs, how = rng.choice(cands)
        cn, sig = rng.choice(cs)
        self.ncalls += 1
        self.tag("item_" + how)
        nreq = len([1 for p, dflt in fparams if dflt is None])
        use = len(fparams) if rng.random() < 0.6 else nreq
        args = [self.nonneg(self.int_expr(d - 1, locs), 3) for _ in range(max(use, 1) if nreq else use)]
        if not args:
            inst = "%s()" % sp
        elif rng.random() < 0.5:
            inst = "%s[%s]" % (sp, ", ".join(args))
            self.tag("item_by_subscript")
        else:
            inst = "%s(%s)" % (sp, ", ".join(args))
        return "%s.%s(%s)" % (inst, cn, self.args_for(sig, d, locs, allow_kw=False))

    # ---- sequences

    def iter_expr(self, d, locs):
        rng = self.rng
        r = rng.random()
        if r < 0.55:
            return "range(%d)" % rng.randint(1, 3)
        if r < 0.75:
            return "range(%s)" % self.nonneg(self.int_expr(d - 1, locs), 3)
        return self.seq_expr(d - 1, locs)

    def seq_expr(self, d, locs):
        rng = self.rng
        self.budget -= 1
        ss = [x for x in self.view["seq"] if x[0] not in self.shadow and x[0] not in locs]
        if d <= 0 or self.budget <= 0 or self.flat:
            if ss and rng.random() < 0.6:
                self.tag("pickled_seq_ref")
                return rng.choice(ss)[0]
            return "(%s, %s)" % (self.g_int(locs), self.g_int(locs))
        forms = ["ref", "listcomp", "listcomp", "listcomp", "listcomp", "tuplegen", "filtered", "nested", "dictcomp", "setcomp",
                 "concat", "sorted", "map", "pair", "enum"]
        f = rng.choice(forms)
        if f == "ref" and ss:
            self.tag("pickled_seq_ref")
            return rng.choice(ss)[0]
        if f == "listcomp":
            self.tag("list_comprehension")
            v = self.comp_var(locs)
            it = self.comp_iter(v, d - 1, locs)
            body = self.with_shadow([v], lambda: self.int_expr(d - 1, locs + [v]))
            return "[%s for %s in %s]" % (body, v, it)
        if f == "tuplegen":
            self.tag("generator_expression")
            v = self.comp_var(locs)
            it = self.comp_iter(v, d - 1, locs)
            body = self.with_shadow([v], lambda: self.int_expr(d - 1, locs + [v]))
            return "tuple(%s for %s in %s)" % (body, v, it)
        if f == "filtered":
            self.tag("list_comprehension")
            self.tag("comprehension_condition")
            v = self.comp_var(locs)
            it = self.comp_iter(v, d - 1, locs)
            body, cond = self.with_shadow([v], lambda: (self.int_expr(d - 1, locs + [v]),
                                                        self.int_expr(d - 1, locs + [v])))
            return "[%s for %s in %s if %s != %s]" % (body, v, it, cond, self.lit())
        if f == "nested":
            self.tag("nested_comprehension")
            v = self.comp_var(locs)
            w = self.comp_var(locs + [v])
            body = self.with_shadow([v, w], lambda: self.int_expr(d - 1, locs + [v, w]))
            r = rng.random()
            if r < 0.35:
                return "[%s for %s in range(%d) for %s in range(%s + 1)]" % (body, v, rng.randint(1, 2), w, v)
            inner_it = self.with_shadow([v], lambda: self.nonneg(self.int_expr(d - 1, locs + [v]), 3))
            outer_it = self.comp_iter(v, 0, locs)
            if r < 0.7:
                return "[sum([%s for %s in range(%s)]) for %s in %s]" % (body, w, inner_it, v, outer_it)
            # a list of lists, flattened: the inner element / condition reads the outer variable
            self.tag("comprehension_condition")
            cond = self.with_shadow([v, w], lambda: self.int_expr(d - 1, locs + [v, w]))
            return "[e_ for l_ in [[%s for %s in range(%s) if %s != %s] for %s in %s] for e_ in l_]" % (
                body, w, inner_it, cond, self.lit(), v, outer_it)
        if f == "dictcomp":
            self.tag("dict_comprehension")
            v = self.comp_var(locs)
            body = self.with_shadow([v], lambda: self.int_expr(d - 1, locs + [v]))
            it = self.comp_iter(v, 0, locs)
            return "list({%s: %s for %s in %s}.values())" % (v, body, v, it) \
                if self.ok_builtin("list") else \
                "[vv for vv in {%s: %s for %s in %s}.values()]" % (v, body, v, it)
        if f == "setcomp" and self.ok_builtin("sorted"):
            self.tag("set_comprehension")
            v = self.comp_var(locs)
            body = self.with_shadow([v], lambda: self.int_expr(d - 1, locs + [v]))
            return "sorted({%s for %s in %s})" % (body, v, self.comp_iter(v, 0, locs))
        if f == "concat":
            a = self.seq_expr(d - 1, locs)
            b = self.seq_expr(d - 1, locs)
            if self.ok_builtin("list"):
                return "(list(%s) + list(%s))" % (a, b)
            return "([*%s] + [*%s])" % (a, b)
        if f == "sorted" and self.ok_builtin("sorted"):
            self.tag("real_builtin")
            return "sorted(%s)" % self.seq_expr(d - 1, locs)
        if f == "map" and self.ok_builtin("map") and self.ok_builtin("list"):
            self.tag("nested_lambda")
            self.tag("real_builtin")
            v = self.fresh_local(locs, allow_global_names=True)
            body = self.with_shadow([v], lambda: self.int_expr(d - 1, locs + [v]))
            return "list(map(lambda %s: %s, %s))" % (v, body, self.iter_expr(d - 1, locs))
        if f == "enum" and self.ok_builtin("enumerate"):
            self.tag("list_comprehension")
            self.tag("real_builtin")
            v = self.comp_var(locs)
            w = self.comp_var(locs + [v])
            body = self.with_shadow([v, w], lambda: self.int_expr(d - 1, locs + [v, w]))
            return "[%s for %s, %s in enumerate(%s)]" % (body, v, w, self.seq_expr(d - 1, locs))
        return "(%s, %s)" % (self.int_expr(d - 1, locs), self.int_expr(d - 1, locs))

    # ---- whole formula

    def result_expr(self, d, locs):
        """what the cells returns: mostly an int, sometimes a tuple / list / str / dict"""
        rng = self.rng
        r = rng.random()
        if not self.simple and rng.random() < (0.35 if self.mg.profile in ("syntax", "shadow") else 0.2):
            # on purpose: binders that shadow the formula's globals (comprehensions 1-3 deep, lambdas ...)
            e = self.scoped_expr(locs)
            if e:
                return e if self.mg.ret_int[self.cname] else "(%s, %s)" % (e, self.g_int(locs))
        if self.mg.ret_int[self.cname] or self.simple:
            return self.int_expr(d, locs)
        r = 0.6 + 0.4 * r
        if r < 0.75:
            return "(%s, %s)" % (self.int_expr(d - 1, locs), self.int_expr(d - 1, locs))
        if r < 0.9:
            e = self.seq_expr(d - 1, locs)
            return "tuple(%s)" % e if rng.random() < 0.5 else "[*%s]" % e
        if self.ok_builtin("str"):
            return "str(%s) + 'p'" % self.int_expr(d - 1, locs)
        return "{'r': %s}" % self.int_expr(d - 1, locs)

    def recursion_wrap(self, e, locs):
        """optionally add a self call with the first argument decremented, guarded"""
        rng = self.rng
        if not self.sig or rng.random() > 0.3 or self.cname in self.shadow or not self.mg.ret_int[self.cname]:
            return e, False
        p0 = self.sig[0][0]
        rest = ", ".join(self.g_int(locs) for _, dflt in self.sig[1:] if dflt is None or rng.random() < 0.5)
        call = "%s(%s - 1%s)" % (self.cname, p0, (", " + rest) if rest else "")
        self.tag("self_recursion")
        if self.cname in ALL_BUILTINS:
            self.tag("uses_member_shadowing_builtin")
        return "((%s + %s) if 0 < %s < 4 else %s)" % (call, self.int_expr(1, locs), p0, e), True

    def source(self):
        rng = self.rng
        locs = [p for p, _ in self.sig]
        d = 1 if self.simple else rng.choice([1, 2, 2, 3])
        style = rng.choice(["lambda", "lambda", "def", "def", "def_stmts"]) if not self.simple else "lambda"
        if self.mg.profile == "syntax" and rng.random() < 0.5:
            style = "def_stmts"
        if style == "lambda":
            self.tag("lambda_formula")
            e = self.result_expr(d, locs)
            if rng.random() < 0.5:
                e2, rec = self.recursion_wrap(self.int_expr(d - 1, locs), locs)
                if rec:
                    e = e2
            return "lambda %s: %s" % (params_src(self.sig), e)
        self.tag("def_formula")
        lines = ["def %s(%s):" % (self.cname, params_src(self.sig))]
        if style == "def":
            e = self.result_expr(d, locs)
            if rng.random() < 0.4:
                e2, rec = self.recursion_wrap(self.int_expr(d - 1, locs), locs)
                if rec:
                    e = e2
            lines.append("    return " + e)
            return "\n".join(lines)
        # statements: local assignments (names chosen up front: local in the WHOLE function),
        # nested def, for loop, early return
        self.tag("def_with_statements")
        nloc = rng.randint(1, 3)
        lnames = []
        for _ in range(nloc):
            nm = None
            if rng.random() < 0.3:
                cands = [n for n in (self.view["int"] + list(self.mg.cell_universe) + ["len", "max", "id"])
                         if n not in self.fn_locals and n != self.cname and n not in lnames]
                if cands:
                    nm = rng.choice(cands)
                    self.tag("local_named_like_a_global")
            if nm is None:
                cands = [n for n in ["t0", "t1", "acc", "tmp", "res"] if n not in lnames and n not in self.fn_locals]
                nm = rng.choice(cands)
            lnames.append(nm)
        inner_name = None
        if rng.random() < 0.45:
            cands = [n for n in ["inner", "helper", "h2"] + [c for c in self.mg.cell_universe if c != self.cname]
                     if n not in lnames and n not in self.fn_locals]
            inner_name = rng.choice(cands[:3]) if rng.random() < 0.8 else rng.choice(cands)
            if inner_name in self.mg.cell_universe:
                self.tag("local_named_like_a_global")
        self.fn_locals.update(lnames)
        self.shadow.update(lnames)
        if inner_name:
            self.fn_locals.add(inner_name)
            self.shadow.add(inner_name)
        avail = list(locs)
        for nm in lnames:
            kind = rng.random()
            if kind < 0.75:
                lines.append("    %s = %s" % (nm, self.int_expr(d, avail)))
            else:
                self.tag("for_loop")
                v = self.fresh_local(avail, allow_global_names=False)
                self.fn_locals.add(v)
                self.shadow.add(v)
                lines.append("    %s = %s" % (nm, self.lit()))
                lines.append("    for %s in %s:" % (v, self.iter_expr(d - 1, avail)))
                lines.append("        %s = %s + %s" % (nm, nm, self.int_expr(d - 1, avail + [v])))
            avail.append(nm)
        if rng.random() < 0.3:
            self.tag("early_return")
            lines.append("    if %s > %s:" % (self.g_int(avail), self.lit()))
            lines.append("        return %s" % self.int_expr(d - 1, avail))
        if inner_name:
            # nested def LAST among the scopes (see `source_triggers`); its parameter names may coincide
            # with global names, its default reads the enclosing scope
            self.tag("nested_def")
            p = self.fresh_local(avail, allow_global_names=True)
            q = self.fresh_local(avail + [p], allow_global_names=False)
            dflt = self.flat_int(d - 1, avail)
            body = self.with_shadow([p, q], lambda: self.int_expr(d, avail + [p, q]))
            lines.append("    def %s(%s, %s=%s):" % (inner_name, p, q, dflt))
            lines.append("        return %s" % body)
            e = "%s(%s)" % (inner_name, self.g_int(avail))
            if rng.random() < 0.5:
                e = "(%s + %s(%s, %s))" % (e, inner_name, self.g_int(avail), self.g_int(avail))
            final = e if self.mg.ret_int[self.cname] else "(%s, %s)" % (e, self.g_int(avail))
        else:
            final = self.result_expr(d, avail)
        if rng.random() < 0.3:
            e2, rec = self.recursion_wrap(self.g_int(avail), avail)
            if rec:
                final = "(%s + %s)" % (final, e2) if rng.random() < 0.5 else e2
        lines.append("    return " + final)
        return "\n".join(lines)


# ----------------------------------------------------------------------------- known triggers

K_BUILTIN_NAMED = "C15-builtin-named-space-or-param"
K_CELLS_SHADOWED = "C15-cells-shadowed-by-attr"
K_COMP_AFTER_SCOPE = "C15-py312-inlined-comprehension"
K_ATTR_SUBSCRIPT = "C15-attr-path-subscript"
K_FORMULA_REFS = "C15-formula-refs-ignored"
K_PAREN_NAME = "C15-parenthesised-global-name"
K_SCOPE_IN_DEFAULT = "C15-scope-order-mismatch"
K_MODEL_OBJREF = "C15-model-level-object-ref"
K_KEYWORD_GLOBAL = "C15-keyword-named-like-global"
K_NONFINITE = V.K_NONFINITE
K_STATIC_BUILTIN_PARAM = "C15-static-access-builtin-named-param"
K_PARAM_ZIP = "C15-param-named-zip"
K_NESTED_AUTO = "C15-nested-item-auto-ref"
K_CELLS_PARAM_VAL = "C15-cells-param-named-val"
# locals of the generated cache method: a cells parameter of that name breaks it
CACHE_TEMPLATE_LOCALS = ("val",)
# built-ins that the generated `__call__` of an ItemSpace uses by name: a parameter of that name breaks it
CALL_TEMPLATE_BUILTINS = ("zip",)



def _active_keys():
    """the trigger keys that still stand for a `status: known` finding; shapes of repaired findings are
    generated like any other shape"""
    import json as _json
    import os as _os
    path = _os.path.join(_os.path.dirname(_os.path.dirname(_os.path.dirname(_os.path.abspath(__file__)))),
                         "known_findings.json")
    try:
        fs = _json.load(open(path))["findings"]
    except Exception:       # noqa: BLE001
        return None
    return set(f.get("key") or f["id"] for f in fs if f.get("status") == "known")


_ACTIVE = _active_keys()


def _is_active(key):
    return _ACTIVE is None or key in _ACTIVE


def _only_active(keys):
    return keys if _ACTIVE is None else set(k for k in keys if k in _ACTIVE)


import re as _re
_PAREN_NAME = _re.compile(r"(?<![\w\)\]])\(\s*[A-Za-z_]\w*\s*\)")


def _func_node(src):
    tree = ast.parse(src.strip())
    node = tree.body[0]
    if isinstance(node, ast.Expr):
        node = node.value
    return node


def _globals_anywhere(src):
    import symtable
    code = ("_f_ = " + src.strip()) if is_lambda(src) else src
    top = symtable.symtable(code, "<formula>", "exec")
    res = set()

    def rec(t, is_top):
        if not is_top:
            res.update(s.get_name() for s in t.get_symbols() if s.is_global())
        for ch in t.get_children():
            rec(ch, False)
    rec(top, True)
    return res


def scope_shapes(src):
    """which of the scoping shapes the exporter has to get right occur in a formula (coverage bookkeeping):
      comp_var_global        a comprehension variable that is also a global name of the formula
      nested_outer_var_used  ... of a comprehension that contains another one DIRECTLY (no lambda / generator
                             expression between them) whose element / condition / later iterables read it
      nested_3_deep          the same, the reader two comprehensions further in
      bound_inner_global_outer  bound by an inner comprehension, read as a global by an enclosing one
      keyword_like_global    a keyword argument named like a global name of the formula
      parenthesised_global   a global name in its own parentheses"""
    res = set()
    try:
        fn = _func_node(src)
        gl = _globals_anywhere(src)
    except SyntaxError:
        return res
    comps = (ast.ListComp, ast.SetComp, ast.DictComp)
    barrier = (ast.Lambda, ast.FunctionDef, ast.GeneratorExp)

    def targets(c):
        return set(t.id for g in c.generators for t in ast.walk(g.target) if isinstance(t, ast.Name))

    def inner_parts(c):
        """the parts of comprehension c that are evaluated in c's own scope"""
        parts = [c.key, c.value] if isinstance(c, ast.DictComp) else [c.elt]
        for k, g in enumerate(c.generators):
            parts.extend(g.ifs)
            if k:
                parts.append(g.iter)
        return parts

    def walk_no_barrier(node, depth, bound, top):
        for ch in ast.iter_child_nodes(node):
            if isinstance(ch, barrier):
                continue
            if isinstance(ch, comps):
                tg = targets(ch)
                if depth >= 1:
                    reads = set(n.id for part in inner_parts(ch) for n in ast.walk(part)
                                if isinstance(n, ast.Name) and isinstance(n.ctx, ast.Load))
                    hit = (reads - tg) & bound & gl
                    if hit:
                        res.add("nested_outer_var_used")
                        if any(x in top for x in hit) and depth >= 2:
                            res.add("nested_3_deep")
                if tg & gl:
                    res.add("comp_var_global")
                # the first iterable belongs to the enclosing scope
                walk_no_barrier(ch.generators[0].iter, depth, bound, top)
                for part in inner_parts(ch):
                    walk_no_barrier(ast.Expression(part), depth + 1, bound | tg, top if depth else tg)
            else:
                walk_no_barrier(ch, depth, bound, top)
    walk_no_barrier(fn, 0, set(), set())
    for c in ast.walk(fn):
        if not isinstance(c, comps):
            continue
        # names bound by a comprehension nested in c's own parts ...
        inner_bound = set()
        for part in inner_parts(c):
            for n in ast.walk(part):
                if isinstance(n, comps):
                    inner_bound |= targets(n)
        if not inner_bound:
            continue
        # ... and read by c itself (outside every nested scope) as a global
        reads_here = set()
        stack = list(inner_parts(c))
        while stack:
            nd = stack.pop()
            if isinstance(nd, comps + barrier):
                continue
            if isinstance(nd, ast.Name) and isinstance(nd.ctx, ast.Load):
                reads_here.add(nd.id)
            stack.extend(ast.iter_child_nodes(nd))
        if (reads_here & inner_bound & gl) - targets(c):
            res.add("bound_inner_global_outer")
    kws = set(k.arg for n in ast.walk(fn) if isinstance(n, ast.Call) for k in n.keywords if k.arg)
    if kws & gl:
        res.add("keyword_like_global")
    for mo in _PAREN_NAME.finditer(src):
        if mo.group(0).strip("() \t") in gl:
            res.add("parenthesised_global")
    return res


def source_triggers(src, cells_names=()):
    """known-finding triggers recognisable from one formula's text (conservative)"""
    res = set()
    try:
        fn = _func_node(src)
    except SyntaxError:
        return res
    scopes = (ast.Lambda, ast.FunctionDef, ast.GeneratorExp)
    comps = (ast.ListComp, ast.SetComp, ast.DictComp)
    parents = {}
    for node in ast.walk(fn):
        for ch in ast.iter_child_nodes(node):
            parents[ch] = node

    def ancestors(n):
        res_ = []
        while n in parents:
            n = parents[n]
            res_.append(n)
        return res_

    def pos(n):
        return (n.lineno, n.col_offset)

    def end(n):
        return (n.end_lineno, n.end_col_offset)
    comp_nodes = [n for n in ast.walk(fn) if isinstance(n, comps)]
    scope_nodes = [n for n in ast.walk(fn) if isinstance(n, scopes) and n is not fn]
    for c in comp_nodes:
        anc = ancestors(c)
        first_iter = set(ast.walk(c.generators[0].iter))
        for s in scope_nodes:
            if s in anc or (c in ancestors(s) and s not in first_iter):
                continue
            if pos(s) < end(c):
                res.add(K_COMP_AFTER_SCOPE)
    for n in ast.walk(fn):
        if isinstance(n, ast.Subscript) and isinstance(n.value, ast.Attribute) and n.value.attr in cells_names:
            res.add(K_ATTR_SUBSCRIPT)
        if isinstance(n, (ast.Lambda, ast.FunctionDef)):
            for dv in list(n.args.defaults) + [x for x in n.args.kw_defaults if x is not None]:
                if any(isinstance(x, scopes + comps) for x in ast.walk(dv)):
                    res.add(K_SCOPE_IN_DEFAULT)
        if isinstance(n, ast.IfExp):
            if any(isinstance(x, scopes + comps) for x in ast.walk(n.body)) and \
                    any(isinstance(x, scopes + comps) for x in ast.walk(n.test)):
                res.add(K_SCOPE_IN_DEFAULT)
        if isinstance(n, ast.DictComp):
            # symtable visits the VALUE of a dict comprehension before its KEY, libcst the key first
            if any(isinstance(x, scopes) for x in ast.walk(n.key)) and \
                    any(isinstance(x, scopes) for x in ast.walk(n.value)):
                res.add(K_SCOPE_IN_DEFAULT)
    # a comprehension variable that is also a global name of the function (inlined comprehensions, 3.12+)
    try:
        gl = _globals_anywhere(src)
    except SyntaxError:
        gl = set()
    for c in comp_nodes:
        for gen in c.generators:
            for t in ast.walk(gen.target):
                if isinstance(t, ast.Name) and t.id in gl:
                    res.add(K_COMP_AFTER_SCOPE)
    if _PAREN_NAME.search(src):
        res.add(K_PAREN_NAME)
    kws = set(k.arg for n in ast.walk(fn) if isinstance(n, ast.Call) for k in n.keywords if k.arg)
    names = set(n.id for n in ast.walk(fn) if isinstance(n, ast.Name))
    if kws & names:
        res.add(K_KEYWORD_GLOBAL)
    return _only_active(res)


def query_triggers(desc, steps, src):
    """known-finding keys that depend on HOW the space of a query is reached: a parametrised space (or a space
    below one) reached WITHOUT an item step has no parameter values; a formula that reads a parameter named like
    a built-in gets the built-in in modelx and `self.<name>` (AttributeError) in the exported class"""
    from .exportworld import iter_spaces
    by_path = dict(iter_spaces(desc))
    unbound = set()
    path = ()
    for k, st in enumerate(steps):
        if "attr" not in st:
            continue
        path = path + (st["attr"],)
        sp = by_path.get(path)
        if sp is None:
            return set()
        f = sp.get("formula")
        if f and not (k + 1 < len(steps) and "item" in steps[k + 1]):
            if isinstance(f, str):
                try:
                    unbound.update(a.arg for a in _func_node(f).args.args)
                except SyntaxError:
                    pass
            else:
                unbound.update(p for p, _ in f)
        elif f:
            # bound at this level: an inner binding of the name hides an outer unbound one
            names = [p for p, _ in f] if not isinstance(f, str) else []
            unbound.difference_update(names)
    res = set()
    try:
        used = set(n.id for n in ast.walk(_func_node(src)) if isinstance(n, ast.Name)) if src else set()
    except SyntaxError:
        used = set()
    if any(n in ALL_BUILTINS and n in used for n in unbound):
        res.add(K_STATIC_BUILTIN_PARAM)
    # an item below an item, and the formula reads an auto reference that points out of the inner root but into an
    # outer one
    n_items = sum(1 for st in steps if "item" in st)
    if n_items >= 2 and used & nested_auto_refs(desc, path):
        res.add(K_NESTED_AUTO)
    return _only_active(res)


def nested_auto_refs(desc, path):
    """names of the references visible in the space at `path` (own, of enclosing spaces' bases: not followed) whose
    mode is auto, whose defining space has an innermost parametrised root R that lies inside another parametrised
    space, and whose target is outside R but inside an enclosing parametrised space"""
    from .exportworld import iter_spaces
    by_path = dict(iter_spaces(desc))
    path = tuple(path)
    roots = [path[:k] for k in range(1, len(path) + 1) if by_path.get(path[:k], {}).get("formula")]
    if len(roots) < 2:
        return set()
    inner, outers = roots[-1], roots[:-1]
    res = set()

    def collect(p, seen):
        sp = by_path.get(p)
        if sp is None or p in seen:
            return
        seen.add(p)
        for r in sp.get("refs", []):
            if r.get("mode", "auto") == "auto" and "obj" in r.get("val", {}):
                tp = tuple(r["val"]["obj"].split("."))
                if tp[:len(inner)] != inner and any(tp[:len(o)] == o for o in outers):
                    res.add(r["name"])
        for b in sp.get("bases", []):
            collect(tuple(b.split(".")), seen)
    collect(path, set())
    return res


def _visible_sources(sp, by_path):
    res, seen = [], set()

    def collect(s):
        res.extend(c["src"] for c in s.get("cells", []))
        for b in s.get("bases", []):
            bp = tuple(b.split("."))
            if bp in by_path and bp not in seen:
                seen.add(bp)
                collect(by_path[bp])
    collect(sp)
    return res


def desc_triggers(desc):
    """-> {space dotted path: set of known-finding keys} for a model description"""
    from .exportworld import iter_spaces
    res = {}
    gref_names = set(r["name"] for r in desc.get("grefs", []))
    all_cells = set()
    for path, sp in iter_spaces(desc):
        for c in sp.get("cells", []):
            all_cells.add(c["name"])
    by_path = {path: sp for path, sp in iter_spaces(desc)}
    model_keys = set()
    if any("obj" in r["val"] for r in desc.get("grefs", [])):
        model_keys.add(K_MODEL_OBJREF)
    # a reference (anywhere: the package is imported as a whole) whose value is a float that `repr`
    # does not write as a literal (nan, inf, -inf)
    all_refs = list(desc.get("grefs", [])) + [r for _p, sp in iter_spaces(desc) for r in sp.get("refs", [])]
    for r in all_refs:
        k = V.BY_ID.get(r["val"].get("kind")) if isinstance(r.get("val"), dict) else None
        if k is not None and k.known:
            model_keys.add(k.known)

    def inherited(sp, what, seen=None):
        seen = seen or set()
        names = set(x["name"] for x in sp.get(what, []))
        for b in sp.get("bases", []):
            bp = tuple(b.split("."))
            if bp in by_path and bp not in seen:
                seen.add(bp)
                names |= inherited(by_path[bp], what, seen)
        return names
    for path, sp in by_path.items():
        keys = set()
        cells = inherited(sp, "cells")
        refs = inherited(sp, "refs") | gref_names
        params = []
        for k in range(len(path), 0, -1):
            f = by_path[path[:k]].get("formula")
            if isinstance(f, str):
                try:
                    node = _func_node(f)
                    params += [a.arg for a in node.args.args]
                    body = node.body
                    if not (isinstance(body, ast.Constant) and body.value is None):
                        keys.add(K_FORMULA_REFS)
                except SyntaxError:
                    pass
            elif f:
                params += [p for p, _ in f]
        if any(n in CALL_TEMPLATE_BUILTINS for n in params):
            keys.add(K_PARAM_ZIP)
        for src in _visible_sources(sp, by_path):
            try:
                a = _func_node(src).args
                if any(x.arg in CACHE_TEMPLATE_LOCALS for x in a.args):
                    keys.add(K_CELLS_PARAM_VAL)
            except SyntaxError:
                pass
        children = set(c["name"] for c in sp.get("spaces", []))
        for n in set(params) | children:
            if n in ALL_BUILTINS and n not in refs and n not in cells:
                keys.add(K_BUILTIN_NAMED)
        for n in cells:
            if n in params or n in refs:
                keys.add(K_CELLS_SHADOWED)
        # formulas visible here (own and inherited)
        srcs = []

        def collect(s, seen):
            srcs.extend(c["src"] for c in s.get("cells", []))
            for b in s.get("bases", []):
                bp = tuple(b.split("."))
                if bp in by_path and bp not in seen:
                    seen.add(bp)
                    collect(by_path[bp], seen)
        collect(sp, set())
        for src in srcs:
            keys |= source_triggers(src, all_cells)
        res[".".join(path)] = _only_active(keys | model_keys)
    return res
