"""The "user's own library" of the C15 value-kind scenarios: classes whose instances are held by
references of generated models.  Stand-alone (imports nothing from the harness or modelx): the
exported package unpickles these instances in the modelx-free subprocess, where this file is
importable as the top-level module `c15_usertypes` (it sits next to export_runner.py, which is
run as a script); the harness process registers it under the same name (exportvals.py).

What matters about each class is how it relates to the types `Model.export` writes as source
literals (bool, int, float, str, None): strict subclasses of them whose `repr` is the one
inherited from the base type (a literal of the BASE type would be silently accepted), subclasses
with a `repr` that is not an expression, enum members (IntEnum/IntFlag/str-mixin: int / str
subclasses; plain Enum: not), and look-alikes that are not subclasses at all.
"""
import collections
import dataclasses
import enum


class Percent(float):
    """a rate: float subclass, inherited repr, own str and method"""

    def __str__(self):
        return format(self * 100, 'g') + '%'

    def of(self, x):
        return round(x * self, 4)

    def label(self):
        return 'rate ' + str(self)


class Cents(int):
    """an amount: int subclass, inherited repr, own str and method"""

    def __str__(self):
        return '%d.%02d' % divmod(int(self), 100)

    def of(self, x):
        return Cents(int(self) * x)

    def label(self):
        return 'amount ' + str(self)


class Tag(str):
    """str subclass, inherited repr, own method"""

    def of(self, x):
        return ('<%s>' % str(self)) * x

    def label(self):
        return 'tag ' + self.upper()


class Loud(int):
    """int subclass whose repr is not an expression"""

    def __repr__(self):
        return '<Loud %d>' % int(self)

    def of(self, x):
        return int(self) + x

    def label(self):
        return repr(self)


class Call(int):
    """int subclass whose repr is a constructor call (an expression, but of a name the generated
    module does not know)"""

    def __repr__(self):
        return 'Call(%d)' % int(self)

    def of(self, x):
        return int(self) - x

    def label(self):
        return repr(self)


class Flagged(int):
    """an int subclass whose instances carry state besides the number"""

    def __new__(cls, v, note=''):
        self = super().__new__(cls, v)
        self.note = note
        return self

    def __reduce__(self):
        return (Flagged, (int(self), self.note))

    def of(self, x):
        return '%s:%d' % (self.note, int(self) * x)

    def label(self):
        return self.note


class Color(enum.IntEnum):
    RED = 1
    GREEN = 2
    BLUE = 7


class Perm(enum.IntFlag):
    R = 4
    W = 2
    X = 1


class Plain(enum.Enum):
    A = 'a'
    B = 'b'


class Word(str, enum.Enum):
    HI = 'hi'
    BYE = 'bye'


class Level(float, enum.Enum):
    LOW = 0.25
    HIGH = 0.75


Pt = collections.namedtuple('Pt', 'x y')


@dataclasses.dataclass
class Rec:
    a: int
    b: float

    def of(self, x):
        return self.a * x + self.b

    def label(self):
        return 'rec %d' % self.a


def twice(x):
    return x * 2


if hasattr(enum, 'StrEnum'):
    class Unit(enum.StrEnum):
        KG = 'kg'
        LB = 'lb'
