"""Scenario family "a failure below an argument of any kind" (plain modelx, outside the formula grammar of execworld:
its values are integers).  Used by C05 (error carried, state consistent and retryable) and C17 (traceback = the
executing chain, usable).

Program of one scenario (JSON, replayable):

    base(k)            cached, = 3k: the element every formula of the chain completes BEFORE it calls on
    f(a)               THE CALLEE, cached or uncached, called with an argument of kind int / str / tuple (hashable) or
                       list / dict / set (unhashable: an uncached callee only - "uncached cells accept unhashable arguments")
    d1(a) .. dD(a)     D = 0..3 cells below it, each cached or uncached; an uncached one (and a cached one while the
                       argument is hashable) is handed the argument itself, a cached one below an unhashable argument its size
    the last of f, d1..dD fails when the size of its argument exceeds 2 - with an exception of the scenario's kind
    (raised, or arising naturally: n // 0, dict()[n], hash([n]), assert) - AFTER having completed base(n)
    top(n) / utop(n)   a cached / an uncached caller that BUILDS the argument of size n in its formula and hands it to f

History: a list of top-level calls [who, n] with who = "direct" (f itself, the argument built by the harness), "caller" or
"ucaller"; n > 2 fails, n <= 2 succeeds.  Oracle, from the definitions alone (spec_*):

 carry      the call raises FormulaError; get_error() is the original exception (type and args as the failing statement produces
            them outside modelx); the message names it
 traceback  get_traceback() returns; every entry can be repr()'d and str()'d; it lists (element, args, line) of the executing
            chain, outermost first, ending with the element that raised (args compared by equality)
 state      nothing is marked executing, all stacks are empty; no cached element of the failed chain holds a value;
            uncached cells hold nothing; everything held before is still held; every held value is the value its definition
            gives; the element nodes of the dependency graph are the held elements
 retry      every successful call returns what the definitions say, and the list of results of the successful calls equals
            the one of a fresh model in which the failing calls were never made
"""
import itertools
import re

from .impl import mx, quiet, close_all
from modelx.core.errors import FormulaError

SCENARIO = "arg-failure"
HASHABLE = ("int", "str", "tuple")
UNHASHABLE = ("list", "dict", "set")
TOPS = ("direct", "caller", "ucaller")
# suffix of the key of the known finding (the property's check prefixes its own id): an entry of get_traceback() that is a call
# of an uncached cells with an unhashable argument cannot be repr()'d
KNOWN_TB_REPR = "traceback-entry-unhashable-repr"


class UserErr(Exception):
    """a user-defined exception class (reached by the formulas through a reference)"""


class UserBaseErr(LookupError):
    """a user-defined subclass of a builtin exception, with its own __str__"""

    def __str__(self):
        return "user lookup failure %r" % (self.args,)


# kind -> the statement of the failing formula (n = size of the argument)
EXCS = {
    "ValueError": "raise ValueError('boom', n)",
    "ZeroDivisionError": "n // 0",
    "KeyError": "dict()[n]",
    "UserErr": "raise UserErr(n, 'user-defined')",
    "UserBaseErr": "raise UserBaseErr(n)",
    "TypeError": "hash([n])",
    "IndexError": "[][n]",
    "AssertionError": "assert n < 0, n",
}
_EXC_ENV = {"UserErr": UserErr, "UserBaseErr": UserBaseErr}

MK = {      # the argument of size n: value built by the harness / expression of the caller's formula
    "int": (lambda n: n, "n"),
    "str": (lambda n: "x" * n, "'x' * n"),
    "tuple": (lambda n: tuple(range(n)), "tuple(range(n))"),
    "list": (lambda n: list(range(n)), "list(range(n))"),
    "dict": (lambda n: dict.fromkeys(range(n), 7), "dict.fromkeys(range(n), 7)"),
    "set": (lambda n: set(range(n)), "set(range(n))"),
}


def mk(kind, n):
    return MK[kind][0](n)


def size_expr(kind):
    return "a" if kind == "int" else "len(a)"


def expected_exception(exc, n):
    """(type, args) of the exception the failing statement produces - obtained by running the statement outside modelx"""
    try:
        exec(EXCS[exc], dict(_EXC_ENV, n=n))
    except Exception as e:      # noqa: BLE001
        return type(e), e.args
    raise AssertionError("statement %r does not fail" % EXCS[exc])


def chain_cells(sc):
    """[{name, cached, kind (of the argument it receives), text, line}] for f, d1..dD (outermost first)"""
    flags = [sc["callee_cached"]] + list(sc["below"])
    names = ["f"] + ["d%d" % i for i in range(1, len(flags))]
    kinds = [sc["argkind"]]
    for c in flags[1:]:
        prev = kinds[-1]
        kinds.append(prev if (prev in HASHABLE or not c) else "int")
    cells = []
    for i, (name, cached, kind) in enumerate(zip(names, flags, kinds)):
        head = "def %s(a):\n    n = %s\n    b = base(n)\n" % (name, size_expr(kind))
        if i + 1 < len(names):
            passed = "a" if kinds[i + 1] == kind else "n"
            text, line = head + "    return %s(%s) + b + 1\n" % (names[i + 1], passed), 4
        else:
            text, line = head + "    if n > 2:\n        %s\n    return b + n\n" % EXCS[sc["exc"]], 5
        cells.append({"name": name, "cached": cached, "kind": kind, "text": text, "line": line})
    return cells


def top_text(name, argkind):
    return "def %s(n):\n    return f(%s) + 100\n" % (name, MK[argkind][1])


def spec_value(sc, who, n):
    depth = len(sc["below"])
    v = 4 * n + depth * (3 * n + 1)
    return v if who == "direct" else v + 100


def spec_chain(sc, who, n):
    ch = [(c["name"], (mk(c["kind"], n),), c["line"]) for c in chain_cells(sc)]
    if who != "direct":
        ch.insert(0, ({"caller": "top", "ucaller": "utop"}[who], (n,), 2))
    return ch


def spec_held(sc, name, key):
    """the value the definitions give to a held element (cached cells only hold hashable keys)"""
    if name == "base":
        return 3 * key[0]
    if name == "top":
        return spec_value(sc, "caller", key[0])
    cs = chain_cells(sc)
    i = next(k for k, c in enumerate(cs) if c["name"] == name)
    a = key[0]
    n = a if isinstance(a, int) else len(a)
    return 4 * n + (len(cs) - 1 - i) * (3 * n + 1)


def build(sc):
    m = mx.new_model("A")
    s = m.new_space("S")
    s.UserErr, s.UserBaseErr = UserErr, UserBaseErr
    s.new_cells("base", formula="def base(k):\n    return k * 3\n")
    # callees before callers is not required by modelx (names are resolved at call time); defined top-down on purpose
    for c in chain_cells(sc):
        s.new_cells(c["name"], formula=c["text"]).is_cached = c["cached"]
    s.new_cells("top", formula=top_text("top", sc["argkind"]))
    s.new_cells("utop", formula=top_text("utop", sc["argkind"])).is_cached = False
    return m, s


def call(sc, s, who, n):
    if who == "direct":
        return s.f(mk(sc["argkind"], n))
    return (s.top if who == "caller" else s.utop)(n)


def held(s):
    """{(cells name, key tuple): value} of everything held in the space"""
    return {(c.name, k): v for c in s.cells.values() for k, v in c._impl.data.items()}


def call_s(sc, who, n):
    if who == "direct":
        return "f(%r)" % (mk(sc["argkind"], n),)
    return "%s(%d)" % ("top" if who == "caller" else "utop", n)


def describe(sc):
    return "callee %s, argument %s, %d cells below (%s), failing with %s" % (
        "cached" if sc["callee_cached"] else "uncached", sc["argkind"], len(sc["below"]),
        "/".join("cached" if c else "uncached" for c in sc["below"]) or "the callee itself raises", sc["exc"])


def fresh_results(sc):
    """results of the successful calls in a model in which the failing calls are never made"""
    close_all()
    with quiet():
        m, s = build(sc)
        res = []
        for who, n in sc["calls"]:
            if n <= 2:
                try:
                    res.append(call(sc, s, who, n))
                except BaseException as e:      # noqa: BLE001
                    res.append("%s" % type(e).__name__)
    close_all()
    return res


def run_scenario(sc, fail, stats, aspects=("carry", "traceback", "state", "retry"), lines=True, fresh=True):
    """fail(what, history, aspect, key); returns True when nothing failed.  `history` is the scenario cut after the call."""
    ok = [True]

    def bad(aspect, what, k, key=None):
        ok[0] = False
        fail("%s [%s; history: %s]" % (what, describe(sc), " ".join(call_s(sc, w, x) for w, x in sc["calls"][:k + 1])),
             {x: v for x, v in dict(sc, calls=sc["calls"][:k + 1]).items() if x != "note"}, aspect, key)

    ex = mx.core.mxsys.executor
    close_all()
    results = []
    try:
        with quiet():
            m, s = build(sc)
            uncached = [c.name for c in s.cells.values() if not c._impl.is_cached]
            for k, (who, n) in enumerate(sc["calls"]):
                before = held(s)
                what = call_s(sc, who, n)
                stats["argfail_calls"] += 1
                try:
                    got = ("ok", call(sc, s, who, n))
                except FormulaError as e:
                    got = ("err", e)
                except BaseException as e:      # noqa: BLE001
                    got = ("other", e)
                if n <= 2:
                    results.append(got[1] if got[0] == "ok" else type(got[1]).__name__)
                    if "retry" in aspects and got != ("ok", spec_value(sc, who, n)):
                        bad("retry", "%s %s; by its definitions (and in a model without the earlier failures) it returns %d" % (
                            what, "returns %r" % (got[1],) if got[0] == "ok" else "raises %s(%s)" % (
                                type(got[1]).__name__, str(got[1])[:80]), spec_value(sc, who, n)), k)
                        return False
                else:
                    stats["argfail_failures_examined"] += 1
                    stats["argfail:%s/%s" % ("cached" if sc["callee_cached"] else "uncached", sc["argkind"])] += 1
                    etype, eargs = expected_exception(sc["exc"], n)
                    if "carry" in aspects:
                        if got[0] == "ok":
                            bad("carry", "%s returns %r; its chain raises %s" % (what, got[1], etype.__name__), k)
                            return False
                        if got[0] == "other":
                            bad("carry", "%s raises %s(%s) instead of FormulaError carrying the original %s%r" % (
                                what, type(got[1]).__name__, got[1], etype.__name__, eargs), k)
                            return False
                        orig = mx.get_error()
                        if type(orig) is not etype or orig.args != eargs:
                            bad("carry", "get_error() after %s is %r, not the original %s%r" % (what, orig, etype.__name__, eargs), k)
                            return False
                        if etype.__name__ not in str(got[1]):
                            bad("carry", "the FormulaError of %s does not mention the original %s: %r" % (
                                what, etype.__name__, str(got[1])[:200]), k)
                            return False
                    if "traceback" in aspects and got[0] != "ok":
                        want = spec_chain(sc, who, n)
                        try:
                            tb = mx.get_traceback()
                            listed = [(nd.obj.name, tuple(nd.args), ln) for nd, ln in tb]
                        except BaseException as e2:     # noqa: BLE001
                            bad("traceback", "get_traceback() after the failure of %s cannot be obtained: %s(%s)" % (
                                what, type(e2).__name__, e2), k)
                            return False
                        for nd, _ in tb:
                            try:
                                repr(nd), str(nd)
                            except BaseException as e2:     # noqa: BLE001
                                # known finding, recognised from the DEFINITIONS: the entry is a call of an UNCACHED cells
                                # with an unhashable argument and the failure is that of hashing it
                                known = (nd.obj.name in uncached and isinstance(e2, TypeError) and "unhashable" in str(e2)
                                         and any(type(a).__name__ in UNHASHABLE for a in nd.args))
                                bad("traceback", "the entry %s(%s) of get_traceback() after the failure of %s cannot be printed: "
                                    "repr() raises %s(%s)" % (nd.obj.name, ", ".join(map(repr, nd.args)), what,
                                                              type(e2).__name__, e2), k,
                                    key=KNOWN_TB_REPR if known else None)
                                if not known:
                                    return False
                                break
                        if not lines:
                            listed, want = [x[:2] for x in listed], [x[:2] for x in want]
                        if listed != want:
                            bad("traceback", "get_traceback() after %s = %r but the executing chain was %r" % (what, listed, want), k)
                            return False
                        if got[0] == "err":
                            frames = len(re.findall(r"^\d+: ", str(got[1]), re.M))
                            if frames != len(want):
                                bad("traceback", "the FormulaError of %s lists %d formula frames, the executing chain had %d" % (
                                    what, frames, len(want)), k)
                                return False
                    if "state" in aspects:
                        cs = ex.callstack
                        if len(cs) or len(cs.idxstack) or cs.counter or len(ex.refstack) or ex.is_executing:
                            bad("state", "executor not quiescent after the failure of %s: stack=%d idx=%d counter=%d refstack=%d "
                                "executing=%s" % (what, len(cs), len(cs.idxstack), cs.counter, len(ex.refstack), ex.is_executing), k)
                            return False
                        now = held(s)
                        for name, args, _ in spec_chain(sc, who, n):
                            if name not in uncached and (name, args) in now:
                                bad("state", "element %s%r of the failed chain of %s holds the value %r" % (
                                    name, args, what, now[(name, args)]), k)
                                return False
                        gone = sorted(repr(x) for x in before.items() if x not in now.items())
                        if gone:
                            bad("state", "values held before the failed call %s are gone or changed: %s" % (what, gone[:3]), k)
                            return False
                if "state" in aspects:
                    now = held(s)
                    for (name, key), v in sorted(now.items(), key=repr):
                        if name in uncached:
                            bad("state", "the uncached cells %s holds %r=%r after %s" % (name, key, v, what), k)
                            return False
                        if v != spec_held(sc, name, key):
                            bad("state", "%s%r holds %r after %s; its definition gives %r" % (
                                name, key, v, what, spec_held(sc, name, key)), k)
                            return False
                    elems = set()
                    for nd in m._impl.tracegraph.nodes:
                        if len(nd) > 1:        # (cells,) is the object node of an uncached cells
                            elems.add((nd[0].name, nd[1]))
                    if elems != set(now):
                        bad("state", "after %s the element nodes of the dependency graph differ from the held elements: only in "
                            "the graph %s, only held %s" % (what, sorted(map(repr, elems - set(now)))[:3],
                                                            sorted(map(repr, set(now) - elems))[:3]), k)
                        return False
    finally:
        close_all()
    if fresh and "retry" in aspects and 0 < len(results) < len(sc["calls"]):
        stats["argfail_fresh_model_comparisons"] += 1
        fr = fresh_results(sc)
        if fr != results:
            ok[0] = False
            fail("the successful calls of the history return %r, in a fresh model without the failing calls %r [%s; history: %s]" % (
                results, fr, describe(sc), " ".join(call_s(sc, w, x) for w, x in sc["calls"])), sc, "retry", None)
    return ok[0]


def history(rng, tops=None):
    """every way of making the top-level call, in an order the seed decides: fail, succeed (same call, smaller argument),
    then everything again - retry of the failures, the successes now partly held"""
    tops = list(tops or TOPS)
    rng.shuffle(tops)
    calls = []
    for t in tops:
        calls += [[t, rng.choice([3, 4])], [t, rng.choice([1, 2])]]
    calls += [[t, 3] for t in tops] + [[t, rng.choice([0, 1, 2])] for t in tops] + [[rng.choice(tops), 4]]
    return calls


def structures():
    """callee kind x argument kind (a cached callee: hashable kinds) x depth 0..3 x every cached/uncached assignment below"""
    for cc in (False, True):
        for ak in (HASHABLE + UNHASHABLE if not cc else HASHABLE):
            for depth in range(4):
                for below in itertools.product((True, False), repeat=depth):
                    yield cc, ak, list(below)


def scenarios(ctx, n_random):
    """the whole product of structures() on every run, the exception kind rotating with the seed; plus random scenarios
    (structure, kind, history all from the seed)"""
    out = []
    kinds = sorted(EXCS)
    for i, (cc, ak, below) in enumerate(structures()):
        rng = ctx.rng("argfail", i)
        out.append({"scenario": SCENARIO, "callee_cached": cc, "argkind": ak, "below": below,
                    "exc": kinds[(i + ctx.seed) % len(kinds)], "calls": history(rng)})
    st = list(structures())
    for i in range(n_random):
        rng = ctx.rng("argfail-random", i)
        cc, ak, below = rng.choice(st)
        tops = [rng.choice(TOPS) for _ in range(rng.randrange(1, 4))]
        calls = [[rng.choice(tops), rng.randrange(0, 5)] for _ in range(rng.randrange(2, 9))]
        out.append({"scenario": SCENARIO, "callee_cached": cc, "argkind": ak, "below": below,
                    "exc": rng.choice(kinds), "calls": calls})
    return out


def shrink(sc, still_fails):
    """smallest history / structure on which the same aspect still fails (greedy)"""
    cur = dict(sc)
    changed = True
    while changed:
        changed = False
        for i in range(len(cur["calls"])):
            cand = dict(cur, calls=cur["calls"][:i] + cur["calls"][i + 1:])
            if cand["calls"] and still_fails(cand):
                cur, changed = cand, True
                break
        if not changed and cur["below"]:
            for cand in (dict(cur, below=cur["below"][:-1]), dict(cur, below=cur["below"][1:])):
                if still_fails(cand):
                    cur, changed = cand, True
                    break
    return cur


CORPUS_EXT = ".scenario"      # corpus/<prop>/*.scenario: witnesses of this family (JSON; `*.json` there are execworld cases)


def load_corpus(prop):
    import json
    import os
    from . import core
    d = os.path.join(core.CORPUS_DIR, prop)
    res = []
    if os.path.isdir(d):
        for f in sorted(os.listdir(d)):
            if f.endswith(CORPUS_EXT):
                sc = json.load(open(os.path.join(d, f)))
                if sc.get("scenario") == SCENARIO:
                    res.append(sc)
    return res


def run_all(ctx, out, stats, prop, aspects, lines=True, n_random=30, fresh_every=3):
    """corpus witnesses, the product of structures(), random scenarios.  Every distinct (aspect, known?) failure is shrunk
    and reported once; a known finding is keyed `<prop>-<suffix>` and does not stop the examination of the scenario."""
    import collections
    reported = set()
    unknown = 0
    scs = load_corpus(prop)
    stats["argfail_corpus"] += len(scs)
    ncorpus = len(scs)
    scs += scenarios(ctx, n_random)
    for i, sc in enumerate(scs):
        got = []
        stats["argfail_scenarios"] += 1
        run_scenario(sc, lambda w, h, a, key: got.append((w, h, a, key)), stats, aspects, lines,
                     fresh=i < ncorpus or (i + ctx.seed) % fresh_every == 0)
        for what, hist, aspect, key in got:
            if (aspect, key) in reported:
                continue
            reported.add((aspect, key))

            def still(cand, aspect=aspect, key=key):
                g = []
                run_scenario(cand, lambda w, h, a, k2: g.append((a, k2)), collections.Counter(), aspects, lines)
                return (aspect, key) in g
            small = shrink(hist, still)
            g = []
            run_scenario(small, lambda w, h, a, k2: g.append((w, h, a, k2)), collections.Counter(), aspects, lines)
            w2, h2 = next(((w, h) for w, h, a, k2 in g if (a, k2) == (aspect, key)), (what, hist))
            out.fail(w2, h2, detail={"family": SCENARIO, "aspect": aspect}, key="%s-%s" % (prop, key) if key else None)
            if not key:
                unknown += 1
        if unknown >= 3:
            break


def replay(payload_history, out, prop, aspects, lines=True):
    import collections
    run_scenario(payload_history, lambda w, h, a, key: out.fail(w, h, detail={"family": SCENARIO, "aspect": a},
                                                                 key="%s-%s" % (prop, key) if key else None),
                 collections.Counter(), aspects, lines)
