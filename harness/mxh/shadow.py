"""Harness-side ground truth that does not use modelx's own bookkeeping:

* `real_chain(exc)` – the chain of formula frames in the Python traceback of the exception
  that escaped (cells id, arguments, line within the rendered def);
* `CallRecorder` – a shadow call tree recorded by a wrapper around every call a rendered
  formula makes (used by the C08 oracle to say which calls a formula really made).
"""
import re

_CODE = re.compile(r"^c(\d+)$")


def real_chain(exc, codes=None):
    """[(cid, key tuple, lineno)] outermost first, from exc.__traceback__

    Formula frames are recognised by the name of the rendered def (`c<i>`), or – with `codes`, a dict
    {id(code object of a formula): cid} – by the identity of the code object that is running (needed for
    formulas given as lambdas, whose frames are all called `<lambda>`; identity, because code objects
    compiled from equal lambda sources compare equal)."""
    res = []
    tb = exc.__traceback__
    while tb is not None:
        fr = tb.tb_frame
        m = _CODE.match(fr.f_code.co_name)
        if codes is not None:
            cid = codes.get(id(fr.f_code))
            m = cid is not None
        if m and "modelx" not in fr.f_code.co_filename.replace("\\", "/").split("/")[-2:-1]:
            if codes is None:
                cid = int(m.group(1))
            n = fr.f_code.co_argcount
            key = tuple(fr.f_locals.get("a%d" % i) for i in range(n))
            res.append((cid, key, tb.tb_lineno - fr.f_code.co_firstlineno + 1))
        tb = tb.tb_next
    return res


class Instance:
    __slots__ = ("elem", "calls", "ok", "reads")

    def __init__(self, elem):
        self.elem = elem
        self.calls = []      # (callee elem, ok, callee Instance or None for a cache hit)
        self.ok = None
        self.reads = []      # (kind "rn" | "ra" | "rg", reference id, form) of every reference read that returned


class CallRecorder:
    """Shadow call tree.  `zlog` is the first statement of every rendered formula (a new
    execution instance starts); `zc` wraps every call a formula makes."""

    def __init__(self):
        self.stack = []          # instances being executed
        self.last_ok = {}        # elem -> last Instance that completed successfully
        self.pending = None

    def reset_top(self):
        self.stack = []
        self.pending = None

    def zlog(self, cid, key):
        inst = Instance((cid, tuple(key)))
        self.stack.append(inst)
        self.pending = inst

    def zr(self, kind, rid, form, value):
        """wraps every reference read of a rendered formula (the read itself is made by the formula: this is called
        with its result)"""
        if self.stack:
            self.stack[-1].reads.append((kind, rid, form))
        return value

    def own_reads(self, elem):
        """the reference reads the element's own formula made when it computed the value it holds"""
        inst = self.last_ok.get(elem)
        return None if inst is None else list(inst.reads)

    def zc(self, caller, cparams, callee, f, args):
        parent = self.stack[-1] if self.stack else None
        depth = len(self.stack)
        self.pending = None
        try:
            v = f(*args)
        except BaseException:
            inst = self.stack[depth] if len(self.stack) > depth else None
            del self.stack[depth:]
            if inst is not None:
                inst.ok = False
            if parent is not None:
                parent.calls.append(((callee, tuple(args)), False, inst))
            raise
        inst = self.stack[depth] if len(self.stack) > depth else None
        del self.stack[depth:]
        if inst is not None:
            inst.ok = True
            self.last_ok[inst.elem] = inst
        if parent is not None:
            parent.calls.append(((callee, tuple(args)), True, inst))
        return v

    def top_done(self, ok):
        """call after a top-level evaluation returns/raises"""
        if self.stack:
            inst = self.stack[0]
            inst.ok = ok
            if ok:
                self.last_ok[inst.elem] = inst
        self.stack = []

    def expected_preds(self, elem, cached):
        """graph predecessors the property demands for a cached element computed by its last
        successful instance: cached callees that returned a value; for uncached callees the
        cells itself ('c*') plus, transitively, what that execution reached"""
        inst = self.last_ok.get(elem)
        if inst is None:
            return None
        res = set()

        def through(i):
            for (callee, ok, sub) in i.calls:
                if not ok:
                    continue
                if cached(callee[0]):
                    res.add(("elem", callee))
                else:
                    res.add(("obj", callee[0]))
                    if sub is not None:
                        through(sub)
        through(inst)
        return res
