"""Tie between the real session (several models, ONE IOManager) and the Lean kernel `MxModel.IOSession`
(driver layer `iosession`): a `Shadow` rides along a session of the real modelx, records for every operation
that touches references to file-backed values / the IOManager the corresponding model operation with the
library's answer, and after every operation the observation both sides must agree on:

  for every model ever handed out (open or closed; a failed load counts, with nothing): `iospecs`, each as
  `<group>:<path>#<sheet>{own names bound to the value}`, sorted; then the keys of `IOManager.ios` with the number
  of specs of each file object, sorted.  group = creation index of the model or `-` (None); paths relative to the
  session's temp dir (`A:` absolute, `R:` relative).

Used by props/c19.py (every registry session) and props/c14.py (`failed_load_family`: loads that fail after the
IOSpecs were read, next to models that keep data in external files).
"""
import os
import shutil
import tempfile

import pandas as pd

from . import core
from .impl import mx, close_all, quiet, err_kind


class Shadow:
    def __init__(self, tmp):
        self.tmp = tmp
        self.lines = ["reset"]
        self.answers = ["ok"]
        self.index = [-1]           # history index of every line
        self.models = []            # creation index -> Model interface (None: failed load)
        self.vals = {}              # id(object) -> value number
        self.keep = []              # the objects, so that no id is reused
        self.nval = 0
        self.k = 0                  # index of the current operation of the history

    # ---- values, paths
    def fresh(self):
        self.nval += 1
        return self.nval

    def val(self, obj, number=None):
        if id(obj) not in self.vals:
            self.vals[id(obj)] = self.fresh() if number is None else number
            self.keep.append(obj)
        return self.vals[id(obj)]

    def path(self, p):
        p = str(p)
        if os.path.isabs(p):
            return "A:" + os.path.relpath(p, self.tmp).replace(os.sep, "/")
        return "R:" + p.replace(os.sep, "/")

    def index_of(self, interface):
        for i, m in enumerate(self.models):
            if m is not None and m._impl is interface._impl:
                return i
        return None

    # ---- recording
    def op(self, line, answer):
        self.lines.append(line)
        self.answers.append(answer)
        self.index.append(self.k)

    def new_model(self, m):
        self.models.append(m)
        self.op("newmodel", "ok %d" % (len(self.models) - 1))

    def close(self, i):
        if i < len(self.models):
            self.op("close %d" % i, "ok")

    def new_spec(self, i, owner, name, path, multi, sheet, create):
        """`create()` performs new_pandas / new_module / new_excel_range and returns the value that is bound"""
        v = self.fresh()
        line = "newspec %d %s.%s %s %d %s %d" % (i, owner, name, self.path(path), 1 if multi else 0, sheet or "-", v)
        try:
            obj = create()
        except RuntimeError as e:
            self.op(line, "err closedModel" if "is closed" in str(e) else "err " + err_kind(e))
            raise
        except ValueError as e:
            self.op(line, "err cannotAdd" if "cannot add spec" in str(e) else "err " + err_kind(e))
            raise
        except Exception as e:
            self.op(line, "err " + err_kind(e))
            raise
        if id(obj) in self.vals:          # an object the session already knows
            line = line.rsplit(" ", 1)[0] + " %d" % self.vals[id(obj)]
        else:
            self.val(obj, v)
        self.op(line, "ok")
        return obj

    def bind(self, i, owner, name, obj):
        self.op("bind %d %s.%s %d" % (i, owner, name, self.val(obj)), "ok")

    def unbind(self, i, owner, name):
        self.op("unbind %d %s.%s" % (i, owner, name), "ok")

    def load(self, items, read):
        """items: (owner.name, path, multi, sheet, bound); `read()` performs read_model and returns the model.
        Values of a load are new objects: numbered here, attached to the objects when the load succeeds."""
        nums = [self.fresh() for _ in items]
        text = ";".join("%s,%s,%d,%s,%d,%d" % (n, self.path(p), 1 if mu else 0, sh or "-", v, 1 if b else 0)
                        for (n, p, mu, sh, b), v in zip(items, nums)) or "-"
        self.models.append(None)
        try:
            m = read()
        except Exception:
            self.op("load 0 " + text, "err loadFailed")
            raise
        self.models[-1] = m
        for (n, p, mu, sh, b), v in zip(items, nums):
            owner, name = n.split(".")
            par = m.spaces[owner] if owner else m
            self.val(getattr(par, name), v)
        self.op("load 1 " + text, "ok %d" % (len(self.models) - 1))
        return m

    # ---- observation of the implementation
    def observe(self):
        iom = mx.core.mxsys.iomanager
        keyof = {id(io): key for key, io in iom.ios.items()}
        parts = []
        for i, m in enumerate(self.models):
            shown = []
            if m is not None:
                named = [("", k, r.interface) for k, r in m._impl.own_refs.items() if k != "__builtins__"]
                for sn, s in m._impl.spaces.items():
                    named.extend((sn, k, r.interface) for k, r in s.own_refs.items())
                for sp in m._impl.refmgr.specs:
                    group, path = keyof.get(id(sp.io), ("?", sp.io.path))
                    sheet = getattr(sp, "sheet", None) if type(sp).__name__ == "PandasData" else None
                    names = sorted("%s.%s" % (sn, k) for sn, k, v in named if v is sp.value)
                    shown.append("%s:%s#%s{%s}" % (self.group(group), self.path(path), sheet or "-", ",".join(names)))
            parts.append("m%d=[%s]" % (i, " ".join(sorted(shown))))
        keys = sorted("%s:%s#%d" % (self.group(g), self.path(p), len(io.specs)) for (g, p), io in iom.ios.items())
        self.op("obs", " ".join(parts) + " | ios=[" + " ".join(keys) + "]")

    def group(self, g):
        if g is None:
            return "-"
        if g == "?":
            return "?"
        i = self.index_of(g)
        return "?" if i is None else str(i)

    # ---- comparison
    def compare(self, out, history, stats=None):
        got = core.run_driver("iosession", self.lines)
        if stats is not None:
            stats["iosession_lines"] = stats.get("iosession_lines", 0) + len(self.lines)
            stats["iosession_obs"] = stats.get("iosession_obs", 0) + self.lines.count("obs")
            for ln in self.lines:
                w = ln.split(" ")[0]
                if w not in ("obs", "reset"):
                    stats["iosession_op:" + w] = stats.get("iosession_op:" + w, 0) + 1
        for j, (a, b) in enumerate(zip(self.answers, got)):
            if a.rstrip() != b.rstrip():
                out.disagree(history, self.index[j], "%s -> %s" % (self.lines[j], a), b, layer="iosession")
                return False
        return True


def corpus_histories(prop):
    """minimised witnesses of the tie (corpus/<prop>/iosession/*.json, run first)"""
    import json
    d = os.path.join(core.CORPUS_DIR, prop, "iosession")
    res = []
    if os.path.isdir(d):
        for f in sorted(os.listdir(d)):
            if f.endswith(".json"):
                res.append(json.load(open(os.path.join(d, f)))["history"])
    return res


# ----------------------------------------------------------------------------- self test of the tie

def self_test():
    """the driver's seeded variants differ from the model on the two minimal sessions (so a comparison that
    agrees on everything cannot be an observation that sees nothing)"""
    base = ["reset", "newmodel", "newmodel", "newspec 0 S.a A:x/a.csv 0 - 1", "newspec 1 S.a R:a.csv 0 - 2"]
    a = core.run_driver("iosession", base + ["close 1", "obs"])[-1]
    b = core.run_driver("iosession", base + ["closeMutG 1", "obs"])[-1]
    c = core.run_driver("iosession", base + ["load 0 S.d,R:d.csv,0,-,3,0", "obs"])[-1]
    d = core.run_driver("iosession", base + ["loadMutG S.d,R:d.csv,0,-,3,0", "obs"])[-1]
    return a != b and c != d and "A:x/a.csv" in a and "A:x/a.csv" in c


# ----------------------------------------------------------------------------- C14: loads that fail late

def _frame(i):
    df = pd.DataFrame({"a": [i, i + 1, i + 2], "b": [10 * i, 5, 7]})
    df.index.name = "k"
    return df


def _module_source(tmp):
    p = os.path.join(tmp, "modsrc.py")
    if not os.path.exists(p):
        with open(p, "w") as f:
            f.write("def twice(x):\n    return 2 * x\n")
    return p


def _saved(tmp, tag, external, damage):
    """write a model with a relative csv, a relative module and (external) a csv under an absolute path of its
    own, close it, then damage the save: `data` = `_data/data.pickle` is garbage (the load fails AFTER the IOSpecs
    were read, before any value is bound); `none` = intact.  -> (path, items)"""
    with quiet():
        m = mx.new_model("Zs" + tag)
        s = m.new_space("S")
        s.new_cells("f", formula="lambda x: x + 1")
        s.y = 3
        s.new_pandas("df", "data/df.csv", _frame(7), file_type="csv")
        m.new_module("mod", "mod/mod.py", _module_source(tmp))
        items = [("S.df", "data/df.csv", False, None), (".mod", "mod/mod.py", False, None)]
        if external:
            ext = os.path.join(tmp, "ext_saved_" + tag, "e.csv")
            s.new_pandas("edf", ext, _frame(8), file_type="csv")
            items.append(("S.edf", ext, False, None))
        path = os.path.join(tmp, "saved_" + tag)
        m.write(path)
        m.close()
    if damage == "data":
        with open(os.path.join(path, "_data", "data.pickle"), "wb") as f:
            f.write(b"\x00garbage")
    return path, items


def run_load_session(plan, out, stats):
    """plan: {"bystanders": [[io kinds…], …], "external": bool, "damage": "data"|"none", "then": [...]}"""
    close_all()
    iom = mx.core.mxsys.iomanager
    iom.ios.clear()
    iom.ios.inverse.clear()
    tmp = os.path.realpath(tempfile.mkdtemp(prefix="mxh_ios_"))
    history = [plan]
    try:
        path, items = _saved(tmp, "0", plan["external"], plan["damage"])
        iom.ios.clear()
        iom.ios.inverse.clear()
        sh = Shadow(tmp)
        for j, kinds in enumerate(plan["bystanders"]):
            with quiet():
                m = mx.new_model("By%d" % j)
                s = m.new_space("S")
            sh.new_model(m)
            sh.observe()
            for n, kind in enumerate(kinds):
                nm = "io%d" % n
                try:
                    with quiet():
                        _give(sh, tmp, m, j, nm, kind)
                except Exception:
                    pass
                sh.observe()
        for step in ["load"] + list(plan.get("then", [])):
            sh.k += 1
            try:
                with quiet():
                    if step == "load":
                        ok = plan["damage"] == "none"
                        sh.load([(n, p, mu, shn, ok) for n, p, mu, shn in items], lambda: mx.read_model(path))
                    elif step == "reload":
                        ok = plan["damage"] == "none"
                        sh.load([(n, p, mu, shn, ok) for n, p, mu, shn in items], lambda: mx.read_model(path))
                    elif step.startswith("close"):
                        i = int(step[5:])
                        if i < len(sh.models) and sh.models[i] is not None:
                            sh.models[i].close()
                        sh.close(i)
            except Exception:
                pass
            sh.observe()
            stats["load_sessions_steps"] = stats.get("load_sessions_steps", 0) + 1
        sh.compare(out, history, stats)
    finally:
        close_all()
        iom.ios.clear()
        iom.ios.inverse.clear()
        shutil.rmtree(tmp, ignore_errors=True)


def _give(sh, tmp, m, j, nm, kind):
    s = m.S
    ext = lambda f: os.path.join(tmp, "ext_m%d" % j, f)
    if kind == "rel":
        sh.new_spec(j, "S", nm, "data/%s.csv" % nm, False, None,
                    lambda: s.new_pandas(nm, "data/%s.csv" % nm, _frame(1), file_type="csv"))
    elif kind == "abs":
        sh.new_spec(j, "S", nm, ext(nm + ".csv"), False, None,
                    lambda: s.new_pandas(nm, ext(nm + ".csv"), _frame(2), file_type="csv"))
    elif kind == "book":
        sh.new_spec(j, "S", nm, ext("book.xlsx"), True, nm,
                    lambda: s.new_pandas(nm, ext("book.xlsx"), _frame(3), file_type="excel", sheet=nm))
    elif kind == "mod":
        sh.new_spec(j, "", nm, ext(nm + ".py"), False, None,
                    lambda: m.new_module(nm, ext(nm + ".py"), _module_source(tmp)))


def failed_load_family(ctx, out, stats):
    """sessions for C14: 0-3 open models with data in files (relative, external csv, external workbook sheets,
    external module), then a load that fails after the IOSpecs were read (or succeeds), then closes / a second load"""
    kinds = ["rel", "abs", "book", "mod"]
    plans = [h[0] for h in corpus_histories("C14")] + [
        {"bystanders": [["rel", "abs"], ["book", "book", "mod"]], "external": True, "damage": "data", "then": ["close0"]},
        {"bystanders": [], "external": True, "damage": "data", "then": ["reload"]},
        {"bystanders": [["abs"], ["abs"]], "external": False, "damage": "none", "then": ["close2", "close0"]},
    ]
    for i in range(ctx.n(8, 60)):
        rng = ctx.rng("iosession-load", i)
        nby = rng.randrange(0, 4)
        plans.append({
            "bystanders": [[rng.choice(kinds) for _ in range(rng.randrange(1, 4))] for _ in range(nby)],
            "external": rng.random() < 0.5,
            "damage": "data" if rng.random() < 0.75 else "none",
            "then": [rng.choice(["close%d" % rng.randrange(0, nby + 1), "reload"]) for _ in range(rng.randrange(0, 3))],
        })
    for p in plans:
        run_load_session(p, out, stats)
    stats["load_sessions"] = len(plans)
