"""Correspondence of the reference STATE MACHINE (Kernels/RelativeHist.lean, driver layer `relhist`) with modelx:
one model operation per edit of a history, accept / refuse compared, and after every edit EVERY derived reference
of every space (mode, bound object or null object or plain value, the flag `is_relative`) compared with the state
the machine reached by itself - unlike the `relative` layer, which is asked about the world modelx reports after
every operation.  The theorem `C10.derived_refs_always_rebound` is about this machine.

Vocabulary: new_space (with bases), new cells, deletion of a cells, set_ref (new / changed / overriding a derived
one; objects and ints; three modes), del_ref, add_bases / remove_bases of ONE base.  Everything else that changes
spaces or references (deletion / renaming of spaces, renaming of cells, several bases at once, constructor
references, write / read) ends the correspondence of the history there; operations that change neither (formulas,
parameters, ItemSpaces, evaluation, model-level references) are skipped.  A refusal of modelx is compared only when it is the one
the machine knows (a `relative` reference out of scope); other refusals (name clashes: C12, inconsistent
hierarchies: C11) leave both sides unchanged and are not sent."""
from . import core
from . import structworld as W
from modelx.core.base import Interface

SKIP = {"params", "noparams", "item", "evalrefs", "set_mref", "del_mref", "eval", "set_cached"}
SCOPE_TEXT = ("Relative reference", "Cannot create relative reference")


def _tgt(v):
    if isinstance(v, Interface):
        if v._is_valid():
            return "obj:" + v._impl.idstr
        return "null"
    if isinstance(v, bool) or not isinstance(v, int):
        return None
    return "plain:%d" % v


def impl_refs(model):
    """every derived reference of every space, as the driver prints them; None if something cannot be described"""
    rows = []
    for path, s in W.all_spaces(model):
        for name, r in s._impl.own_refs.items():
            if not r.is_derived():
                continue
            t = _tgt(r.interface)
            if t is None:
                return None
            flag = "-" if t.startswith("plain") else ("R" if r.is_relative else "A")
            rows.append("%s.%s %s %s %s" % (path, name, r.refmode, t, flag))
    return " | ".join(sorted(rows))


class HistCorr:
    def __init__(self):
        self.lines = ["reset"]
        self.expect = [None]
        self.where = [None]
        self.alive = True
        self.ended = None
        self.compared = 0
        self.ops_sent = 0

    def stop(self, k, why):
        if self.alive:
            self.alive = False
            self.ended = (k, why)

    def _emit(self, line, expect, k):
        self.lines.append(line)
        self.expect.append(expect)
        self.where.append(k)

    def after(self, live, k, op, result):
        if not self.alive:
            return
        kind = op[0]
        if kind in SKIP:
            return
        acc = not result.startswith("err")
        line = None
        try:
            if kind == "new_space":
                if len(op) > 4 and op[4]:
                    return self.stop(k, "ctor-refs")
                line = "newspace %s %s %s -" % (op[1], op[2], ",".join(op[3]) if op[3] else "-")
            elif kind in ("cells", "usecells", "getcells", "new_cells"):
                line = "newcells %s %s" % (op[1], op[2])
            elif kind in ("set_src", "set_formula"):
                # a formula assigned to a derived cells defines it in that space (an override): the machine is told
                # that the space has the cells itself; when it has it already the line is refused and nothing changes
                if acc:
                    self._emit("newcells %s %s" % (op[1], op[2]), None, k)
                return
            elif kind == "del_cells":
                line = "delcells %s %s" % (op[1], op[2])
            elif kind == "set_ref":
                v = op[3]
                mode = op[4] if len(op) > 4 else "auto"
                if isinstance(v, (tuple, list)) and v and v[0] == "obj":
                    line = "setref %s %s obj %s %s" % (op[1], op[2], v[1], mode)
                elif isinstance(v, int) and not isinstance(v, bool):
                    line = "setref %s %s plain %d %s" % (op[1], op[2], v, mode)
                else:
                    return self.stop(k, "value")
            elif kind == "del_ref":
                line = "delref %s %s" % (op[1], op[2])
            elif kind in ("add_bases", "remove_bases"):
                if len(op[2]) != 1:
                    return self.stop(k, kind + "-several")
                line = "%s %s %s" % ("addbase" if kind == "add_bases" else "rmbase", op[1], op[2][0])
            else:
                return self.stop(k, kind)
        except Exception:   # noqa  (malformed op)
            return self.stop(k, "malformed")
        if not all(isinstance(x, str) and x and x.isascii() and " " not in x for x in line.split(" ")):
            return self.stop(k, "name")
        if not acc:
            e = getattr(live, "last_exc", None)
            text = str(e) if e is not None else ""
            if isinstance(e, ValueError) and any(t in text for t in SCOPE_TEXT):
                self._emit(line, "rej", k)
                self.ops_sent += 1
                self.refusals = getattr(self, "refusals", 0) + 1
            return
        self._emit(line, "acc", k)
        self.ops_sent += 1
        refs = impl_refs(live.m)
        if refs is None:
            return self.stop(k, "value")
        self._emit("refs", refs, k)

    def finish(self, out, hist_of, stats=None):
        if len(self.lines) <= 1:
            return
        got = core.run_driver("relhist", self.lines)
        for i, (line, exp, g) in enumerate(zip(self.lines, self.expect, got)):
            if exp is None:
                continue
            self.compared += 1
            if exp != g:
                k = self.where[i]
                what = line if line != "refs" else "derived references after " + self.lines[i - 1]
                out.disagree(hist_of(k), k, exp, g, layer="relhist:" + what.split(" ")[0])
                break
        if stats is not None:
            stats["relhist_lines_compared"] += self.compared
            stats["relhist_ops"] += self.ops_sent
            stats["relhist_scope_refusals"] += getattr(self, "refusals", 0)
            if self.ended is not None:
                stats["relhist_ended:" + str(self.ended[1])] += 1
