"""Correspondence of the reference STATE MACHINE (Kernels/RelativeHist.lean, driver layer `relhist`) with modelx:
one model operation per edit of a history, accept / refuse compared, and after every edit EVERY derived reference
of every space (mode, bound object or null object or plain value, the flag `is_relative`) compared with the state
the machine reached by itself - unlike the `relative` layer, which is asked about the world modelx reports after
every operation.  The theorem `C10.derived_refs_always_rebound` is about this machine.

Vocabulary: new_space (with bases), new cells, deletion of a cells, set_ref (new / changed / overriding a derived
one; objects and ints; three modes), del_ref, add_bases / remove_bases of ONE base.  Everything else that changes
spaces or references (deletion / renaming of spaces, renaming of cells, several bases at once, constructor
references, write / read) ends the correspondence of the history there; operations that change neither (formulas,
parameters, ItemSpaces, evaluation, model-level references) are skipped.  A refusal of modelx is compared only when it is the one
the machine knows (a `relative` reference out of scope); other refusals (name clashes: C12, inconsistent
hierarchies: C11) leave both sides unchanged and are not sent.

OBJECT IDENTITY (R8C10).  The machine identifies an object with its PATH.  modelx does not: a cells that is deleted is
gone for good - every reference that held it (the definer's and, copied by `ReferenceImpl.on_inherit` because
`has_interface()` is false for it, every deriver's) keeps the dead interface, which raises DeletedObjectError when used
(b4ff488) - also when ANOTHER cells appears under the same path afterwards (the deleted one was defined and the space
now derives the name from a base; the name is created again; the base is added again).  C10 says nothing about a
reference whose target object was deleted beyond "keeps denoting the original object", and the machine cannot say which
object a path denotes.  So a reference that holds a DEAD object on the implementation's side - an invalid interface
that was a live cells / space of the model at the end of an earlier operation; a null object made by a derivation was
never live - is left out of the comparison on both sides (by its key `space.name`), for as long as it holds it.  Every
other row is compared as before; a null object is still compared as a null object."""
from . import core
from . import structworld as W
from modelx.core.base import Interface

SKIP = {"params", "noparams", "item", "evalrefs", "set_mref", "del_mref", "eval", "set_cached"}
SCOPE_TEXT = ("Relative reference", "Cannot create relative reference")


def _tgt(v):
    if isinstance(v, Interface):
        if v._is_valid():
            return "obj:" + v._impl.idstr
        return "null"
    if isinstance(v, bool) or not isinstance(v, int):
        return None
    return "plain:%d" % v


def impl_refs(model, seen=None):
    """every derived reference of every space, as the driver prints them; None if something cannot be described.
    With `seen` (id -> interface of every object that was live after an earlier operation) returns the pair
    (rows, keys of the derived references that hold a DEAD object: once live, now deleted)."""
    rows = []
    dead = set()
    for path, s in W.all_spaces(model):
        for name, r in s._impl.own_refs.items():
            if not r.is_derived():
                continue
            t = _tgt(r.interface)
            if t is None:
                return None
            if seen is not None and t == "null" and seen.get(id(r.interface)) is r.interface:
                dead.add("%s.%s" % (path, name))
            flag = "-" if t.startswith("plain") else ("R" if r.is_relative else "A")
            rows.append("%s.%s %s %s %s" % (path, name, r.refmode, t, flag))
    out = " | ".join(sorted(rows))
    return out if seen is None else (out, dead)


def _without(rows, keys):
    return " | ".join(x for x in rows.split(" | ") if x and x.split(" ", 1)[0] not in keys)


class HistCorr:
    def __init__(self):
        self.lines = ["reset"]
        self.expect = [None]
        self.where = [None]
        self.alive = True
        self.ended = None
        self.compared = 0
        self.ops_sent = 0
        self.seen = {}      # id -> interface of every space / cells that was live after some operation (kept alive here)
        self.dead = {}      # index of a `refs` line -> keys of the derived references that hold a deleted object
        self.dead_rows = 0

    def _register(self, model):
        for _path, s in W.all_spaces(model):
            self.seen.setdefault(id(s), s)
            for c in s.cells.values():
                self.seen.setdefault(id(c), c)

    def stop(self, k, why):
        if self.alive:
            self.alive = False
            self.ended = (k, why)

    def _emit(self, line, expect, k):
        self.lines.append(line)
        self.expect.append(expect)
        self.where.append(k)

    def after(self, live, k, op, result):
        if not self.alive:
            return
        kind = op[0]
        try:
            self._register(live.m)
        except Exception:   # noqa  (the model is gone: the history is over for this layer)
            return self.stop(k, "no-model")
        if kind in SKIP:
            return
        acc = not result.startswith("err")
        line = None
        try:
            if kind == "new_space":
                if len(op) > 4 and op[4]:
                    return self.stop(k, "ctor-refs")
                line = "newspace %s %s %s -" % (op[1], op[2], ",".join(op[3]) if op[3] else "-")
            elif kind in ("cells", "usecells", "getcells", "new_cells"):
                line = "newcells %s %s" % (op[1], op[2])
            elif kind in ("set_src", "set_formula"):
                # a formula assigned to a derived cells defines it in that space (an override): the machine is told
                # that the space has the cells itself; when it has it already the line is refused and nothing changes
                if acc:
                    self._emit("newcells %s %s" % (op[1], op[2]), None, k)
                return
            elif kind == "del_cells":
                line = "delcells %s %s" % (op[1], op[2])
            elif kind == "set_ref":
                v = op[3]
                mode = op[4] if len(op) > 4 else "auto"
                if isinstance(v, (tuple, list)) and v and v[0] == "obj":
                    line = "setref %s %s obj %s %s" % (op[1], op[2], v[1], mode)
                elif isinstance(v, int) and not isinstance(v, bool):
                    line = "setref %s %s plain %d %s" % (op[1], op[2], v, mode)
                else:
                    return self.stop(k, "value")
            elif kind == "del_ref":
                line = "delref %s %s" % (op[1], op[2])
            elif kind in ("add_bases", "remove_bases"):
                if len(op[2]) != 1:
                    return self.stop(k, kind + "-several")
                line = "%s %s %s" % ("addbase" if kind == "add_bases" else "rmbase", op[1], op[2][0])
            else:
                return self.stop(k, kind)
        except Exception:   # noqa  (malformed op)
            return self.stop(k, "malformed")
        if not all(isinstance(x, str) and x and x.isascii() and " " not in x for x in line.split(" ")):
            return self.stop(k, "name")
        if not acc:
            e = getattr(live, "last_exc", None)
            text = str(e) if e is not None else ""
            if isinstance(e, ValueError) and any(t in text for t in SCOPE_TEXT):
                self._emit(line, "rej", k)
                self.ops_sent += 1
                self.refusals = getattr(self, "refusals", 0) + 1
            return
        self._emit(line, "acc", k)
        self.ops_sent += 1
        refs = impl_refs(live.m, self.seen)
        if refs is None:
            return self.stop(k, "value")
        refs, dead = refs
        self._emit("refs", refs, k)
        if dead:
            self.dead[len(self.lines) - 1] = dead
            self.dead_rows += len(dead)

    def finish(self, out, hist_of, stats=None):
        if len(self.lines) <= 1:
            return
        got = core.run_driver("relhist", self.lines)
        for i, (line, exp, g) in enumerate(zip(self.lines, self.expect, got)):
            if exp is None:
                continue
            self.compared += 1
            if i in self.dead:      # references that hold a deleted object: not compared (module docstring)
                exp, g = _without(exp, self.dead[i]), _without(g, self.dead[i])
            if exp != g:
                k = self.where[i]
                what = line if line != "refs" else "derived references after " + self.lines[i - 1]
                out.disagree(hist_of(k), k, exp, g, layer="relhist:" + what.split(" ")[0])
                break
        if stats is not None:
            stats["relhist_lines_compared"] += self.compared
            stats["relhist_ops"] += self.ops_sent
            stats["relhist_dead_target_rows_not_compared"] += self.dead_rows
            stats["relhist_scope_refusals"] += getattr(self, "refusals", 0)
            if self.ended is not None:
                stats["relhist_ended:" + str(self.ended[1])] += 1
