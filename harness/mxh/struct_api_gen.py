"""API paths of the structural family that the generators of `struct_props` do not reach (review of the struct family,
notes/REVIEW-struct.md: A1, A2, B4, C5-C7, M1, M3-M5), the recognisers of the known findings they run into, and the
dispatch of `obj.name = v` / `del obj.name` to the operation of the mechanism model it is (`mechworld`).

Vocabulary added to the histories (all of it through the public API, `structworld.Live`):
  * `new_space(name, bases=..., refs={...})` - references handed to the constructor, with names that clash with what the
    new space derives, invalid names, names of model-level references;
  * `new_cells` without a usable explicit name: invalid (`for`, `_p`, `1a`) or none, with a formula whose own name is
    valid / is not (lambda) / no formula - the cells is named after the formula or automatically (`Cells1`, ...); the names
    the auto-namer produces are also used for references and child spaces of the space and of its sub spaces;
  * cells without parameters and `space.name = v` on them (a value assignment, not a reference);
  * names that are attributes of the interface class (`bases`, `cells`, `doc`, ...) as names of cells, spaces, references;
  * `del space.name` for derived references, child spaces, cells (the deletion is dispatched on the namespace);
  * model-level references named like child spaces; `relative` references to objects outside the space, followed by
    the edits that derive them somewhere else (add_bases, remove_bases, deletion of the first definer).

One alphabet for every kind of member, so that requests for a second thing of one name are the rule.
"""
import keyword
import re

from . import core
from . import structworld as W

# ----------------------------------------------------------------------------- the known findings (keys)

KEY_RELREF = "relref-rederivation-out-of-scope"     # D1: re-derivation onto a `relative` reference that is out of scope raises half-way
KEY_DELDREF = "del-derived-ref"                     # D2: deleting a derived reference raises after replacing it
KEY_CTORREFS = "new-space-ctor-refs"                # D3: references handed to new_space(refs=) are not checked / registered
KEY_CELLSNAME = "new-cells-unchecked-name"          # D4: a cells named after its formula / automatically is not checked under that name
KEY_IFACE = "interface-attribute-name"              # M4: a member named like an attribute of the interface class is hidden by it

PLAIN = ["x", "y", "f", "g"]
AUTO = ["Cells1", "Cells2"]
IFACE = ["bases", "cells", "doc"]
BADN = ["for", "_p", "1a"]
TOPS = ["A", "B", "C", "D", "S"]
CHILDN = ["K", "x", "Cells1"]
ALLN = PLAIN + AUTO + IFACE


def valid_name(n):
    return isinstance(n, str) and n.isidentifier() and not keyword.iskeyword(n) and not n.startswith("_")


def def_name(src):
    """the name a formula source gives to a cells (what `Formula(src).name` is), or a token that is no valid name"""
    if not src:
        return "-"
    m = re.match(r"\s*def\s+([A-Za-z_][A-Za-z_0-9]*)\s*\(", src)
    return m.group(1) if m else "<lambda>"


def formula_name(op):
    """the name of the formula of a `new_cells` / `new_cells_src` operation"""
    if op[0] == "new_cells_src":
        return def_name(op[3])
    if op[3] == "BAD":
        return op[2] if isinstance(op[2], str) else "-"
    try:
        return def_name(W.formula_src(op[2], op[3]))
    except Exception:   # noqa
        return "-"


def resolved_kind(op):
    """'given' / 'formula' / 'auto': where the name of the cells comes from (`CellsImpl.__init__`)"""
    if valid_name(op[2]):
        return "given"
    return "formula" if valid_name(formula_name(op)) else "auto"


def subs_of(space):
    """the space and the spaces that inherit from it (implementation's own notion)"""
    impl = space._impl
    return [impl] + list(impl.spmgr._get_subs(impl))


def clashes(impl):
    c, r, ch = set(impl.cells), set(impl.own_refs), set(impl.named_spaces)
    return (c & r) | (c & ch) | (r & ch)


# ----------------------------------------------------------------------------- recognisers

def trigger(live, op, result):
    """the known finding the operation just applied is an instance of, or None.  Decided from the operation, its outcome
    and the state the IMPLEMENTATION is in - no model involved; each class is the exact failing input class of the entry
    in known_findings.json (notes/STRUCTX-repro_*.py)."""
    kind = op[0]
    err = result.startswith("err")
    text = str(live.last_exc) if live.last_exc is not None else ""
    try:
        if err and kind in ("add_bases", "remove_bases", "del_space", "del_ref", "del_mref") \
                and text.startswith("Relative reference") and text.endswith("out of scope"):
            return KEY_RELREF
        if err and kind == "del_ref" and ("list.remove(x)" in text or result == "err Assertion"):
            # the bookkeeping of ReferenceManager.del_ref failed AFTER the reference was deleted: it had never been
            # registered - a derived reference (re-derived at once: it is there again) or one handed to new_space(refs=)
            refs = live.space(op[1])._impl.own_refs
            return KEY_DELDREF if op[2] in refs and refs[op[2]].is_derived() else KEY_CTORREFS
        if not err and kind == "new_space" and len(op) > 4 and op[4]:
            path = op[2] if op[1] == "-" else op[1] + "." + op[2]
            s = live.space(path)._impl
            given = set(dict(op[4]))
            if (given & set(s.cells)) or any(not valid_name(n) for n in given):
                return KEY_CTORREFS
        if not err and kind in ("new_cells", "new_cells_src") and resolved_kind(op) != "given":
            fn = formula_name(op)
            for impl in subs_of(live.space(op[1])):
                for n in clashes(impl):
                    if n in impl.cells and (n == fn or re.fullmatch(r"Cells\d+", n)):
                        return KEY_CELLSNAME
        if not err and kind in ("new_cells", "new_cells_src", "new_space", "rename_cells"):
            # M4: a member named like an attribute of the interface class (`doc`, `cells`, `bases`, ...)
            if kind == "new_space":
                parent = live.m if op[1] == "-" else live.space(op[1])
                path = op[2] if op[1] == "-" else op[1] + "." + op[2]
                names = [(parent, op[2])] + [(live.space(path), n) for n in (dict(op[4]) if len(op) > 4 and op[4] else {})]
            else:
                sp = live.space(op[1])
                n = op[3] if kind == "rename_cells" else op[2] if resolved_kind(op) == "given" else formula_name(op)
                names = [(sp, n)]
            if any(isinstance(n, str) and hasattr(type(o), n) for o, n in names):
                return KEY_IFACE
        if not err and kind == "set_mref" and isinstance(op[1], str):
            # ... a model-level reference is in the namespace of every space
            if any(hasattr(type(sp), op[1]) for _, sp in W.all_spaces(live.m)):
                return KEY_IFACE
    except Exception:   # noqa
        return None
    return None


def assign_keys(out, n_before, live, op, result):
    """give the failures reported for this operation the key of the known finding the operation is an instance of.
    Returns True when one was recognised: the rest of the history would only report its consequences again."""
    if len(out.failures) <= n_before:
        return False
    key = trigger(live, op, result)
    if key is None:
        return False
    for f in out.failures[n_before:]:
        if not f.get("key"):
            f["key"] = key
    return True


# ----------------------------------------------------------------------------- oracle pieces used by C11

def identities(model):
    """the implementation objects behind every space, cells and reference: a refused edit must not replace any"""
    out = {}
    for path, s in W.all_spaces(model):
        out[("space", path)] = id(s._impl)
        for n, c in s.cells.items():
            out[("cells", path, n)] = id(c._impl)
        for n in s._own_refs:
            out[("ref", path, n)] = id(s._impl.own_refs[n])
    return out


def identity_diff(a, b):
    keys = sorted(k for k in set(a) | set(b) if a.get(k) != b.get(k))
    return ", ".join(".".join(k[1:]) + " (" + k[0] + ")" for k in keys[:6])


def bad_ref_names(model):
    return sorted("%s.%s" % (p, n) for p, s in W.all_spaces(model) for n in s._own_refs if not valid_name(n))


def bad_model_ref_names(model):
    return sorted(n for n in model.refs if not n.startswith("__") and not valid_name(n))


# ----------------------------------------------------------------------------- dispatch for the mechanism model

def name_kind(live, path, name, model_level=False):
    """what `obj.name = v` / `del obj.name` is about, read off the live model BEFORE the operation:
    'iface' (an attribute of the interface class: Python's attribute protocol never reaches modelx' set_attr/del_attr),
    'scalar' (a cells without parameters that no reference shadows: the assignment is a value assignment),
    'cells', 'space', 'ref' (own reference), 'global' (model-level reference only), None"""
    try:
        obj = live.m if model_level else live.space(path)
        if not isinstance(name, str):
            return None
        if hasattr(type(obj), name):
            return "iface"
        if model_level:
            return "space" if name in obj.spaces else ("global" if name in obj.refs else None)
        impl = obj._impl
        if name in impl.cells:
            if name not in impl.refs and impl.cells[name].is_scalar():
                return "scalar"
            return "cells"
        if name in impl.named_spaces:
            return "space"      # also when a model-level reference shadows it: `del` looks at the spaces before the references
        if name in impl.own_refs:
            return "ref"
        if name in impl.refs:
            return "global"
    except Exception:   # noqa
        return None
    return None


# ----------------------------------------------------------------------------- generator

def _paths(live):
    return [p for p, _ in W.all_spaces(live.m)]


def _src(rng, name, scalar=False):
    k = rng.randint(1, 5)
    if scalar:
        return "def %s(): return %d" % (name, k)
    return "def %s(x): return x + %d" % (name, k)


def prefix(rng):
    """a small inheritance structure over the alphabet to start from"""
    ops = [["new_space", "-", "A", []], ["new_cells_src", "A", "x", _src(rng, "x")],
           ["new_space", "-", "B", ["A"]], ["new_space", "-", "C", []]]
    if rng.random() < 0.5:
        ops.append(["set_ref", "C", rng.choice(ALLN), rng.randint(1, 9)])
    if rng.random() < 0.5:
        ops.append(["new_space", "B", rng.choice(CHILDN), []])
    if rng.random() < 0.4:
        ops.append(["set_mref", rng.choice(ALLN + ["K"]), rng.randint(1, 9)])
    if rng.random() < 0.25:
        ops.append(["new_cells_src", "C", "oo", _src(rng, "oo")])
        ops.append(["new_space", "-", "D", []])
        ops.append(["set_ref", "D", rng.choice(PLAIN), ["obj", "C.oo"], "relative"])
        if rng.random() < 0.6:
            ops.append(["new_cells_src", "D", rng.choice(PLAIN + AUTO), _src(rng, "q")])
    return ops


def gen_api(rng, live, cfg=None, prev=None, focus=None):
    """next operation, chosen by looking at the live model (most requests are applicable, many are aimed at a name that is
    already in use for something else in the space, in a base, or below)"""
    paths = _paths(live)
    if not paths:
        return ["new_space", "-", rng.choice(TOPS), []]
    spaces = dict(W.all_spaces(live.m))
    path = rng.choice(paths)
    s = spaces[path]
    impl = s._impl

    def used(kinds=("cells", "refs", "spaces")):
        """names in use in the space, its bases or its sub spaces"""
        names = set()
        try:
            rel = subs_of(s) + [b._impl for b in s.bases]
        except Exception:   # noqa
            rel = [impl]
        for i in rel:
            if "cells" in kinds:
                names |= set(i.cells)
            if "refs" in kinds:
                names |= set(i.own_refs)
            if "spaces" in kinds:
                names |= set(i.named_spaces)
        return sorted(n for n in names if isinstance(n, str))

    def some_name(extra=()):
        u = used()
        if u and rng.random() < 0.55:
            return rng.choice(u)
        return rng.choice(ALLN + list(extra))

    r = rng.random()
    if r < 0.13:
        # a space, often with constructor references
        tops = [p for p in paths if "." not in p]
        parent = "-" if rng.random() < 0.6 or not paths else rng.choice(paths)
        name = rng.choice(TOPS) if parent == "-" else rng.choice(CHILDN + IFACE[:1])
        nb = rng.choice([0, 1, 1, 2])
        bases = rng.sample(paths, min(nb, len(paths)))
        op = ["new_space", parent, name, bases]
        if rng.random() < 0.7:
            refs = {}
            for _ in range(rng.choice([1, 1, 2])):
                q = rng.random()
                if bases and q < 0.45:
                    b = spaces[rng.choice(bases)]
                    pool = list(b.cells) + list(b._own_refs)
                    n = rng.choice(pool) if pool else rng.choice(ALLN)
                elif q < 0.6:
                    n = rng.choice(BADN)
                elif q < 0.7 and [k for k in live.m.refs if not k.startswith("__")]:
                    n = rng.choice([k for k in live.m.refs if not k.startswith("__")])
                else:
                    n = rng.choice(ALLN)
                refs[n] = rng.randint(1, 9)
            op.append(refs)
        return op
    if r < 0.33:
        # a cells, often without a usable explicit name
        q = rng.random()
        if q < 0.35:
            name = some_name()
            return ["new_cells_src", path, name, _src(rng, name, scalar=rng.random() < 0.3)]
        name = rng.choice(BADN + [None, None])
        q = rng.random()
        if q < 0.4:
            return ["new_cells_src", path, name, _src(rng, some_name(), scalar=rng.random() < 0.2)]   # named after the formula
        if q < 0.6:
            return ["new_cells_src", path, name, "lambda x: x + %d" % rng.randint(1, 5)]
        if q < 0.8:
            return ["new_cells_src", path, name, None]
        return ["new_cells_src", path, name, _src(rng, rng.choice(BADN))]       # def with a bad name too -> automatic
    if r < 0.50:
        name = some_name()
        q = rng.random()
        if q < 0.07 and len(paths) > 1:
            tgt = rng.choice(paths)
            cs = list(spaces[tgt].cells)
            obj = tgt + "." + rng.choice(cs) if cs and rng.random() < 0.7 else tgt
            return ["set_ref", path, name, ["obj", obj], rng.choice(["relative", "relative", "auto", "absolute"])]
        if q < 0.3:
            return ["set_ref", path, rng.choice(BADN), rng.randint(1, 9)]
        if q < 0.45:
            return ["set_ref", path, name, rng.randint(1, 9), rng.choice(["absolute", "relative"])]
        return ["set_ref", path, name, rng.randint(1, 9)]
    if r < 0.60:
        # `del space.name`: own and derived references, cells, child spaces, interface attributes, absent names
        pool = list(s._own_refs) * 2 + list(s.cells) + list(s.spaces) + [rng.choice(ALLN)]
        return ["del_ref", path, rng.choice(pool)]
    if r < 0.70:
        others = [p for p in paths if p != path]
        if others:
            return ["add_bases", path, rng.sample(others, min(len(others), rng.choice([1, 1, 2])))]
    if r < 0.76:
        bs = [W.rel(live.m, b) for b in s._direct_bases]
        if bs:
            return ["remove_bases", path, [rng.choice(bs)]]
    if r < 0.81:
        q = rng.random()
        names = [k for k in live.m.refs if not k.startswith("__")]
        if q < 0.3 and names:
            return ["del_mref", rng.choice(names + [rng.choice(TOPS)])]
        childs = sorted({n for _, sp in W.all_spaces(live.m) for n in sp.spaces})
        return ["set_mref", rng.choice(childs) if childs and rng.random() < 0.4 else rng.choice(ALLN + TOPS[:2] + ["spaces"]),
                rng.randint(1, 9)]
    if r < 0.85:
        return ["del_space", path]
    if r < 0.91 and list(s.cells):
        c = rng.choice(list(s.cells))
        q = rng.random()
        if q < 0.4:
            return ["del_cells", path, c]
        if q < 0.7:
            return ["rename_cells", path, c, some_name(BADN)]
        return ["set_cached", path, c, rng.choice([0, 1])]
    cells = [(p, n, c) for p, sp in W.all_spaces(live.m) for n, c in sp.cells.items()]
    if cells:
        p, n, c = rng.choice(cells)
        try:
            nparams = len(c.parameters)
        except Exception:   # noqa
            nparams = 1
        if nparams == 1:
            return ["eval", p, n, rng.randint(0, 2)]
    return ["evalall"]


# ----------------------------------------------------------------------------- hooks for the property modules

def run_c03(ctx, out, stats, run_history):
    """C03: derivation-from-scratch oracle + the `smech` correspondence on API histories"""
    n = ctx.n(24, 700)
    for i in range(n):
        rng = ctx.rng("api", i)
        sub = core.Outcome()
        ops = prefix(rng)
        run_history(ops, sub, stats, check_values=False, rng=rng, n_ops=len(ops) + rng.randint(10, 22), gen=gen_api)
        stats["api_histories"] += 1
        out.failures += sub.failures
        out.disagreements += sub.disagreements
        if len([f for f in out.failures if not f.get("key")]) >= 3 or out.disagreements:
            break


def run_struct(ctx, out, stats, hooks_factory, cfg, run_one, quick=40, thorough=900):
    """C11 / C12: the property's own hooks (oracle) on API histories"""
    n = ctx.n(quick, thorough)
    for i in range(n):
        rng = ctx.rng("api", i)
        sub = core.Outcome()
        ops = prefix(rng)
        run_one(ops, sub, stats, hooks_factory(), cfg, rng=rng, n_ops=len(ops) + rng.randint(10, 22), gen=gen_api)
        stats["api_histories"] += 1
        out.failures += sub.failures
        out.disagreements += sub.disagreements
        if len([f for f in out.failures if not f.get("key")]) >= 3:
            break
    out.coverage["evaluations"] = out.coverage.get("evaluations", 0) + n
    out.coverage["rule"] = out.coverage.get("rule", "") + (
        "; plus %d API histories (struct_api_gen: new_space(refs=...), cells named after their formula or automatically, "
        "cells without parameters, names of interface attributes, `del space.name` of every kind of member, relative "
        "references to objects outside the space followed by base edits and deletions)" % n)
