"""Name SCOPING shapes for C15: formulas in which a name is bound by a comprehension / lambda /
nested def / generator expression / walrus in one place and is a GLOBAL of the formula (reference,
cells, child space, ItemSpace parameter - possibly named like a built-in -, or a real built-in) in
another place of the same formula.

The exporter decides per occurrence of a name whether to rewrite it to `self.<name>`; it does so
with libcst scopes paired with `symtable` tables (and, since Python 3.12 inlines list/set/dict
comprehensions, by climbing from a comprehension that has no table of its own to the nearest scope
that has one).  Python's own scoping is the oracle here: the model evaluates the formula as it is,
the exported package must return the same value, whatever the transformer does.  So every formula
below is checkable without knowing what the right rewriting is.

Two sources of formulas:

 * `TEMPLATES` - an enumerated core, the same on every run.  A template is an expression over the
   placeholders
       @N   the shadowed name used as a LOCAL (bound by the construct the template is about),
       @gN  the same name used as a GLOBAL, as an int expression (`n`, `foo(1)`, `Ch.c()`),
       @pN  the global use with the bare name in its own parentheses (`(n)`, `(foo)(1)`, `(Ch).c()`),
       @gK  another global of the formula (never bound in the template),
   and is instantiated for every KIND of global name of `family()`'s model (reference, reference
   named like a built-in, cells, child space, child space named like a built-in, model-level
   reference, model-level reference holding a space / a cells, own / enclosing / re-used ItemSpace
   parameter, parameter named like a built-in, a real built-in) and wrapped into one of `CONTEXTS`
   (lambda formula, def formula, with a lambda / generator expression / nested def before or after
   it, inside a for loop, next to local assignments).
   The templates put the shadowed name at every place a comprehension offers: first iterable
   (evaluated in the enclosing scope: global), later iterables, element, condition, element /
   condition / iterables of comprehensions nested 2-3 deep, bound at the outer, middle or innermost
   level and used as a global at the others; list / set / dict comprehensions and generator
   expressions inside one another; lambdas inside comprehensions and comprehensions inside lambdas;
   tuple / starred / parenthesised targets; walrus targets in elements and conditions; keyword
   arguments named like the global; parenthesised names.

 * `ScopeExprGen` - a random compositional generator of the same class of expressions (every binder
   picks its variable among the global names, the names bound around it, and fresh names; every
   position may use every name in scope), used for a seed-dependent tail of the family and as one
   of the expression forms of exportgen.FormulaGen (so the shapes also occur in inherited formulas,
   in ItemSpaces below ItemSpaces, next to value-kind references ...).

Shapes that belong to a `status: known` finding are not produced: no nested scope inside a default
value, no conditional expression with scopes in both value and condition (C15-scope-order-mismatch).
"""
import re


# ----------------------------------------------------------------------------- the enumerated core

TEMPLATES = [
    # --- one comprehension; the loop variable is a global name of the formula
    ("c1_elem", "[@N * @gK for @N in range(@gN)]"),
    ("c1_cond", "[@N for @N in range(@gN) if @N != @gK]"),
    ("c1_later_iter", "[@N + j for @N in range(@gN) for j in range(@N)]"),
    ("c1_second_for", "[@N + j for j in range(@gN) for @N in range(j + 1)]"),
    ("c1_conds", "[j + @N for j in range(@gN) if j < 9 for @N in range(j) if @N >= 0]"),
    ("c1_plain_global", "[j * @gN for j in range(@gK)]"),
    # --- nested two deep: the OUTER variable in the inner element / condition / iterables
    ("c2_inner_elem", "[[@N * j for j in range(3)] for @N in range(@gN)]"),
    ("c2_inner_iter", "[[j for j in range(@N)] for @N in range(@gN)]"),
    ("c2_inner_cond", "[[j for j in range(3) if j != @N] for @N in range(@gN)]"),
    ("c2_all", "[[@N + j for j in range(2) if @N != j] for @N in range(@gN) if @N % 2 == 0]"),
    ("c2_other_global", "[[j + @gK for j in range(2)] for @N in range(@gN)]"),
    ("c2_inner_later_iter", "[[@N + i + j for j in range(2) for i in range(@N)] for @N in range(@gN)]"),
    ("c2_inner_second_cond", "[[j for j in range(2) if j >= 0 if @N != 7] for @N in range(@gN)]"),
    # --- bound by the INNER comprehension, global in the outer one
    ("c2_bound_inner", "[[@N for @N in range(i + 1)] + [@gN] for i in range(2)]"),
    ("c2_bound_inner_iter", "[[@N for @N in range(@gN)] for i in range(@gN % 3)]"),
    ("c2_bound_inner_sum", "[@gN + sum([@N for @N in range(i)]) for i in range(3)]"),
    ("c2_bound_inner_cond", "[i for i in range(3) if [@N for @N in range(i)] != [@gN]]"),
    # --- three deep
    ("c3_outer", "[[[@N + i + j for j in range(2)] for i in range(2)] for @N in range(@gN)]"),
    ("c3_middle", "[[[@N + i + j for j in range(2)] for @N in range(i + 1)] for i in range(@gN)]"),
    ("c3_conds", "[[[@N * j for j in range(i + 1) if j <= @N] for i in range(2) if i <= @N] for @N in range(@gN)]"),
    ("c3_inner_iter", "[[[i for j in range(@N % 2 + 1)] for i in range(2)] for @N in range(@gN)]"),
    ("c3_innermost", "[[[j for @N in range(2)] + [@gN] for j in range(2)] + [@gN] for i in range(2)]"),
    ("c3_two_names", "[[[@N + @gK for j in range(1)] for i in range(@N + 1)] for @N in range(@gN)]"),
    # --- the same name bound at two levels
    ("rebind_nested", "[[@N for @N in range(@N)] for @N in range(@gN)]"),
    ("rebind_iter", "[@N for @N in [@N + 1 for @N in range(@gN)]]"),
    ("rebind_siblings", "[[@N for @N in range(2)] + [@N * 2 for @N in range(i)] + [@gN] for i in range(2)]"),
    # --- dict / set comprehensions, generator expressions, in one another
    ("dict_dict", "{@N: {j: @N + j for j in range(2)} for @N in range(@gN)}"),
    ("dict_val", "{@N: [@N] * @gK for @N in range(@gN)}"),
    ("dict_key_inner", "{j: {@N: j for @N in range(2)} for j in range(@gN)}"),
    ("set_sorted", "sorted({@N % 2 for @N in range(@gN)})"),
    ("set_cond_list", "{@N for @N in range(@gN) if [@N for j in range(2)][0] == @N}"),
    ("list_dict_list", "[{@N: [@N for j in range(2)]} for @N in range(@gN)]"),
    ("list_set", "[{j + @N for j in range(2)} for @N in range(@gN)]"),
    ("gen_in_list", "[sum(@N * j for j in range(3)) for @N in range(@gN)]"),
    ("list_in_gen", "sum([@N * j for j in range(3)][1] for @N in range(@gN))"),
    ("gen_in_gen", "list(list(@N + j for j in range(2)) for @N in range(@gN))"),
    ("gen_count", "tuple(sum(1 for j in range(@N)) for @N in range(@gN))"),
    ("list_list_gen", "[[sum(@N for _ in range(j)) for j in range(2)] for @N in range(@gN)]"),
    ("gen_list_list", "list([[@N * j for j in range(2)] for i in range(2)] for @N in range(@gN))"),
    ("list_gen_list", "[list([@N + j for j in range(2)] for i in range(1)) for @N in range(@gN)]"),
    # --- lambdas inside comprehensions, comprehensions inside lambdas
    ("lam_in_comp", "[(lambda q: q + @N)(j) for @N in range(@gN) for j in range(2)]"),
    ("lam_in_inner", "[[(lambda: @N)() for j in range(2)] for @N in range(@gN)]"),
    ("comp_in_lam", "(lambda @N: [@N + j for j in range(@N)])(@gK)"),
    ("comp2_in_lam", "(lambda @N: [[@N * j for j in range(2)] for i in range(@N)])(@gN)"),
    ("map_lam_comp", "list(map(lambda @N: [@N for @N in range(@N)], range(@gN)))"),
    ("key_lam", "sorted(range(@gN), key=lambda @N: -@N)"),
    ("lam_then_global", "[(lambda @N: @N * 2)(j) + @gN for j in range(2)]"),
    ("lam_default", "[(lambda q, @N=@N: @N + q)(1) for @N in range(@gN)]"),
    ("comp_in_lam_in_comp", "[(lambda q: [@N + q + j for j in range(2)])(1) for @N in range(@gN)]"),
    # --- other scopes before and after, sibling comprehensions
    ("lam_before", "(lambda a: a + @gN)(1) + sum([@N for @N in range(@gN)]) + @gN"),
    ("lam_after", "sum([@N for @N in range(@gN)]) + (lambda a: a + @gN)(1) + @gN"),
    ("gen_before", "sum(@N for @N in range(2)) + sum([@N for @N in range(@gN)]) + @gN"),
    ("gen_after", "[[@N * j for j in range(2)] for @N in range(@gN)] + [sum(@N for @N in range(2)), @gN]"),
    ("siblings", "sum([@N for @N in range(2)]) + @gN + sum([@N * 2 for @N in range(3)])"),
    ("between", "[sum([@N for @N in range(2)]), @gN, [[@N * j for j in range(2)] for @N in range(@gN)], @gN]"),
    ("lam_nested_before", "[(lambda a: a)(1), [[@N + j for j in range(2)] for @N in range(@gN)], (lambda @N: @N)(5), @gN]"),
    # --- targets
    ("tuple_target", "[a + @N for a, @N in enumerate(range(@gN))]"),
    ("tuple_target_inner", "[[a * @N for j in range(2)] for a, @N in enumerate(range(@gN))]"),
    ("star_target", "[@N for (@N, *rest) in [(1, 2), (3,)]] + [@gN]"),
    ("paren_target", "[[(@N) * j for j in range(2)] for (@N) in range(@gN)]"),
    ("unpack", "[*[@N for @N in range(@gN)], @gN]"),
    # --- walrus
    ("walrus_elem", "[(wy := @N + 1) for @N in range(@gN)] + [wy]"),
    ("walrus_cond", "[wt for @N in range(@gN + 1) if (wt := @N % 2)]"),
    ("walrus_plain", "(wt := @gN) + wt"),
    ("walrus_inner", "[[(ww := @N + j) for j in range(2)] for @N in range(@gN)] + [ww]"),
    ("walrus_global_rhs", "[(wy := @gK + j) for j in range(2)] + [wy, @gK]"),
    # --- keyword arguments named like the global, parenthesised names
    ("kw_dict", "dict(@N=@gN)"),
    ("kw_lambda", "(lambda @N=0, **kw: @N + sum(kw.values()))(@N=@gK)"),
    ("kw_in_comp", "[dict(@N=@N, j=@gK) for @N in range(@gN)]"),
    ("kw_reverse", "sorted([3, 1, 2], key=lambda q: q * @gN, reverse=@gN > 100)"),
    ("paren_names", "@pN + (@gK)"),
    ("paren_double", "((@pN))"),
    ("paren_comp", "[(@N) for @N in range(@pN)]"),
    ("paren_inner", "[[(@N) + (j) for j in range((2))] for @N in range((@pN))]"),
]

# (label, source with @E for the template's expression; `@F` is the cells name)
CONTEXTS = [
    ("lambda", "lambda: @E"),
    ("def", "def @F():\n    return @E"),
    ("def_locals", "def @F(a=1):\n    t0 = [@gN, a]\n    r = @E\n    return (t0, r, @gN)"),
    ("nested_def_before", "def @F():\n    def h(@N):\n        return @N + 1\n    return (h(2), @E)"),
    ("nested_def_after", "def @F():\n    r = @E\n    def h(q, @N=2):\n        return [@N + q for q in range(q)]\n"
                         "    return (r, h(2), @gN)"),
    ("gen_before", "lambda: (sum(@N for @N in range(3)), @E)"),
    ("lambda_after", "lambda a=2: (@E, (lambda @N: @N + a)(1), @gN)"),
    ("for_loop", "def @F():\n    acc = []\n    for it in range(2):\n        acc.append(@E)\n    return (acc, @gN)"),
    ("comp_before_def", "def @F():\n    pre = [@N for @N in range(2)]\n    def h(q):\n        return q + @gN\n"
                        "    return (pre, h(1), @E)"),
]


class NameKind:
    """one global name of a formula and how it is used as a global (all uses are int-valued)"""

    def __init__(self, label, name, guse, puse):
        self.label = label
        self.name = name
        self.guse = guse          # e.g. "n" | "foo(1)" | "Ch.c()"
        self.puse = puse          # e.g. "(n)" | "(foo)(1)" | "(Ch).c()"


def int_kind(label, name):
    return NameKind(label, name, name, "(%s)" % name)


def cells_kind(label, name, arg="1"):
    return NameKind(label, name, "%s(%s)" % (name, arg), "(%s)(%s)" % (name, arg))


def space_kind(label, name, cells="c"):
    return NameKind(label, name, "%s.%s()" % (name, cells), "(%s).%s()" % (name, cells))


_PH = re.compile(r"@(gN|pN|gK|N|E|F)")


def fill(text, nk, other, expr=None, fname=None):
    m = {"N": nk.name, "gN": nk.guse, "pN": nk.puse, "gK": other.guse, "E": expr, "F": fname}
    return _PH.sub(lambda mo: m[mo.group(1)], text)


def core_formulas(nk, other, offset=0, select=None):
    """-> [(cells name, source)]: the templates (those `select(t)` admits) for the name kind, contexts rotating"""
    res = []
    for t, (tl, tsrc) in enumerate(TEMPLATES):
        if select is not None and not select(t):
            continue
        cl, csrc = CONTEXTS[(t + offset) % len(CONTEXTS)]
        cname = "%s_%s" % (nk.label, tl)
        expr = fill(tsrc, nk, other)
        res.append((cname, fill(csrc, nk, other, expr=expr, fname=cname)))
    return res


# ----------------------------------------------------------------------------- the random generator

class ScopeExprGen:
    """random expressions over a set of int-valued global uses.

    `globals_`: [NameKind]; `fresh`: names that are not global anywhere; `rng`: random.Random.
    `env` (argument of the methods) is the list of names bound (as ints) around the position.
    All values are small ints / lists / dicts / sets of them; nothing raises."""

    COMPS = ["list", "list", "list", "set", "dict", "dict", "gen"]

    def __init__(self, rng, globals_, fresh=None, p_shadow=0.55, budget=22, avoid_builtins=(), allow_walrus=True, p_nest=0.35):
        self.rng = rng
        self.avoid_builtins = set(avoid_builtins)       # built-in names the space shadows (of `len`: not used then)
        self.globals = list(globals_)
        self.gnames = [g.name for g in self.globals]
        self.fresh = list(fresh or ["i", "j", "q", "r", "s", "z", "u0", "u1", "u2", "u3"])
        self.p_shadow = p_shadow
        self.budget = budget
        self.tags = set()
        self.nwal = 0 if allow_walrus else 99
        self.p_nest = p_nest      # how often the element of a comprehension is itself built from a comprehension
        self.no_scope = 0         # > 0: inside a default value (no nested scope there: known finding)
        self.no_walrus = 0        # > 0: inside a comprehension iterable (SyntaxError there)
        self.comp_targets = []    # names that are iteration variables around the position (walrus may not rebind)
        self.pending = []         # names a LATER clause of an enclosing comprehension binds: local there, not yet bound

    # ---- names

    def binder(self, env, avoid=()):
        """a name for a new binding: a global name (shadowing), a name bound around (re-binding), or fresh"""
        rng = self.rng
        r = rng.random()
        cands = []
        if r < self.p_shadow:
            cands = [n for n in self.gnames if n not in avoid]
            if cands:
                self.tags.add("binder_shadows_global")
        elif r < self.p_shadow + 0.15:
            cands = [n for n in env if n not in avoid]
            if cands:
                self.tags.add("binder_rebinds_outer")
        if not cands:
            cands = [n for n in self.fresh if n not in avoid and n not in env] or \
                    ["v%d" % k for k in range(40) if "v%d" % k not in avoid and "v%d" % k not in env]
        return rng.choice(cands)

    def use(self, env, paren_ok=True):
        """an int atom: a bound name, a global use, or a literal"""
        rng = self.rng
        r = rng.random()
        usable = [n for n in env if n not in self.pending] if self.pending else env
        if usable and r < 0.5:
            n = rng.choice(usable)
            if n in self.gnames:
                self.tags.add("local_use_of_shadowing_name")
            return ("(%s)" % n) if (paren_ok and rng.random() < 0.06) else n
        gl = [g for g in self.globals if g.name not in env and g.name not in self.pending]
        if gl and r < 0.9:
            g = rng.choice(gl)
            self.tags.add("global_use")
            if paren_ok and rng.random() < 0.1:
                self.tags.add("parenthesised_name")
                return g.puse
            return g.guse
        return str(rng.randint(0, 3))

    # ---- ints

    def int_expr(self, d, env):
        rng = self.rng
        self.budget -= 1
        if d <= 0 or self.budget <= 0:
            return self.use(env)
        forms = ["atom", "bin", "bin", "sum", "len", "lam", "lam", "index", "cond", "walrus", "kwcall"]
        if self.no_scope:
            forms = ["atom", "bin", "cond"]
        f = rng.choice(forms)
        if f == "len" and "len" in self.avoid_builtins:
            f = "sum"
        if f == "atom":
            return self.use(env)
        if f == "bin":
            op = rng.choice(["+", "+", "-", "*"])
            return "(%s %s %s)" % (self.int_expr(d - 1, env), op,
                                   self.use(env) if op == "*" else self.int_expr(d - 1, env))
        if f == "sum":
            return "sum(%s)" % self.seq_expr(d - 1, env, "int")
        if f == "len":
            return "len(%s)" % self.seq_expr(d - 1, env, "val", sized=True)
        if f == "index":
            return "(%s + [0])[0]" % self.seq_expr(d - 1, env, "int", as_list=True)
        if f == "cond":
            # the condition holds no scope (a scope in both value and condition: known finding)
            self.no_scope += 1
            try:
                c = "%s %s %s" % (self.use(env), rng.choice(["<", "!=", ">="]), self.use(env))
            finally:
                self.no_scope -= 1
            return "(%s if %s else %s)" % (self.int_expr(d - 1, env), c, self.int_expr(d - 1, env))
        if f == "walrus" and not self.no_walrus and self.nwal < 3:
            # the target is bound in the enclosing FUNCTION scope: a name that is used nowhere else
            self.nwal += 1
            w = "w%d" % rng.randint(0, 99)
            while w in env:
                w = "w%d" % rng.randint(100, 999)
            self.tags.add("walrus")
            return "((%s := %s) + %s)" % (w, self.int_expr(d - 1, env), w)
        if f == "kwcall":
            # a keyword argument named like a global / like a name bound around
            p = self.binder(env)
            self.tags.add("keyword_argument")
            if p in self.gnames:
                self.tags.add("keyword_named_like_global")
            return "(lambda %s=0: %s * 2)(%s=%s)" % (p, p, p, self.int_expr(d - 1, env))
        # immediately applied lambda; a default value reads the ENCLOSING scope
        p = self.binder(env)
        self.tags.add("lambda")
        if rng.random() < 0.35:
            q = self.binder(env + [p], avoid=[p])
            self.no_scope += 1
            try:
                dflt = self.int_expr(1, env)
            finally:
                self.no_scope -= 1
            self.tags.add("lambda_default_reads_outer")
            return "(lambda %s, %s=%s: %s)(%s)" % (p, q, dflt, self.in_function(d - 1, env + [p, q], (p, q)),
                                                  self.int_expr(d - 1, env))
        return "(lambda %s: %s)(%s)" % (p, self.in_function(d - 1, env + [p], (p,)), self.int_expr(d - 1, env))

    def in_function(self, d, env, params=()):
        """the body of a lambda / nested def: a new function scope (walrus allowed again, no enclosing iteration
        variables; its parameters hide pending names)"""
        saved = self.no_walrus, self.comp_targets, self.pending
        self.no_walrus, self.comp_targets = 0, []
        self.pending = [n for n in self.pending if n not in params]
        try:
            return self.int_expr(d, env)
        finally:
            self.no_walrus, self.comp_targets, self.pending = saved

    # ---- values (an int or a container)

    def val_expr(self, d, env):
        rng = self.rng
        if d <= 0 or self.budget <= 0 or self.no_scope or rng.random() < 0.45:
            return self.int_expr(d, env)
        return self.seq_expr(d, env, rng.choice(["int", "val"]), as_list=rng.random() < 0.5)

    def iterable(self, d, env):
        """an iterable of ints (no walrus inside: not allowed in a comprehension iterable)"""
        rng = self.rng
        self.no_walrus += 1
        try:
            r = rng.random()
            if r < 0.35:
                return "range(%d)" % rng.randint(1, 3)
            if r < 0.75 or d <= 0 or self.budget <= 0:
                e = self.use(env, paren_ok=False)
                if e.lstrip("-").isdigit():
                    return "range(%s)" % e
                return "range(%s %% 3 + 1)" % e if rng.random() < 0.7 else "range(%s %% 4)" % e
            return self.seq_expr(d - 1, env, "int", sized=False)
        finally:
            self.no_walrus -= 1

    def seq_expr(self, d, env, elem, as_list=False, sized=False, must_use=()):
        """an iterable of `elem` ('int' | 'val'); `as_list`: a list; `sized`: something with len();
        `must_use`: variables of the enclosing comprehension - the element reads one of them (unless re-bound here)"""
        rng = self.rng
        self.budget -= 1
        if d <= 0 or self.budget <= 0 or self.no_scope:
            return "[%s, %s]" % (self.use(env), self.use(env))
        kind = rng.choice(self.COMPS)
        if elem == "val" and kind == "set":
            kind = "list"            # elements of a set must be hashable
        nfor = 1 if rng.random() < 0.7 else 2
        # the targets are chosen first: a name bound by a LATER clause is local to the whole comprehension, so
        # the clauses before it (and everything nested in them) must not read it
        plan = []
        chosen = []
        inner0 = list(env)
        for k in range(nfor):
            v = self.binder(inner0, avoid=chosen)
            chosen.append(v)
            a = None
            if rng.random() < 0.12:
                a = self.binder(inner0 + [v], avoid=chosen)
                chosen.append(a)
            plan.append((v, a))
        inner = list(env)
        clauses = []
        targets = []
        outer_p = self.pending
        saved_p = [n for n in outer_p if n not in chosen]       # re-bound here: the outer binding is out of sight
        first_it = None
        v0 = plan[0][0]
        if v0 in self.gnames and v0 not in env and v0 not in outer_p and rng.random() < 0.75:
            # the idiom `for n in range(n)`: the name is a global in the iterable, the loop variable after it
            g0 = self.globals[self.gnames.index(v0)]
            first_it = "range(%s %% 3 + 1)" % g0.guse
            self.tags.add("global_use")
        if first_it is None:
            first_it = self.iterable(d - 1, env)                # the FIRST iterable belongs to the enclosing scope
        self.pending = saved_p
        for k, (v, a) in enumerate(plan):
            later = [n for vv, aa in plan[k:] for n in (vv, aa) if n is not None and n not in targets]
            if k == 0:
                it = first_it
            else:
                self.pending = saved_p + later
                try:
                    it = self.iterable(d - 1, inner)
                finally:
                    self.pending = saved_p
            if v in self.gnames and k == 0 and any(g.name == v and g.guse in it for g in self.globals):
                self.tags.add("loop_variable_named_like_global_of_its_iterable")
            targets.append(v)
            tgt = v
            if a is not None:
                targets.append(a)
                it = "enumerate(%s)" % it
                tgt = "%s, %s" % (a, v)
                if a not in inner:
                    inner = inner + [a]
                self.tags.add("tuple_target")
            inner = inner + [v] if v not in inner else inner
            clause = "for %s in %s" % (tgt, it)
            if rng.random() < 0.3:
                self.tags.add("comprehension_condition")
                saved_t = self.comp_targets
                self.comp_targets = saved_t + targets
                later = [n for vv, aa in plan[k + 1:] for n in (vv, aa) if n is not None and n not in targets]
                self.pending = saved_p + later
                try:
                    clause += " if %s %s %s" % (self.cond_operand(d - 1, inner), rng.choice(["!=", "<=", ">="]),
                                                self.use(inner))
                finally:
                    self.comp_targets = saved_t
                    self.pending = saved_p
            clauses.append(clause)
        saved_t = self.comp_targets
        self.comp_targets = saved_t + targets
        try:
            if kind == "dict":
                key = targets[-1]
                body = "%s: %s" % (key, self.val_expr(d - 1, inner) if elem == "val" else self.int_expr(d - 1, inner))
            elif d - 1 >= 1 and self.budget > 0 and rng.random() < self.p_nest:
                body = self.seq_expr(d - 1, inner, "int", as_list=True, must_use=list(self.comp_targets))
                if elem == "int" or kind == "set":
                    body = "sum(%s)" % body
            elif elem == "int" or kind == "set":
                body = self.int_expr(d - 1, inner)
            else:
                body = self.val_expr(d - 1, inner)
        finally:
            self.comp_targets = saved_t
            self.pending = outer_p
        mu = [n for n in must_use if n not in chosen and n in env]
        if mu and kind != "dict" and not any(re.search(r"\b%s\b" % re.escape(n), body) for n in mu):
            # the element of a nested comprehension reads a variable of the enclosing one
            n = rng.choice(mu)
            body = "(%s + %s)" % (body, n) if (elem == "int" or kind == "set") else "[%s, %s]" % (body, n)
            self.tags.add("inner_element_reads_outer_variable")
        if len(self.comp_targets) >= 1:
            self.tags.add("nested_comprehension")
            if len(self.comp_targets) >= 2:
                self.tags.add("comprehension_3_deep")
        cl = " ".join(clauses)
        self.tags.add(kind + "_comprehension")
        if kind == "list":
            return "[%s %s]" % (body, cl)
        if kind == "set":
            return "sorted({%s %s})" % (body, cl)
        if kind == "dict":
            return "list({%s %s}.values())" % (body, cl)
        # a generator expression has a symbol table of its own
        wrap = "list" if (as_list or sized or elem == "val") else rng.choice(["list", "tuple", "list"])
        return "%s(%s %s)" % (wrap, body, cl)

    def cond_operand(self, d, env):
        if self.rng.random() < 0.6:
            return self.use(env)
        return self.int_expr(d, env)

    # ---- a whole formula

    def formula(self, cname, depth=3):
        """-> source of a parameterless cells"""
        rng = self.rng
        style = rng.choice(["lambda", "def", "def_stmts", "def_stmts"])
        if style == "lambda":
            return "lambda: %s" % self.val_expr(depth, [])
        if style == "def":
            return "def %s():\n    return %s" % (cname, self.val_expr(depth, []))
        # statements: function-level locals never coincide with a global name (they would make the name local
        # in the whole function; exportgen.FormulaGen covers that); nested defs bind global names as parameters
        lines = ["def %s():" % cname]
        env = []
        n_st = rng.randint(1, 3)
        for k in range(n_st):
            r = rng.random()
            if r < 0.45:
                nm = "t%d" % k
                if rng.random() < 0.5:
                    lines.append("    %s = %s" % (nm, self.int_expr(depth - 1, env)))
                    env = env + [nm]              # an int: usable as an atom below
                else:
                    lines.append("    %s = %s" % (nm, self.val_expr(depth - 1, env)))
            elif r < 0.8:
                self.tags.add("nested_def")
                hn = "h%d" % k
                p = self.binder(env)
                q = self.binder(env + [p], avoid=[p])
                self.no_scope += 1
                try:
                    dflt = self.int_expr(1, env)
                finally:
                    self.no_scope -= 1
                body = self.in_function(depth - 1, env + [p, q], (p, q))
                lines.append("    def %s(%s, %s=%s):" % (hn, p, q, dflt))
                lines.append("        return %s" % body)
                lines.append("    c%d = %s(%s)" % (k, hn, self.use(env)))
                env = env + ["c%d" % k]
            else:
                self.tags.add("for_loop")
                acc, v = "a%d" % k, "it%d" % k
                lines.append("    %s = 0" % acc)
                lines.append("    for %s in %s:" % (v, self.iterable(depth - 1, env)))
                lines.append("        %s = %s + %s" % (acc, acc, self.int_expr(depth - 1, env + [v])))
                env = env + [acc]
        lines.append("    return (%s, %s)" % (self.val_expr(depth, env), self.use(env)))
        return "\n".join(lines)


# ----------------------------------------------------------------------------- the family

def _cells(name, src, cached=True):
    return {"name": name, "src": src, "cached": cached}


def _ref(name, val):
    return {"name": name, "val": val, "mode": "auto"}


def _q(steps, cname):
    return {"sp": steps, "cells": cname, "args": [], "kw": {}}


N_KINDS = 17


def family(rng=None, n_random=40, per_template=None, rotation=0):
    """-> [(label, desc, queries)].

    `per_template`: how many of the N_KINDS name kinds every template is instantiated for (None: all);
    which ones rotates with the template index and `rotation` (the seed), so that every template is checked
    on every run and every (template, kind) pair within N_KINDS / per_template seeds.

    One model; every name kind has a space of its own (the exporter's cost grows with the square of the
    number of formulas of a space), holding what the kind needs:

      model level    gn = 3, abs = 2 (named like a built-in), mref -> space O, mcell -> cells O.c
      O              c(): 2
      S_<kind>       n = 3, k = 2, max = 3, len = 2 (named like built-ins); foo(x); child Ch, child `type`
      P[x, id=2]     parameters, one named like a built-in; children:
        Own_<kind>     static, the parameters are those of the enclosing ItemSpace
        Q_<kind>[y, x] ItemSpace below an ItemSpace re-using the name x; its enclosing parameter `id`
    """
    kinds_s = [
        (int_kind("ref", "n"), int_kind("k", "k")),
        (int_kind("refbi", "max"), int_kind("len", "len")),
        (cells_kind("cells", "foo"), int_kind("n", "n")),
        (space_kind("child", "Ch"), int_kind("k", "k")),
        (space_kind("childbi", "type"), int_kind("max", "max")),
        (int_kind("mref", "gn"), int_kind("abs", "abs")),
        (int_kind("mrefbi", "abs"), int_kind("gn", "gn")),
        (space_kind("mobjsp", "mref"), cells_kind("mcell", "mcell", arg="")),
        (cells_kind("mobjce", "mcell", arg=""), space_kind("mref", "mref")),
        (NameKind("builtin", "min", "min(3, 5)", "(min)(3, 5)"), int_kind("n", "n")),
    ]
    kinds_p = [(int_kind("param", "x"), int_kind("id", "id")),
               (int_kind("parambi", "id"), int_kind("x", "x"))]
    kinds_q = [(int_kind("reused", "x"), int_kind("y", "y")),
               (int_kind("enclbi", "id"), int_kind("x", "x")),
               (int_kind("own", "y"), int_kind("abs", "abs"))]

    def cells_of(ki, nk, other, n_rnd):
        out = []
        sel = None if per_template is None else (lambda t: (t + 5 * ki + rotation) % N_KINDS < per_template)
        for ci, (cn, src) in enumerate(core_formulas(nk, other, offset=ki, select=sel)):
            out.append(_cells(cn, src, cached=(ci + ki) % 4 != 3))
        if rng is not None:
            for k in range(n_rnd):
                gen = ScopeExprGen(rng, [nk, other] if rng.random() < 0.7 else [nk], avoid_builtins=("len",))
                cn = "rnd_%s_%d" % (nk.label, k)
                out.append(_cells(cn, gen.formula(cn), cached=rng.random() < 0.75))
        return out

    def o_space():
        return {"name": "O", "bases": [], "formula": None, "refs": [], "cells": [_cells("c", "lambda: 2")], "spaces": []}

    def model(spaces):
        return {"name": "Scope", "profile": "scope",
                "grefs": [_ref("gn", {"lit": 3}), _ref("abs", {"lit": 2}),
                          _ref("mref", {"obj": "O"}), _ref("mcell", {"obj": "O.c"})],
                "spaces": [o_space()] + spaces}

    res = []
    qs = []
    spaces = []
    ki = 0
    n_each = max(n_random // 15, 1) if n_random else 0
    for nk, other in kinds_s:
        cells = cells_of(ki, nk, other, n_each)
        ki += 1
        nm = "S_" + nk.label
        spaces.append({
            "name": nm, "bases": [], "formula": None,
            "refs": [_ref("n", {"lit": 3}), _ref("k", {"lit": 2}), _ref("max", {"lit": 3}), _ref("len", {"lit": 2})],
            "cells": [_cells("foo", "lambda x: x % 3 + 1")] + cells,
            "spaces": [
                {"name": "Ch", "bases": [], "formula": None, "refs": [], "cells": [_cells("c", "lambda: 2")], "spaces": []},
                {"name": "type", "bases": [], "formula": None, "refs": [], "cells": [_cells("c", "lambda: 3")], "spaces": []}]})
        for c in cells:
            qs.append(_q([{"attr": nm}], c["name"]))
        if ki % 5 == 0:
            # several models rather than one: they are exported in parallel
            res.append(("static-%d" % (ki // 5), model(spaces), qs))
            spaces, qs = [], []
    assert not spaces
    p1 = [{"attr": "P"}, {"item": [3, 1], "via": "call"}]
    p2 = [{"attr": "P"}, {"item": [1], "via": "getitem"}]
    pch = []
    for nk, other in kinds_p:
        cells = cells_of(ki, nk, other, n_each)
        ki += 1
        nm = "Own_" + nk.label
        pch.append({"name": nm, "bases": [], "formula": None, "refs": [], "cells": cells, "spaces": []})
        for k, c in enumerate(cells):
            qs.append(_q((p1 if k % 2 else p2) + [{"attr": nm}], c["name"]))
    for nk, other in kinds_q:
        cells = cells_of(ki, nk, other, n_each)
        ki += 1
        nm = "Q_" + nk.label
        pch.append({"name": nm, "bases": [], "formula": [["y", None], ["x", 1]], "refs": [], "cells": cells, "spaces": []})
        for k, c in enumerate(cells):
            inst = [{"item": [1, 2], "via": "call"}] if k % 2 == 0 else [{"item": [2], "via": "getitem"}]
            qs.append(_q(p1 + [{"attr": nm}] + inst, c["name"]))
    # the ItemSpace's own formulas: its parameters read next to comprehensions that bind them
    pcells = cells_of(ki, int_kind("pown", "x"), int_kind("id", "id"), n_each) + \
        cells_of(ki + 1, int_kind("pownbi", "id"), int_kind("x", "x"), 0)
    assert ki + 2 == N_KINDS
    for k, c in enumerate(pcells):
        qs.append(_q(p1 if k % 2 else p2, c["name"]))
    spaces.append({"name": "P", "bases": [], "formula": [["x", None], ["id", 2]], "refs": [], "cells": pcells,
                   "spaces": pch})
    res.append(("items", model(spaces), qs))
    return res
