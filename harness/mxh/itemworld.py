"""ItemSpace histories on real modelx (C07): parametrised spaces, argument spellings, nested
and replicated child spaces, parameter formulas choosing another base / extra references,
edits of everything an instance is built from.

`World` applies one operation (a JSON-able list) through the public API.  The helpers here
are what the C07 oracle and correspondence are made of:

* `ref_bind`        – an independent statement of `inspect.Signature.bind` + `apply_defaults`
                      for positional-or-keyword parameters (the Lean `bind` mirrors it);
* `walk` / `resolve` – follow an access chain creating / without creating instances;
* `dyn_entries`     – every live dynamic space (instances, replicated children, nested
                      instances) with its address, found through `param_spaces` / `named_spaces`;
* `build_replica`   – a plain, non-parametrised copy of the base with the parameters (and the
                      references the formula returned) bound as references.
"""
from . import core
from .impl import mx, close_all, quiet, err_kind
from .structworld import val_repr
from modelx.core.errors import FormulaError, DeletedObjectError

QUERY = [0, 1, 2]
RECURSION = 40


class limited:
    """formulas of the vocabulary may call each other in a cycle: keep modelx's own depth limit small"""
    def __enter__(self):
        self.old = mx.get_recursion()
        mx.set_recursion(RECURSION)

    def __exit__(self, *a):
        mx.set_recursion(self.old)

# parameter formulas: source, parameters (name, default | None), chosen base (static path)
PFORMS = [
    {"src": "lambda i: None", "params": [("i", None)], "sel": None},
    {"src": "lambda i, j=2: None", "params": [("i", None), ("j", 2)], "sel": None},
    {"src": "lambda i: {'refs': {'r': i * 7}}", "params": [("i", None)], "sel": None},
    {"src": "lambda i: {'base': _model.O}", "params": [("i", None)], "sel": "O"},
    {"src": "lambda i, j=2: {'base': _model.O, 'refs': {'s': j}}", "params": [("i", None), ("j", 2)], "sel": "O"},
    {"src": "lambda k: None", "params": [("k", None)], "sel": None},
    {"src": "lambda k, n=5: None", "params": [("k", None), ("n", 5)], "sel": None},
    {"src": "lambda i, j=3: None", "params": [("i", None), ("j", 3)], "sel": None},
]
PF_BY_SRC = {p["src"]: n for n, p in enumerate(PFORMS)}

CELL_TEMPLATES = [
    "lambda x: x + {k}",
    "lambda x: i * 10 + x",
    "lambda x: {a}(x) * 2 + {k}",
    "lambda x: r + x",
    "lambda x: i * 100 + j * 10 + x",
    "lambda x: {c}.{a}(x) + i",
    "lambda x: {a}(x - 1) + 1 if x > 0 else i",
    "lambda x: u + x",
    "lambda x: k * 1000 + i * 10 + x",
    "lambda x: s * 3 + x + {k}",
    "lambda x: n * 7 + k + x",
    # through a REFERENCE of the space whose value is a member of the space's own tree (an alias of a sibling cells,
    # a reference to a child space): in an instance the reference denotes the instance's own member
    "lambda x: {ro}(x) + {k}",
    "lambda x: {rs}.{a}(x) * 2 + {k}",
]
CALLER_SRC = "lambda x: _model.{s}(x).{a}(x) + 1"


# ----------------------------------------------------------------------------- binding

class BindError(Exception):
    pass


def ref_bind(params, args, kwargs):
    """The bound key `Signature.bind(*args, **kwargs)` + `apply_defaults` gives for
    positional-or-keyword parameters `params` = [(name, default | None)], or BindError with
    the reason Python rejects the spelling."""
    names = [p[0] for p in params]
    if len(args) > len(params):
        raise BindError("too-many")
    for k in kwargs:
        if k not in names:
            raise BindError("unknown-keyword")
        if names.index(k) < len(args):
            raise BindError("duplicate")
    key = []
    for n, (name, dflt) in enumerate(params):
        if n < len(args):
            key.append(args[n])
        elif name in kwargs:
            key.append(kwargs[name])
        elif dflt is not None:
            key.append(dflt)
        else:
            raise BindError("missing")
    return tuple(key)


def params_of(space):
    """(name, default | None) of the parameter formula the space carries NOW, or None"""
    f = space._impl.formula
    if f is None:
        return None
    import inspect
    out = []
    for p in f.signature.parameters.values():
        out.append((p.name, None if p.default is inspect.Parameter.empty else p.default))
    return out


# ----------------------------------------------------------------------------- chains

def seg_args(seg):
    if seg[0] == "call":
        return list(seg[1]), dict(seg[2])
    return list(seg[1]), {}


def chain_txt(path, chain):
    s = path
    for seg in chain:
        if seg[0] == "attr":
            s += "." + seg[1]
        elif seg[0] == "idx":
            s += "[%s]" % ",".join(map(str, seg[1]))
        elif seg[0] == "key":
            s += "<%s>" % ",".join(map(str, seg[1]))
        else:
            s += "(%s)" % ",".join([str(a) for a in seg[1]] + ["%s=%s" % kv for kv in sorted(seg[2].items())])
    return s


def static_space(m, path):
    obj = m
    for p in path.split("."):
        obj = obj.spaces[p]
    return obj


def step(obj, seg):
    """one access step through the public API (creates instances)"""
    if seg[0] == "attr":
        return obj.spaces[seg[1]]
    if seg[0] == "idx":
        return obj[seg[1][0]] if len(seg[1]) == 1 else obj[tuple(seg[1])]
    if seg[0] == "key":
        return obj[tuple(seg[1])]
    return obj(*seg[1], **seg[2])


def walk(m, path, chain):
    obj = static_space(m, path)
    for seg in chain:
        obj = step(obj, seg)
    return obj


def canon_chain(m, path, chain):
    """the chain with every spelling replaced by its bound key (['key', [..]]), computed with
    `ref_bind` from the signatures the nodes on the way carry now; None if it does not bind"""
    try:
        obj = static_space(m, path)
    except Exception:
        return None
    out = []
    for seg in chain:
        if seg[0] == "attr":
            if seg[1] not in obj.spaces:
                return None
            obj = obj.spaces[seg[1]]
            out.append(["attr", seg[1]])
            continue
        ps = params_of(obj)
        if ps is None:
            return None
        a, kw = seg_args(seg)           # a key segment is a subscription: it is bound like one
        try:
            key = ref_bind(ps, a, kw)
        except BindError:
            return None
        out.append(["key", list(key)])
        if key not in obj._impl.param_spaces:
            return out if seg is chain[-1] else None
        obj = obj._impl.param_spaces[key].interface
    return out


def resolve(m, path, cchain):
    """the live object under a canonical chain, WITHOUT creating anything; None if absent"""
    try:
        obj = static_space(m, path)
    except Exception:
        return None
    for seg in cchain:
        if not obj._is_valid():
            return None
        if seg[0] == "attr":
            if seg[1] not in obj.spaces:
                return None
            obj = obj.spaces[seg[1]]
        else:
            key = tuple(seg[1])
            if key not in obj._impl.param_spaces:
                return None
            obj = obj._impl.param_spaces[key].interface
    return obj


def all_static(m):
    out = []

    def rec(parent, prefix):
        for name, s in parent.spaces.items():
            out.append((prefix + name, s))
            rec(s, prefix + name + ".")
    rec(m, "")
    return out


def dyn_entries(m):
    """[(static path, canonical chain, DynamicSpace interface, is_item)] of every live dynamic
    space reachable from the static spaces through param_spaces and named_spaces"""
    out = []

    def under(path, chain, node):
        for key, impl in list(node._impl.param_spaces.items()):
            c = chain + [["key", list(key)]]
            out.append((path, c, impl.interface, True))
            below(path, c, impl.interface)

    def below(path, chain, dyn):
        under(path, chain, dyn)
        for name, ch in dyn.spaces.items():
            c = chain + [["attr", name]]
            out.append((path, c, ch, False))
            below(path, c, ch)

    for path, s in all_static(m):
        under(path, [], s)
    return out


def outermost(impl):
    """the top-level ItemSpaceImpl (child of a static space) a dynamic impl lives in"""
    cur = impl
    top = impl
    while cur is not None and hasattr(cur, "is_dynamic") and not cur.is_model() and cur.is_dynamic():
        top = cur
        cur = cur.parent
    return top


# ----------------------------------------------------------------------------- the world

EDIT_KINDS = ("new_space", "del_space", "set_pformula", "new_cells", "set_formula", "del_cells", "rename_cells",
              "set_ref", "del_ref", "set_mref", "del_mref", "add_bases", "remove_bases",
              "assign", "clear_at", "del_item", "clear_items", "clear_all")
DEF_EDITS = EDIT_KINDS[:13]        # edits of definitions (not of instance values / instances)


class World:
    def __init__(self, name="M"):
        self.m = mx.new_model(name)

    def close(self):
        try:
            self.m.close()
        except Exception:
            pass

    def apply(self, op):
        self.walked = None          # set by ops that follow an access chain: did the access succeed
        try:
            with quiet(), limited():
                return self._apply(op)
        except FormulaError:
            return "err Formula " + err_kind(mx.get_error())
        except Exception as e:
            return "err " + err_kind(e)

    def _apply(self, op):
        m, k = self.m, op[0]
        if k == "new_space":
            parent = m if op[1] == "-" else static_space(m, op[1])
            formula = PFORMS[op[3]]["src"] if op[3] is not None else None
            bases = [static_space(m, b) for b in op[4]] or None
            parent.new_space(op[2], bases=bases, formula=formula)
            return "ok"
        if k == "del_space":
            path = op[1]
            parent = m if "." not in path else static_space(m, path.rsplit(".", 1)[0])
            delattr(parent, path.rsplit(".", 1)[-1])
            return "ok"
        if k == "set_pformula":
            s = static_space(m, op[1])
            if op[2] is None:
                del s.formula
            else:
                s.formula = PFORMS[op[2]]["src"]
            return "ok"
        if k == "new_cells":
            static_space(m, op[1]).new_cells(op[2], formula=op[3])
            return "ok"
        if k == "set_formula":
            static_space(m, op[1]).cells[op[2]].formula = op[3]
            return "ok"
        if k == "del_cells":
            del static_space(m, op[1]).cells[op[2]]
            return "ok"
        if k == "rename_cells":
            static_space(m, op[1]).cells[op[2]].rename(op[3])
            return "ok"
        if k == "set_ref":
            # ["set_ref", space, name, value] / [.., ["obj", path], mode]: an object-valued reference (a space or a
            # cells of this model, by its dotted path) with the reference mode
            v = objvalue(m, op[3])
            if len(op) > 4 and op[4] not in (None, "auto"):
                static_space(m, op[1]).set_ref(op[2], v, op[4])
            else:
                setattr(static_space(m, op[1]), op[2], v)
            return "ok"
        if k == "del_ref":
            delattr(static_space(m, op[1]), op[2])
            return "ok"
        if k == "set_mref":
            setattr(m, op[1], op[2])
            return "ok"
        if k == "del_mref":
            delattr(m, op[1])
            return "ok"
        if k == "add_bases":
            static_space(m, op[1]).add_bases(*[static_space(m, b) for b in op[2]])
            return "ok"
        if k == "remove_bases":
            static_space(m, op[1]).remove_bases(*[static_space(m, b) for b in op[2]])
            return "ok"
        if k == "item":
            obj = walk(m, op[1], op[2])
            self.last_obj = obj
            return "ok"
        if k == "eval":
            obj = walk(m, op[1], op[2])
            self.walked = True
            return "ok " + val_repr(obj.cells[op[3]](op[4]))
        if k == "evalstatic":
            return "ok " + val_repr(static_space(m, op[1]).cells[op[2]](op[3]))
        if k == "assign":
            obj = walk(m, op[1], op[2])
            self.walked = True
            obj.cells[op[3]][op[4]] = op[5]
            return "ok"
        if k == "clear_at":
            obj = walk(m, op[1], op[2])
            self.walked = True
            obj.clear_at(*op[3], **op[4])
            return "ok"
        if k == "del_item":
            obj = walk(m, op[1], op[2])
            self.walked = True
            key = tuple(op[3])
            del obj[key if len(key) != 1 else key[0]]
            return "ok"
        if k == "clear_items":
            walk(m, op[1], op[2]).clear_items()
            return "ok"
        if k == "clear_all":
            walk(m, op[1], op[2]).clear_all()
            return "ok"
        return "bad-op"


def is_obj(v):
    return isinstance(v, (list, tuple)) and len(v) == 2 and v[0] == "obj"


def objvalue(m, v):
    if not is_obj(v):
        return v
    obj = m
    for p in v[1].split("."):
        obj = getattr(obj, p)
    return obj


def fresh_replay(ops, upto, name="F"):
    """a model to which only the edits among ops[0..upto) were applied (no evaluation, no access)"""
    w = World(name)
    for op in ops[:upto]:
        if op[0] in EDIT_KINDS:
            w.apply(op)
    return w


# ----------------------------------------------------------------------------- observation of an instance

def eval_cells(space, name, x):
    try:
        with quiet(), limited():
            return "ok " + val_repr(space.cells[name](x))
    except FormulaError:
        return "err Formula " + err_kind(mx.get_error())
    except Exception as e:
        return "err " + err_kind(e)


def tree_values(dyn, prefix=""):
    """{relative address: result} for every cells of a dynamic space and of its replicated
    children, plus the structure (cells names, child names) – everything the instance serves"""
    out = {}
    out[prefix + "#cells"] = ",".join(sorted(dyn.cells))
    out[prefix + "#spaces"] = ",".join(sorted(dyn.spaces))
    for cn in list(dyn.cells):
        for x in QUERY:
            out["%s%s(%d)" % (prefix, cn, x)] = eval_cells(dyn, cn, x)
    for name in list(dyn.spaces):
        out.update(tree_values(dyn.spaces[name], prefix + name + "."))
    return out


def held_values(dyn, prefix=""):
    """values currently held (without evaluating anything)"""
    out = {}
    for cn, c in dyn.cells.items():
        out[prefix + cn] = sorted("%r=%s%s" % (k, val_repr(v), "I" if k in c._impl.input_keys else "C")
                                  for k, v in c._impl.data.items())
    for name, ch in dyn.spaces.items():
        out.update(held_values(ch, prefix + name + "."))
    for key, impl in dyn._impl.param_spaces.items():
        out.update(held_values(impl.interface, prefix + "<%s>." % ",".join(map(str, key))))
    return out


# ----------------------------------------------------------------------------- replica

def int_refs(space):
    out = {}
    for n in space._own_refs:
        v = space._impl.own_refs[n].interface
        if isinstance(v, int) and not isinstance(v, bool):
            out[n] = v
    return out


def expected_base_and_refs(m, path, cchain):
    """walk the STATIC definitions along a canonical chain: the static space an instance at this
    address is to be a copy of, the argument maps (outermost first), and the references the
    innermost parameter formula returns – computed by evaluating the formula sources as plain
    Python (no modelx involved)"""
    cur = static_space(m, path)
    argmaps, frefs = [], {}
    for seg in cchain:
        if seg[0] == "attr":
            cur = cur.spaces[seg[1]]
            frefs = {}
            continue
        ps = params_of(cur)
        bound = dict(zip([p[0] for p in ps], seg[1]))
        src = cur._impl.formula.source
        ret = eval(src, {"_model": m})(**bound)
        frefs = {}
        if isinstance(ret, dict):
            if "base" in ret:
                cur = ret["base"]
            frefs = dict(ret.get("refs") or {})
        argmaps.append(bound)
    return cur, argmaps, frefs


class NotReplicable(Exception):
    pass


def obj_refs(space):
    """{name: (object, mode)} for the own references of a space whose value is a modelx object"""
    out = {}
    for n in space._own_refs:
        r = space._impl.own_refs[n]
        if hasattr(r.interface, "_impl"):
            out[n] = (r.interface, r.refmode)
    return out


def inside(base, obj):
    """the path of `obj` relative to the space `base` ([] for base itself), or None when it is not in base's tree"""
    b, o = base.fullname.split("."), obj.fullname.split(".")
    return o[len(b):] if o[:len(b)] == b else None


def follow(root, rel):
    for n in rel:
        root = getattr(root, n)
    return root


def build_replica(rm, name, base, argmaps, frefs, dyn):
    """plain static copy of `base` in the model `rm` with the arguments (innermost wins) and the
    formula's references bound as references; input values of `dyn` are copied.  A reference of the base tree whose
    value is a member of the base tree (not in absolute mode) denotes the copy's own member; any other
    object-valued reference cannot be copied into another model (NotReplicable)"""
    args = {}
    for a in argmaps:
        args.update(a)
    later = []

    def copy(rs, b, own, d):
        for cn, c in b.cells.items():
            rs.new_cells(cn, formula=c.formula.source)
        refs = int_refs(b)
        refs.update(own)
        refs.update(args)
        for n, v in refs.items():
            setattr(rs, n, v)
        for n, (v, mode) in obj_refs(b).items():
            if n in refs:
                continue
            rel = inside(base, v) if v._is_valid() else None
            if rel is None or mode == "absolute":
                raise NotReplicable(n)
            later.append((rs, n, rel))
        for chn, ch in b.spaces.items():
            copy(rs.new_space(chn), ch, {}, d.spaces[chn] if d is not None and chn in d.spaces else None)
        if d is not None:
            for cn, c in d.cells.items():
                if cn in rs.cells:
                    for k in c._impl.input_keys:
                        rs.cells[cn][k if len(k) != 1 else k[0]] = c._impl.data[k]

    rs = rm.new_space(name)
    copy(rs, base, frefs, dyn)
    for sp, n, rel in later:
        setattr(sp, n, follow(rs, rel))
    return rs
