"""One call that creates SEVERAL members (C11: "a rejected edit changes nothing" for the multi-member entry points).

Operations added to the vocabulary of `structworld.Live` (all through the public API):

  ["batch_cells_pandas", space, cols, names|None, how]         how: "pandas" -> space.new_cells_from_pandas(df, cells=names)
                                                               "csv" -> space.new_cells_from_csv(file, cells=names, index_col=0)
  ["batch_space_pandas", parent|"-", name, cols, names|None, how, bases?]
                                                               parent.new_space_from_pandas / new_space_from_csv(space=name, cells=names)
  ["batch_cells_module", space, funcs, how]                    how: "new_cells_from_module" | "import_funcs";
                                                               funcs = [[name, kind]...], kind in FUNC_KINDS - a module written to a file
  ["batch_space_module", parent|"-", name, funcs, how, bases]  how: "import_module" | "new_space_from_module" (name=, bases=)
  ["copy_space", source, parent|"-", name|None]                source.copy(parent, name)

`cols` are the column labels of a DataFrame with the index `idx_` = 0, 1, 2 (a name no alphabet uses: in a csv file a
column labelled like the index column would be renamed by pandas) and integer values (column i holds 10*i + x).
The k-th member of such a call may be unacceptable: a name in use in the space (cells / reference / child space /
model-level reference), in use for something else in a SUB space, an invalid name, a name given twice in the call, a
formula modelx cannot take.  Nothing about "must be refused" is asserted here: the hooks of the property judge each
call by the description of the whole model before and after.
"""
import atexit
import importlib.util
import keyword
import os
import shutil
import sys
import tempfile
import warnings

from . import core
from . import structworld as W

KINDS = ("batch_cells_pandas", "batch_space_pandas", "batch_cells_module", "batch_space_module", "copy_space")

KEY_COPY = "copy-space-cells-named-like-global"           # Space.copy: a cells named like a model-level reference stops the copy half-way
KEY_IMPORT_MODULE = "import-module-space-first"          # import_module / new_space_from_module create the space before looking at the functions

FUNC_KINDS = {
    "def": "def {n}(x): return x + {k}\n",
    "scalar": "def {n}(): return {k}\n",
    "lambda": "{n} = lambda x: x * {k}\n",
    # two lambdas on one line: modelx cannot tell which source text belongs to which (refused when the Formula is built)
    "twin": "{n} = lambda x: x + {k}; {n}_twin_ = lambda x: x - {k}\n",
}

_DIR = []


def _tmpdir():
    if not _DIR:
        d = tempfile.mkdtemp(prefix="mxh-batch-")
        _DIR.append(d)
        atexit.register(shutil.rmtree, d, True)
    return _DIR[0]


_COUNT = [0]


def valid_name(n):
    return isinstance(n, str) and n.isidentifier() and not keyword.iskeyword(n) and not n.startswith("_")


def frame(cols):
    import pandas as pd
    idx = pd.Index([0, 1, 2], name="idx_")
    data = [[10 * i + x for i in range(len(cols))] for x in range(3)]
    return pd.DataFrame(data, index=idx, columns=list(cols))


def csv_file(cols):
    _COUNT[0] += 1
    path = os.path.join(_tmpdir(), "t%d.csv" % _COUNT[0])
    with open(path, "w") as f:
        f.write(",".join(["idx_"] + [str(c) for c in cols]) + "\n")
        for x in range(3):
            f.write(",".join([str(x)] + [str(10 * i + x) for i in range(len(cols))]) + "\n")
    return path


def module_source(funcs):
    out = ['"""functions offered to modelx in one call"""\n']
    for i, (n, kind) in enumerate(funcs):
        out.append(FUNC_KINDS[kind].format(n=n, k=i + 1))
    return "".join(out)


def make_module(modname, funcs):
    """a real module with a file behind it (so that the source of its functions can be retrieved)"""
    _COUNT[0] += 1
    d = os.path.join(_tmpdir(), "m%d" % _COUNT[0])
    os.makedirs(d)
    path = os.path.join(d, modname + ".py")
    with open(path, "w") as f:
        f.write(module_source(funcs))
    spec = importlib.util.spec_from_file_location(modname, path)
    mod = importlib.util.module_from_spec(spec)
    old = sys.modules.get(modname)
    sys.modules[modname] = mod
    try:
        spec.loader.exec_module(mod)
    finally:
        if old is not None:
            sys.modules[modname] = old
        else:
            sys.modules.pop(modname, None)
    return mod


def resolved_names(cols, names):
    """the names `_overwrite_colnames` arrives at: the explicit name where it is a valid one, else the column label"""
    out = []
    for i, c in enumerate(cols):
        n = names[i] if names is not None and i < len(names) else None
        out.append(n if valid_name(n) else c)
    return out


def apply(live, k, op):
    m = live.m
    with warnings.catch_warnings():
        warnings.simplefilter("ignore")
        if k == "batch_cells_pandas":
            s = live.space(op[1])
            cols, names, how = op[2], op[3], op[4]
            if how == "csv":
                s.new_cells_from_csv(csv_file(cols), cells=names, index_col=0)
            else:
                s.new_cells_from_pandas(frame(cols), cells=names)
            return "ok"
        if k == "batch_space_pandas":
            parent = m if op[1] == "-" else live.space(op[1])
            cols, names, how = op[3], op[4], op[5]
            if how == "csv":
                parent.new_space_from_csv(csv_file(cols), space=op[2], cells=names, index_col=0)
            else:
                parent.new_space_from_pandas(frame(cols), space=op[2], cells=names)
            return "ok"
        if k == "batch_cells_module":
            s = live.space(op[1])
            mod = make_module("mxh_funcs", op[2])
            getattr(s, op[3])(mod)
            return "ok"
        if k == "batch_space_module":
            parent = m if op[1] == "-" else live.space(op[1])
            mod = make_module(op[2] if valid_name(op[2]) else "mxh_funcs", op[3])
            bases = [live.space(b) for b in op[5]] if len(op) > 5 and op[5] else None
            kw = {"name": op[2]}
            if bases:
                kw["bases"] = bases
            getattr(parent, op[4])(mod, **kw)
            return "ok"
        if k == "copy_space":
            src = live.space(op[1])
            parent = m if op[2] == "-" else live.space(op[2])
            inside = op[2] != "-" and (op[2] == op[1] or op[2].startswith(op[1] + "."))
            if inside:
                return "bad-op"      # a space copied into itself does not terminate (side observation 12): not offered
            src.copy(parent, op[3])
            return "ok"
    return "bad-op"


_PROBE = {}


def import_module_checks_first():
    """which of the two models of import_module / new_space_from_module describes the code under test: asked once per
    process, on one input (a module with a function named like a model-level reference, imported into a throw-away
    model).  True: the call was refused and left nothing (the functions are checked before the space is created:
    `SM.St.newSpaceModuleChecked`); False: the space stayed (`SM.St.newSpaceModule`, known finding
    C11-import-module-space-first).  Every other input is then compared with the model chosen."""
    if "first" not in _PROBE:
        from .impl import mx
        m = mx.new_model("ProbeImportModule")
        try:
            m.g = 1
            with warnings.catch_warnings():
                warnings.simplefilter("ignore")
                try:
                    m.import_module(make_module("T", [["g", "def"]]), name="T")
                    _PROBE["first"] = False
                except Exception:   # noqa
                    _PROBE["first"] = "T" not in m.spaces
        finally:
            m.close()
    return _PROBE["first"]


# ----------------------------------------------------------------------------- known findings (recognisers)

def _names_of(sd, mrefs=()):
    return set(sd["cells"]) | set(sd["refs"]) | set(sd["children"]) | set(mrefs)


def _sub_paths(live, path):
    from . import struct_api_gen as api
    try:
        return [W.rel(live.m, i.interface) for i in api.subs_of(live.space(path))[1:]]
    except Exception:   # noqa
        return []


def classify(live, op, result, before, after):
    """the known finding a refused multi-member call that changed the model is an instance of, or None.  Decided from
    the operation and the description BEFORE it; each class is the failing input class of one entry of
    known_findings.json.  A name that is in use in the space the cells go to is NOT in any class: that refusal is made
    up front by the unchanged code."""
    try:
        kind = op[0]
        if not result.startswith("err"):
            return None
        mrefs = set(before["mrefs"])
        # batch_cells_pandas / batch_space_pandas (repaired by /repo 3927bad) and batch_cells_module (8ba4963) have no
        # class any more: a refused call of these that changes the model is a violation
        # copy_space (repaired by /repo 78730cd: the names are checked before anything is created) has no class any more
        if kind == "batch_space_module" and not import_module_checks_first():
            # import_module / new_space_from_module ONLY: the space is created, then the functions are looked at
            target = op[2] if op[1] == "-" else op[1] + "." + op[2]
            funcs, bases = op[3], (op[5] if len(op) > 5 and op[5] else [])
            if target in before["spaces"] or target not in after["spaces"]:
                return None
            # ... and nothing but the (empty) space and what derives it appeared: no cells of the module was created
            if after["spaces"][target]["cells"] and any(
                    not c["derived"] for c in after["spaces"][target]["cells"].values()):
                return None
            taken = set(mrefs)
            for b_ in bases:
                bd = before["spaces"].get(b_, {})
                taken |= set(bd.get("refs", ())) | set(bd.get("children", ()))
            for n, fk in funcs:
                if fk == "twin" or n in taken:
                    return KEY_IMPORT_MODULE
            return None
    except Exception:   # noqa
        return None
    return None


# ----------------------------------------------------------------------------- the scenario family

GOOD = ["p1", "p2", "p3"]


def base_program():
    """S: cells foo (an input, a value), total; reference k; child space `child`; Sub derives S and has a reference q,
    a child space `w` and a cells `own` of its own; P is parametrised with two ItemSpaces built; a model-level
    reference g.  Everything evaluated."""
    F = ["def foo(x): return 2 * x + k", "def total(): return foo(1) + foo(2)"]
    return [["set_mref", "g", 7], ["new_space", "-", "S", []], ["set_ref", "S", "k", 3],
            ["new_cells_src", "S", "foo", F[0]], ["new_cells_src", "S", "total", F[1]], ["new_space", "S", "child", []],
            ["new_space", "-", "Sub", ["S"]], ["set_ref", "Sub", "q", 5], ["new_space", "Sub", "w", []],
            ["new_cells_src", "Sub", "own", "def own(x): return foo(x) + q"],
            ["new_space", "-", "P", []], ["new_cells_src", "P", "h", "def h(x): return x + i"],
            ["set_param", "P", 1], ["set_value", "S", "foo", 1, 10], ["set_value", "Sub", "foo", 2, 20],
            ["eval_item", "P", 0, "h", 1], ["eval_item", "P", 1, "h", 2], ["evalall"]]


# (label, name) - the unacceptable k-th member; `where` says which targets it is unacceptable for
BAD = [
    ("a cells of the space", "foo"),
    ("a reference of the space", "k"),
    ("a child space of the space", "child"),
    ("a model-level reference", "g"),
    ("a reference of a sub space", "q"),
    ("a child space of a sub space", "w"),
    ("a cells of a sub space only", "own"),      # acceptable: the sub's cells overrides
    ("an invalid name", "1a"),
    ("a keyword", "for"),
    ("a name starting with an underscore", "_p"),
]


def family():
    """[(label, ops)]: every multi-member entry point x the position of the unacceptable member (first, second, last of
    three) x what makes it unacceptable (BAD, a name given twice in the call, a formula modelx cannot take), each call
    followed by evaluating everything and by the accepted variant of the same call"""
    out = []
    pre = base_program()

    def place(bad, pos):
        names = list(GOOD)
        names[pos] = bad
        return names

    for pos in (0, 1, 2):
        cases = [(lab, place(n, pos)) for lab, n in BAD]
        dup = list(GOOD)
        dup[pos] = GOOD[(pos + 1) % 3] if pos == 0 else GOOD[0]
        cases.append(("a name given twice in the call", dup))
        for lab, names in cases:
            tail = [["evalall"]]
            what = "%s at position %d" % (lab, pos + 1)
            for how in ("pandas", "csv"):
                # explicit names over acceptable column labels / the names as column labels / explicit names shorter
                # than the columns / an invalid explicit name falling back on the label
                out.append(("new_cells_from_%s, explicit names: %s" % (how, what),
                            pre + [["batch_cells_pandas", "S", ["c1", "c2", "c3"], names, how]] + tail))
                out.append(("new_cells_from_%s, column labels: %s" % (how, what),
                            pre + [["batch_cells_pandas", "S", names, None, how]] + tail))
                out.append(("new_space_from_%s in the model, explicit names: %s" % (how, what),
                            pre + [["batch_space_pandas", "-", "T", ["c1", "c2", "c3"], names, how]] + tail))
                out.append(("new_space_from_%s in S, column labels: %s" % (how, what),
                            pre + [["batch_space_pandas", "S", "T", names, None, how]] + tail))
            out.append(("new_cells_from_pandas, explicit names fall back on labels: %s" % what,
                        pre + [["batch_cells_pandas", "S", names, ["1x", "for", "_y"], "pandas"]] + tail))
            out.append(("new_cells_from_pandas, two explicit names for three columns: %s" % what,
                        pre + [["batch_cells_pandas", "S", ["c1", "c2", names[2]], names[:2], "pandas"]] + tail))
            if all(valid_name(n) or n == "_p" for n in names) and len(set(names)) == 3:
                funcs = [[n, "def"] for n in sorted(names)]
                for how in ("new_cells_from_module", "import_funcs"):
                    out.append(("%s: %s" % (how, what), pre + [["batch_cells_module", "S", funcs, how]] + tail))
                for how in ("import_module", "new_space_from_module"):
                    out.append(("%s with S as base: %s" % (how, what),
                                pre + [["batch_space_module", "-", "T", funcs, how, ["S"]]] + tail))
                    out.append(("%s in S: %s" % (how, what),
                                pre + [["batch_space_module", "S", "T", funcs, how, []]] + tail))
            if all(valid_name(n) for n in names) and len(set(names)) == 3:
                out.append(("new_space(refs=...): %s" % what,
                            pre + [["new_space", "-", "T", ["S"], {n: i + 1 for i, n in enumerate(names)}]] + tail))
                out.append(("new_space(refs=...) in Sub: %s" % what,
                            pre + [["new_space", "Sub", "T", [], {n: i + 1 for i, n in enumerate(names)}]] + tail))
        # a formula modelx cannot take as the k-th function of a module
        funcs = [[n, "def"] for n in GOOD]
        funcs[pos][1] = "twin"
        out.append(("new_cells_from_module: two lambdas on a line at position %d" % (pos + 1),
                    pre + [["batch_cells_module", "S", funcs, "new_cells_from_module"], ["evalall"]]))
        out.append(("import_module: two lambdas on a line at position %d" % (pos + 1),
                    pre + [["batch_space_module", "-", "T", funcs, "import_module", []], ["evalall"]]))
    # the space a call creates clashes itself / copies
    for name in ("S", "g", "1a"):
        out.append(("new_space_from_pandas: the space is named %r" % name,
                    pre + [["batch_space_pandas", "-", name, ["c1", "c2"], None, "pandas"], ["evalall"]]))
        out.append(("import_module: the space is named %r" % name,
                    pre + [["batch_space_module", "-", name, [["a", "def"], ["b", "def"]], "import_module", []], ["evalall"]]))
        out.append(("copy: the copy is named %r" % name, pre + [["copy_space", "S", "-", name], ["evalall"]]))
    for parent, name in (("Sub", "q"), ("Sub", "foo"), ("Sub", "w"), ("Sub", "child"), ("P", "h"), ("S", "k"), ("-", "T"),
                         ("Sub", "T"), ("P", "T")):
        out.append(("copy of S into %s as %r" % (parent, name), pre + [["copy_space", "S", parent, name], ["evalall"]]))
        out.append(("copy of Sub into %s as %r" % (parent, name), pre + [["copy_space", "Sub", parent, name], ["evalall"]]))
    return out


# ----------------------------------------------------------------------------- generator (random histories)

def gen(rng, live, cfg=None, prev=None, focus=None):
    """API histories (struct_api_gen.gen_api) in which about a third of the requests is a multi-member call aimed at
    the names in use in the space, its bases and its sub spaces"""
    from . import struct_api_gen as api
    paths = [p for p, _ in W.all_spaces(live.m)]
    if not paths or rng.random() < 0.62:
        return api.gen_api(rng, live, cfg, prev, focus)
    spaces = dict(W.all_spaces(live.m))
    path = rng.choice(paths)
    s = spaces[path]

    def used():
        names = set()
        try:
            rel = api.subs_of(s) + [b._impl for b in s.bases]
        except Exception:   # noqa
            rel = [s._impl]
        for i in rel:
            names |= set(i.cells) | set(i.own_refs) | set(i.named_spaces)
        names |= set(k for k in live.m.refs if not k.startswith("__"))
        return sorted(n for n in names if isinstance(n, str))

    def name():
        u = used()
        q = rng.random()
        if u and q < 0.4:
            return rng.choice(u)
        if q < 0.5:
            return rng.choice(api.BADN)
        return rng.choice(api.PLAIN + ["p", "q", "v", "w"])

    n = rng.choice([2, 2, 3, 3, 4])
    fresh = ["n%d" % i for i in range(1, n + 1)]
    names = list(fresh)
    for _ in range(rng.choice([1, 1, 1, 2])):
        names[rng.randrange(n)] = name()
    if rng.random() < 0.15:
        names[rng.randrange(n)] = names[rng.randrange(n)]      # a name twice
    how = rng.choice(["pandas", "pandas", "csv"])
    r = rng.random()
    if r < 0.4:
        q = rng.random()
        if q < 0.55:
            return ["batch_cells_pandas", path, fresh, names, how]
        if q < 0.8:
            return ["batch_cells_pandas", path, names, None, how]
        return ["batch_cells_pandas", path, names, [rng.choice(api.BADN + fresh) for _ in range(rng.randint(1, n))], how]
    if r < 0.55:
        parent = rng.choice(["-", path])
        sname = rng.choice(api.TOPS if parent == "-" else api.CHILDN + ["T"])
        if rng.random() < 0.5:
            return ["batch_space_pandas", parent, sname, fresh, names, how]
        return ["batch_space_pandas", parent, sname, names, None, how]
    if r < 0.8:
        funcs = [[nm, rng.choice(["def", "def", "def", "scalar", "lambda"])] for nm in sorted(set(
            x for x in names if isinstance(x, str) and x.isidentifier() and not keyword.iskeyword(x)))]
        if rng.random() < 0.08 and funcs:
            funcs[rng.randrange(len(funcs))][1] = "twin"
        if rng.random() < 0.6:
            return ["batch_cells_module", path, funcs, rng.choice(["new_cells_from_module", "import_funcs"])]
        parent = rng.choice(["-", path])
        sname = rng.choice(api.TOPS if parent == "-" else api.CHILDN + ["T"])
        bases = [rng.choice(paths)] if rng.random() < 0.6 else []
        return ["batch_space_module", parent, sname, funcs, rng.choice(["import_module", "new_space_from_module"]), bases]
    if r < 0.9:
        parent = rng.choice(["-"] + paths)
        if parent != "-" and (parent == path or parent.startswith(path + ".")):
            parent = "-"
        return ["copy_space", path, parent, rng.choice(api.TOPS + api.CHILDN + [None, "T"])]
    bases = rng.sample(paths, min(len(paths), rng.choice([0, 1, 1, 2])))
    parent = rng.choice(["-", path])
    sname = rng.choice(api.TOPS if parent == "-" else api.CHILDN + ["T"])
    return ["new_space", parent, sname, bases, {nm: i + 1 for i, nm in enumerate(names)}]


def run(ctx, out, stats, hooks_factory, cfg, run_one, run_family, quick=30, thorough=700):
    fam = family()
    # quick: a third of the family, rotating with the seed (every member within three seeds); thorough: all of it
    if ctx.tier == "quick":
        part = [f for i, f in enumerate(fam) if i % 3 == ctx.seed % 3]
    else:
        part = fam
    refused = run_family(out, stats, part, hooks_factory, cfg, "batch_family", max_failures=6)
    n = ctx.n(quick, thorough)
    from . import struct_api_gen as api
    for i in range(n):
        rng = ctx.rng("batch", i)
        sub = core.Outcome()
        ops = api.prefix(rng)
        run_one(ops, sub, stats, hooks_factory(), cfg, rng=rng, n_ops=len(ops) + rng.randint(8, 18), gen=gen)
        stats["batch_histories"] += 1
        out.failures += sub.failures
        out.disagreements += sub.disagreements
        if len([f for f in out.failures if not f.get("key")]) >= 3:
            break
    out.coverage["evaluations"] = out.coverage.get("evaluations", 0) + n + len(part)
    out.coverage["rule"] = out.coverage.get("rule", "") + (
        "; plus the multi-member family (batch_api.family, %d of %d programs this run, %d with a refused call): every "
        "entry point that creates several members in one call (new_cells_from_pandas/_csv with explicit names, column "
        "labels, fall-back names; new_space_from_pandas/_csv; new_cells_from_module / import_funcs; import_module / "
        "new_space_from_module with and without bases; new_space(refs=) with three names; Space.copy) x the position of "
        "the unacceptable member (1st, 2nd, 3rd) x what is wrong with it (a cells / reference / child space of the space, "
        "a model-level reference, a reference / child space / cells of a sub space, invalid name, keyword, underscore, a "
        "name twice in the call, two lambdas on a line), on a model with inputs, values, a sub space and ItemSpaces; plus "
        "%d random API histories in which a third of the requests are such calls (batch_api.gen)" % (
            len(part), len(fam), refused, n))
