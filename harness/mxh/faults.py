"""In-process fault injection for C14 (no change to /repo).

While an `Injector` is active, the primitive operations through which modelx touches the file
system during a save or a load are counted, recorded and - at one chosen index - made to
raise instead of running ("primitive step k raises, the rest does not run").

The wrappers sit at the level at which Python 3.12's pathlib, shutil, tempfile and zipfile
reach the operating system - `os.rename/replace/unlink/rmdir/mkdir`, `io.open`/`builtins.open`
- plus `zipfile.ZipFile.writestr/write/close` and the `dump`/`load` of modelx's picklers.  So
`pathlib.Path.rename/unlink/mkdir/open`, `shutil.move/rmtree/copyfile` and
`tempfile.TemporaryDirectory` are all covered, `shutil.rmtree` at the granularity of its
individual unlink/rmdir calls.  Only operations on paths below the given roots count (so that
import machinery, linecache and friends never shift the indices).

Variants of a fault:  "before" - the operation does not happen;  "after" (only meaningful for
an `open` for writing) - the file is created/truncated, then the exception is raised, which is
what a failing first `write` looks like.
"""
import builtins
import io
import os
import zipfile


class InjectedFault(OSError):
    """the exception raised at the fault point"""


_WRITE_FLAGS = ("w", "a", "x", "+")


class Injector:
    def __init__(self, roots, fault_at=None, variant="before", mode="save", label=None, reads=None):
        self.roots = [os.path.realpath(str(r)) for r in roots]
        self.fault_at = fault_at
        self.variant = variant
        self.mode = mode              # "save": the picklers' dump is wrapped;  "load": their load
        self.reads = reads if reads is not None else (mode == "load")   # count opens for reading
        self.label = label or (lambda p: p)
        self.trace = []               # (opname, labelled args)
        self.fired = None             # the trace entry at which the fault was raised
        self._saved = []
        self._depth = 0

    # ------------------------------------------------------------------ bookkeeping
    def _inside(self, p):
        try:
            s = os.path.realpath(os.fspath(p))
        except TypeError:
            return False
        return any(s == r or s.startswith(r + os.sep) for r in self.roots)

    def _tick(self, name, args, after=None):
        """count one primitive; raise if it is the chosen one"""
        idx = len(self.trace)
        entry = (name,) + tuple(self.label(a) for a in args)
        self.trace.append(entry)
        if self.fault_at is not None and idx == self.fault_at and self.fired is None:
            self.fired = entry
            if after is not None and self.variant == "after":
                after()
            raise InjectedFault("injected fault at op %d %s" % (idx, name))

    def _patch(self, obj, attr, wrapper):
        orig = getattr(obj, attr)
        self._saved.append((obj, attr, orig))
        setattr(obj, attr, wrapper(orig))

    # ------------------------------------------------------------------ wrappers
    def _w_path1(self, name):
        def mk(orig):
            def f(path, *a, **kw):
                if self._depth == 0 and (kw.get("dir_fd") is not None or self._inside(path)):
                    shown = path if kw.get("dir_fd") is None else "<fd>/" + os.fspath(path)
                    self._tick(name, (shown,))
                return orig(path, *a, **kw)
            return f
        return mk

    def _w_path2(self, name):
        def mk(orig):
            def f(src, dst, *a, **kw):
                if self._depth == 0 and (self._inside(src) or self._inside(dst)):
                    self._tick(name, (src, dst))
                return orig(src, dst, *a, **kw)
            return f
        return mk

    def _w_open(self, orig):
        def f(file, mode="r", *a, **kw):
            if self._depth == 0 and not isinstance(file, int):
                writing = any(c in mode for c in _WRITE_FLAGS)
                if (writing or self.reads) and self._inside(file):
                    def after():
                        if writing:
                            orig(file, mode, *a, **kw).close()
                    self._tick("open:" + ("w" if writing else "r"), (file,), after=after)
            return orig(file, mode, *a, **kw)
        return f

    def _w_method(self, name, show=lambda self_, a: ()):
        def mk(orig):
            def f(obj, *a, **kw):
                if self._depth == 0:
                    self._tick(name, show(obj, a))
                self._depth += 1
                try:
                    return orig(obj, *a, **kw)
                finally:
                    self._depth -= 1
            return f
        return mk

    # ------------------------------------------------------------------ context manager
    def __enter__(self):
        from modelx.serialize import custom_pickle as s6
        for nm in ("unlink", "rmdir", "mkdir", "remove"):
            self._patch(os, nm, self._w_path1(nm))
        for nm in ("rename", "replace"):
            self._patch(os, nm, self._w_path2(nm))
        self._patch(io, "open", self._w_open)
        self._patch(builtins, "open", self._w_open)

        def zshow(z, a):
            return (("zip:" + str(z.filename)),)

        # ZipFile methods write through an already opened file object: count the call itself and
        # nothing below it (depth guard)
        self._patch(zipfile.ZipFile, "writestr", self._w_method("zip.writestr", zshow))
        self._patch(zipfile.ZipFile, "write", self._w_method("zip.write", zshow))
        self._patch(zipfile.ZipFile, "close", self._w_zipclose)
        if self.mode == "save":
            self._patch_dump(s6.ModelPickler, "pickle.dump")
            self._patch_dump(s6.IOSpecPickler, "pickle.dump-iospecs")
        else:
            self._patch_load(s6.ModelUnpickler, "pickle.load")
            self._patch_load(s6.IOSpecUnpickler, "pickle.load-iospecs")
        return self

    def _w_zipclose(self, orig):
        def f(z, *a, **kw):
            # only a ZipFile with something to flush performs file-system work on close
            if self._depth == 0 and z.fp is not None and z.mode in ("w", "x", "a") and self._inside(z.filename):
                self._tick("zip.close", ("zip:" + str(z.filename),))
            self._depth += 1
            try:
                return orig(z, *a, **kw)
            finally:
                self._depth -= 1
        return f

    def _patch_dump(self, cls, name):
        inj = self
        had = "dump" in cls.__dict__
        orig = cls.__dict__.get("dump")

        def dump(self_, obj):
            if inj._depth == 0:
                inj._tick(name, ())
            return super(cls, self_).dump(obj)

        cls.dump = dump
        self._saved.append((cls, "dump", orig if had else _DELETE))

    def _patch_load(self, cls, name):
        inj = self
        had = "load" in cls.__dict__
        orig = cls.__dict__.get("load")

        def load(self_):
            if inj._depth == 0:
                inj._tick(name, ())
            return super(cls, self_).load()

        cls.load = load
        self._saved.append((cls, "load", orig if had else _DELETE))

    def __exit__(self, *exc):
        for obj, attr, orig in reversed(self._saved):
            if orig is _DELETE:
                delattr(obj, attr)
            else:
                setattr(obj, attr, orig)
        self._saved = []
        return False


_DELETE = object()
