"""In-process fault injection for C14 (no change to /repo).

While an `Injector` is active, the primitive operations through which modelx touches the file
system during a save or a load are counted, recorded and - at one chosen index - made to
raise instead of running ("primitive step k raises, the rest does not run").

The wrappers sit at the level at which Python 3.12's pathlib, shutil, tempfile and zipfile
reach the operating system - `os.rename/replace/unlink/rmdir/mkdir`, `io.open`/`builtins.open`
- plus `zipfile.ZipFile.writestr/write/close` and the `dump`/`load` of modelx's picklers.  So
`pathlib.Path.rename/unlink/mkdir/open`, `shutil.move/rmtree/copyfile` and
`tempfile.TemporaryDirectory` are all covered, `shutil.rmtree` at the granularity of its
individual unlink/rmdir calls.  Only operations on paths below the given roots count (so that
import machinery, linecache and friends never shift the indices).

A fault has three independent parameters:

* the *variant*:  "before" - the operation does not happen;  "after" (only meaningful for an
  `open` for writing) - the file is created/truncated, then the exception is raised, which is
  what a failing first `write` looks like;
* the *policy*:  "once" - operation number `fault_at` raises, every later operation works (a
  transient error);  "persist" - from operation number `fault_at` on, every operation of the same
  kind on the same target raises again (a locked file, a read-only share: whatever the calling
  code retries keeps failing);
* the *exception type* (`EXC_TYPES`): a plain `OSError`, a `PermissionError`, a
  `FileNotFoundError` - so that the `except` clauses and retry loops of the code under test
  (`ziputil.copy_file`'s GH82 loop, `zipfile`'s file-mode retry, `shutil.move`'s copy fallback,
  the `PermissionError` handler of `TemporaryDirectory.cleanup`, `_get_model_metadata`'s
  `except FileNotFoundError`) see errors of the class they handle.

`time.sleep` is a no-op while an injector is active (retry loops wait between attempts).
Operations performed from a `__del__` (a `ZipFile` collected after its `close` raised) are
neither counted nor faulted: when they run is up to the garbage collector.
"""
import builtins
import errno
import io
import os
import sys
import time
import zipfile


class InjectedFault(OSError):
    """the exception raised at the fault point (every injected exception is one of these)"""


class InjectedPermissionError(InjectedFault, PermissionError):
    pass


class InjectedFileNotFoundError(InjectedFault, FileNotFoundError):
    pass


EXC_TYPES = {
    "os": (InjectedFault, errno.EIO),
    "perm": (InjectedPermissionError, errno.EACCES),
    "notfound": (InjectedFileNotFoundError, errno.ENOENT),
}
POLICIES = ("once", "persist")

_WRITE_FLAGS = ("w", "a", "x", "+")


def _real(p, dir_fd=None):
    """the file an operation is about, as far as it can be told (the key of a persistent fault)"""
    try:
        s = os.fspath(p)
        if isinstance(s, bytes):
            s = os.fsdecode(s)
        if dir_fd is not None:
            try:
                s = os.path.join(os.readlink("/proc/self/fd/%d" % dir_fd), s)
            except OSError:
                return "<fd>/" + s
        return os.path.realpath(s)
    except TypeError:
        return repr(p)


class Injector:
    def __init__(self, roots, fault_at=None, variant="before", mode="save", label=None, reads=None,
                 policy="once", exc="os"):
        self.roots = [os.path.realpath(str(r)) for r in roots]
        self.fault_at = fault_at
        self.variant = variant
        self.policy = policy
        self.exc = exc
        self.mode = mode              # "save": the picklers' dump is wrapped;  "load": their load
        self.reads = reads if reads is not None else (mode == "load")   # count opens for reading
        self.label = label or (lambda p: p)
        self.trace = []               # (opname, labelled args)
        self.fired = None             # the trace entry at which the fault was raised
        self.fired_key = None         # (opname, target) of the fault: what a persistent fault repeats on
        self.nfired = 0               # how many operations were made to fail
        self._saved = []
        self._depth = 0

    # ------------------------------------------------------------------ bookkeeping
    def _inside(self, p):
        try:
            s = os.path.realpath(os.fspath(p))
        except TypeError:
            return False
        return any(s == r or s.startswith(r + os.sep) for r in self.roots)

    @staticmethod
    def _from_del():
        f = sys._getframe(2)
        for _ in range(4):
            if f is None:
                return False
            if f.f_code.co_name == "__del__":
                return True
            f = f.f_back
        return False

    def _raise(self, idx, name, after, on_fault=None):
        self.nfired += 1
        if on_fault is not None:
            on_fault()
        if after is not None and self.variant == "after":
            after()
        cls, eno = EXC_TYPES[self.exc]
        raise cls(eno, "injected fault at op %d %s" % (idx, name))

    def _tick(self, name, args, after=None, key=None, on_fault=None):
        """count one primitive; raise if it is the chosen one (or repeats a persistent fault)"""
        idx = len(self.trace)
        entry = (name,) + tuple(self.label(a) for a in args)
        self.trace.append(entry)
        k = key if isinstance(key, tuple) and key and key[0] == "open" else (name, key)
        if self.fault_at is not None and idx == self.fault_at and self.fired is None:
            self.fired = entry
            self.fired_key = k
            self._raise(idx, name, after, on_fault)
        if self.fired is not None and self.policy == "persist" and k == self.fired_key:
            self._raise(idx, name, after, on_fault)

    def _patch(self, obj, attr, wrapper):
        orig = getattr(obj, attr)
        self._saved.append((obj, attr, orig))
        setattr(obj, attr, wrapper(orig))

    # ------------------------------------------------------------------ wrappers
    def _w_path1(self, name):
        def mk(orig):
            def f(path, *a, **kw):
                if self._depth == 0 and (kw.get("dir_fd") is not None or self._inside(path)) \
                        and not self._from_del() and not (name == "mkdir" and os.path.isdir(path)):
                    # (mkdir of a directory that exists - `mkdir(parents=True, exist_ok=True)` before
                    # every file - fails by itself and is ignored by pathlib: not an operation)
                    shown = path if kw.get("dir_fd") is None else "<fd>/" + os.fspath(path)
                    self._tick(name, (shown,), key=_real(path, kw.get("dir_fd")))
                return orig(path, *a, **kw)
            return f
        return mk

    def _w_path2(self, name):
        def mk(orig):
            def f(src, dst, *a, **kw):
                if self._depth == 0 and (self._inside(src) or self._inside(dst)) and not self._from_del():
                    self._tick(name, (src, dst), key=(_real(src), _real(dst)))
                return orig(src, dst, *a, **kw)
            return f
        return mk

    def _w_open(self, orig):
        def f(file, mode="r", *a, **kw):
            if self._depth == 0 and not isinstance(file, int) and not self._from_del():
                writing = any(c in mode for c in _WRITE_FLAGS)
                if (writing or self.reads) and self._inside(file):
                    def after():
                        if writing and not os.path.isdir(file):     # (a directory: NamedTemporaryFile's opener)
                            orig(file, mode, *a, **kw).close()
                    # "w+": opened for update - what zipfile.ZipFile(file, "w" | "a") does
                    self._tick("open:" + (("w+" if "+" in mode else "w") if writing else "r"), (file,),
                               after=after, key=("open", writing, _real(file)))
            return orig(file, mode, *a, **kw)
        return f

    def _w_method(self, name, show=lambda self_, a: ()):
        def mk(orig):
            def f(obj, *a, **kw):
                if self._depth == 0 and not self._from_del():
                    self._tick(name, show(obj, a), key=show(obj, a))
                self._depth += 1
                try:
                    return orig(obj, *a, **kw)
                finally:
                    self._depth -= 1
            return f
        return mk

    # ------------------------------------------------------------------ context manager
    def __enter__(self):
        from modelx.serialize import custom_pickle as s6
        for nm in ("unlink", "rmdir", "mkdir", "remove"):
            self._patch(os, nm, self._w_path1(nm))
        for nm in ("rename", "replace"):
            self._patch(os, nm, self._w_path2(nm))
        self._patch(io, "open", self._w_open)
        self._patch(builtins, "open", self._w_open)
        self._patch(time, "sleep", lambda orig: (lambda *a, **kw: None))

        def zshow(z, a):
            return (("zip:" + str(z.filename)),)

        # ZipFile methods write through an already opened file object: count the call itself and
        # nothing below it (depth guard)
        self._patch(zipfile.ZipFile, "writestr", self._w_method("zip.writestr", zshow))
        self._patch(zipfile.ZipFile, "write", self._w_method("zip.write", zshow))
        self._patch(zipfile.ZipFile, "close", self._w_zipclose)
        if self.mode == "save":
            self._patch_dump(s6.ModelPickler, "pickle.dump")
            self._patch_dump(s6.IOSpecPickler, "pickle.dump-iospecs")
        else:
            self._patch_load(s6.ModelUnpickler, "pickle.load")
            self._patch_load(s6.IOSpecUnpickler, "pickle.load-iospecs")
        return self

    def _w_zipclose(self, orig):
        def f(z, *a, **kw):
            # only a ZipFile with something to flush performs file-system work on close
            if self._depth == 0 and z.fp is not None and z.mode in ("w", "x", "a") \
                    and self._inside(z.filename) and not self._from_del():
                def release():
                    # what a close() that fails leaves: nothing of the central directory written,
                    # the file handle released (ZipFile.close's own `finally`), the object closed
                    fp, z.fp = z.fp, None
                    z._fpclose(fp)
                self._tick("zip.close", ("zip:" + str(z.filename),), key=("zip:" + str(z.filename),),
                           on_fault=release)
            self._depth += 1
            try:
                return orig(z, *a, **kw)
            finally:
                self._depth -= 1
        return f

    def _patch_dump(self, cls, name):
        inj = self
        had = "dump" in cls.__dict__
        orig = cls.__dict__.get("dump")

        def dump(self_, obj):
            if inj._depth == 0:
                inj._tick(name, ())
            return super(cls, self_).dump(obj)

        cls.dump = dump
        self._saved.append((cls, "dump", orig if had else _DELETE))

    def _patch_load(self, cls, name):
        inj = self
        had = "load" in cls.__dict__
        orig = cls.__dict__.get("load")

        def load(self_):
            if inj._depth == 0:
                inj._tick(name, ())
            return super(cls, self_).load()

        cls.load = load
        self._saved.append((cls, "load", orig if had else _DELETE))

    def __exit__(self, *exc):
        for obj, attr, orig in reversed(self._saved):
            if orig is _DELETE:
                delattr(obj, attr)
            else:
                setattr(obj, attr, orig)
        self._saved = []
        return False


_DELETE = object()
