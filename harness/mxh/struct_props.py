"""Shared generator / runner for the structure-level properties (C02 C03 C09 C11 C12 C13)."""
import collections
import json

from . import core
from . import structworld as W
from . import struct_api_gen as api
from .impl import mx, close_all, quiet, err_kind


# ----------------------------------------------------------------------------- generation

def existing(state):
    return list(state["spaces"])


def gen_history(rng, cfg):
    """state tracks only which spaces/cells/refs probably exist (ops may be rejected; that is fine)"""
    st = {"spaces": {}, "order": []}      # path -> {"cells": set, "refs": set, "bases": list}
    ops = []
    w = cfg["weights"]
    kinds = list(w)

    def add_space(parent, name, bases):
        path = name if parent == "-" else parent + "." + name
        st["spaces"][path] = {"cells": set(), "refs": set(), "bases": list(bases)}
        st["order"].append(path)

    # seed: a few spaces
    for _ in range(rng.randint(2, 3)):
        nm = rng.choice([t for t in W.TOP if t not in st["spaces"]] or W.TOP)
        bases = [b for b in st["order"] if rng.random() < 0.4 and "." not in b or rng.random() < 0.1][:2]
        ops.append(["new_space", "-", nm, bases])
        add_space("-", nm, bases)
    n_ops = rng.randint(cfg.get("min_ops", 10), cfg.get("max_ops", 22))
    for _ in range(n_ops):
        k = rng.choices(kinds, [w[x] for x in kinds])[0]
        spaces = existing(st)
        if not spaces:
            k = "new_space"
        s = rng.choice(spaces) if spaces else None
        sd = st["spaces"].get(s, {"cells": set(), "refs": set(), "bases": []})
        if k == "new_space":
            nested = spaces and rng.random() < 0.35
            parent = rng.choice(spaces) if nested else "-"
            if parent != "-" and parent.count(".") >= 1:
                parent = parent.split(".")[0]
            nm = rng.choice(W.CHILD if parent != "-" else W.TOP)
            cand = [b for b in spaces if b != parent]
            bases = rng.sample(cand, min(len(cand), rng.choice([0, 0, 1, 1, 2])))
            ops.append(["new_space", parent, nm, bases])
            add_space(parent, nm, bases)
        elif k == "del_space":
            ops.append(["del_space", s])
            for p in list(st["spaces"]):
                if p == s or p.startswith(s + "."):
                    del st["spaces"][p]
        elif k == "new_cells":
            nm = rng.choice(W.CELLS)
            ops.append(["new_cells", s, nm, W.gen_formula(rng, spaces)])
            sd["cells"].add(nm)
        elif k == "set_formula":
            names = sorted(all_cells(st, s)) or W.CELLS
            ops.append(["set_formula", s, rng.choice(names), W.gen_formula(rng, spaces)])
        elif k == "set_cached":
            names = sorted(all_cells(st, s)) or W.CELLS
            ops.append(["set_cached", s, rng.choice(names), rng.randrange(2)])
        elif k == "del_cells":
            names = sorted(all_cells(st, s)) or W.CELLS
            nm = rng.choice(names)
            ops.append(["del_cells", s, nm])
            sd["cells"].discard(nm)
        elif k == "rename_cells":
            names = sorted(sd["cells"]) or W.CELLS
            ops.append(["rename_cells", s, rng.choice(names), rng.choice(W.CELLS)])
        elif k == "add_bases":
            cand = [b for b in spaces if b != s]
            if cand:
                ops.append(["add_bases", s, rng.sample(cand, min(len(cand), rng.choice([1, 1, 2])))])
        elif k == "remove_bases":
            cand = sd["bases"] or [b for b in spaces if b != s]
            if cand:
                ops.append(["remove_bases", s, [rng.choice(cand)]])
        elif k == "set_ref":
            nm = rng.choice(W.REFS)
            ops.append(["set_ref", s, nm, rng.randint(0, 9)])
            sd["refs"].add(nm)
        elif k == "del_ref":
            ops.append(["del_ref", s, rng.choice(sorted(sd["refs"]) or W.REFS)])
        elif k == "set_mref":
            ops.append(["set_mref", rng.choice(W.MREFS), rng.randint(10, 19)])
        elif k == "del_mref":
            ops.append(["del_mref", rng.choice(W.MREFS)])
        elif k == "set_value":
            names = sorted(all_cells(st, s)) or W.CELLS
            ops.append(["set_value", s, rng.choice(names), rng.choice(W.QUERY_ARGS), rng.randint(20, 29)])
        elif k == "clear":
            names = sorted(all_cells(st, s)) or W.CELLS
            ops.append([rng.choice(["clear", "clear_all"]), s, rng.choice(names)])
        elif k == "eval":
            names = sorted(all_cells(st, s)) or W.CELLS
            ops.append(["eval", s, rng.choice(names), rng.choice(W.QUERY_ARGS)])
        elif k == "evalall":
            ops.append(["evalall"])
        elif k == "bad":
            ops.append(gen_bad(rng, st, spaces))
    return ops


def all_cells(st, s):
    """cells names probably visible in s (own + along bases, roughly)"""
    seen, out, todo = set(), set(), [s]
    while todo:
        p = todo.pop()
        if p in seen or p not in st["spaces"]:
            continue
        seen.add(p)
        out |= st["spaces"][p]["cells"]
        todo += st["spaces"][p]["bases"]
    return out


def gen_bad(rng, st, spaces):
    """the malformed stream: each rejection reason on purpose"""
    s = rng.choice(spaces)
    r = rng.randrange(9)
    if r == 0:
        return ["new_space", "-", rng.choice(["1a", "for", "_x", "a b"]), []]
    if r == 1:
        return ["new_cells", s, rng.choice(W.REFS + W.CHILD), W.gen_formula(rng, spaces)]   # clash with ref/child names
    if r == 2:
        return ["add_bases", s, [s]]                                                         # cyclic
    if r == 3:
        subs = [p for p in spaces if s in st["spaces"][p]["bases"]]
        return ["add_bases", s, [rng.choice(subs)]] if subs else ["add_bases", s, [s]]       # cyclic through a sub
    if r == 4:
        return ["set_formula", s, rng.choice(W.CELLS), "BAD"]                                # malformed formula
    if r == 5:
        return ["new_cells", s, rng.choice(W.CELLS), "BAD"]
    if r == 6:
        return ["set_value", s, rng.choice(W.CELLS), 1, None]                                # None not allowed
    if r == 7:
        return ["set_ref", s, rng.choice(W.CELLS + W.CHILD), 3]                              # name clash
    if r == 8 and rng.random() < 0.5:
        # no usable explicit name: the name would come from the def (it may start with an underscore)
        nm = rng.choice(["_tmp", "__d__", "_f"])
        return ["new_cells_src", s, rng.choice([None, "_bad", "1x"]), "def %s(x): return x" % nm]
    return ["rename_cells", s, rng.choice(W.CELLS), rng.choice(["for", "_y", "r", "X"])]


def gen_bad_obj(rng, live, spaces):
    """the malformed stream, formulas given as OBJECTS (formula_objs): every API that accepts a formula, aimed at
    targets that have something to lose - a cells holding inputs, a derived cells, a cells others were computed
    from, a parametrised space with ItemSpaces.  Mostly objects modelx has a reason to refuse, sometimes ones it
    accepts (the generator does not know which is which; the oracle judges what the operation did)."""
    from . import formula_objs as FO
    kind = rng.choice(FO.SUSPECT) if rng.random() < 0.75 else rng.choice(FO.KINDS)
    cells = [(p, cn, c) for p, sp in spaces for cn, c in sp.cells.items()]
    rich = [(p, cn, c) for p, cn, c in cells if c._impl.input_keys or c._is_derived()]
    param = [p for p, sp in spaces if sp.formula is not None]
    r = rng.random()
    if r < 0.6 and cells:
        p, cn, c = rng.choice(rich if rich and rng.random() < 0.7 else cells)
        return ["set_formula_obj", p, cn, kind, rng.choice(FO.HOW[:3])]
    if r < 0.75:
        p, sp = rng.choice(spaces)
        free = [n for n in W.CELLS if n not in sp.cells]
        return ["new_cells_obj", p, rng.choice(free or W.CELLS), kind]
    if r < 0.93:
        p = rng.choice(param) if param and rng.random() < 0.8 else rng.choice(spaces)[0]
        if rng.random() < 0.15:
            return ["set_param", p, "BAD"]
        return ["set_param_obj", p, kind, rng.choice(FO.HOW_SPACE)]
    tops = set(live.m.spaces)
    free = [n for n in W.TOP if n not in tops]
    return ["new_space_obj", "-", rng.choice(free or W.TOP), [rng.choice(spaces)[0]] if rng.random() < 0.5 else [], kind]


# ----------------------------------------------------------------------------- evaluation helpers

def eval_everything(live, limit_spaces=None):
    """{"S.c(x)": result} for every cells of every space and the standard arguments"""
    out = {}
    for path, s in W.all_spaces(live.m):
        for cn in list(s.cells):
            for x in W.QUERY_ARGS:
                out["%s.%s(%d)" % (path, cn, x)] = live.apply(["eval", path, cn, x])
        if s.formula is not None:
            for key in (0, 1):
                for cn in list(s.cells):
                    out["%s[%d].%s(1)" % (path, key, cn)] = live.apply(["eval_item", path, key, cn, 1])
    return out


def topo_spaces(defs):
    order, done = [], set()
    pending = dict(defs["spaces"])
    while pending:
        progress = False
        for path, sd in list(pending.items()):
            parent = path.rsplit(".", 1)[0] if "." in path else None
            if (parent is None or parent in done) and all(b in done for b in sd["direct_bases"]):
                order.append(path)
                done.add(path)
                del pending[path]
                progress = True
        if not progress:
            order += list(pending)      # cyclic definitions cannot occur; keep going anyway
            break
    return order


def rebuild(defs, inputs=None, name="R"):
    """a brand-new model built from the definitions alone: every space is created with its bases
    after its bases exist, and its own members are defined before any sub space is created"""
    live = W.Live(name)
    problems = []
    with quiet():
        for k, v in defs["mrefs"].items():
            try:
                setattr(live.m, k, int(v))
            except Exception as e:
                problems.append("mref %s: %r" % (k, e))
        for path in topo_spaces(defs):
            sd = defs["spaces"][path]
            try:
                parent = live.m if "." not in path else live.space(path.rsplit(".", 1)[0])
                s = parent.new_space(path.rsplit(".", 1)[-1],
                                     bases=[live.space(b) for b in sd["direct_bases"]] or None)
            except Exception as e:
                problems.append("space %s: %r" % (path, e))
                continue
            for cn, cd in sd["cells"].items():
                try:
                    if cn in s.cells:
                        s.cells[cn].formula = cd["src"]
                    else:
                        s.new_cells(cn, formula=cd["src"])
                    if not cd["cached"]:
                        s.cells[cn].is_cached = False
                    if cd["allow_none"] is not None:
                        s.cells[cn].allow_none = cd["allow_none"]
                except Exception as e:
                    problems.append("cells %s.%s: %r" % (path, cn, e))
            for rn, rd in sd["refs"].items():
                try:
                    v = rd["value"]
                    if v.startswith("<"):
                        continue      # object-valued references: second pass, when every target exists
                    if rd.get("mode", "auto") != "auto":
                        s.set_ref(rn, None if v == "N" else int(v), rd["mode"])
                    else:
                        setattr(s, rn, None if v == "N" else int(v))
                except Exception as e:
                    problems.append("ref %s.%s: %r" % (path, rn, e))
            if sd.get("param"):
                s.formula = "lambda i: None"
        for path in topo_spaces(defs):
            for rn, rd in defs["spaces"][path]["refs"].items():
                v = rd["value"]
                if v.startswith("<"):
                    try:
                        if v == "<dead>":
                            raise ValueError("reference to a deleted object cannot be rebuilt")
                        live.space(path).set_ref(rn, live.refvalue(["obj", v[1:-1]]), rd["mode"])
                    except Exception as e:
                        problems.append("objref %s.%s: %r" % (path, rn, e))
        for (path, cn, key, v) in inputs or []:
            try:
                live.space(path).cells[cn][key] = v
            except Exception as e:
                problems.append("input %s.%s: %r" % (path, cn, e))
    return live, problems


def inputs_of(model):
    out = []
    for path, s in W.all_spaces(model):
        for cn, c in s.cells.items():
            for k in c._impl.input_keys:
                out.append((path, cn, k if len(k) != 1 else k[0], c._impl.data[k]))
    return out


def hist_json(ops, upto=None):
    return {"ops": [list(o) for o in (ops if upto is None else ops[:upto + 1])]}


def ops_from_json(j):
    def fix(o):
        o = list(o)
        for i, x in enumerate(o):
            if isinstance(x, list) and o[0] in ("new_cells", "set_formula") and i == 3:
                o[i] = tuple(x)
        return o
    return [fix(o) for o in j["ops"]]


def load_corpus(prop, world="struct"):
    """the witnesses of corpus/<prop>/ written in the operations of `world` ("struct": structworld.Live, the default;
    "items": itemworld.World)"""
    import os
    d = os.path.join(core.CORPUS_DIR, prop)
    out = []
    if os.path.isdir(d):
        for f in sorted(os.listdir(d)):
            if f.endswith(".json"):
                j = json.load(open(os.path.join(d, f)))
                if j.get("world", "struct") == world:
                    out.append(ops_from_json(j) if world == "struct" else j["ops"])
    return out


def deleted_space_held_uncached(ops, uncached_names=()):
    """does the history delete a space (or a space above it) that at that moment has an uncached cells -
    flagged by a `set_cached .. 0` op of the history, or of a name in `uncached_names` (C09's assignment)?
    (the trigger of the known finding *-deleted-space-uncached-cells; read off the operations alone)"""
    cells, bases, unc = {}, {}, set()

    def visible(path, seen=()):
        out = {(path, n) for n in cells.get(path, ())}
        for b in bases.get(path, ()):
            if b not in seen:
                out |= visible(b, seen + (path,))
        return out
    for op in ops:
        k = op[0]
        if k == "new_space":
            path = op[2] if op[1] == "-" else op[1] + "." + op[2]
            cells.setdefault(path, set())
            bases[path] = list(op[3] or [])
        elif k == "add_bases":
            bases.setdefault(op[1], []).extend(op[2])
        elif k in ("new_cells", "set_formula"):
            cells.setdefault(op[1], set()).add(op[2])
        elif k == "rename_cells":
            cells.setdefault(op[1], set()).add(op[3])
        elif k == "set_cached":
            (unc.discard if op[3] else unc.add)((op[1], op[2]))
            cells.setdefault(op[1], set()).add(op[2])
        elif k == "del_space":
            for path in list(cells):
                if path == op[1] or path.startswith(op[1] + "."):
                    for (dp, n) in visible(path):
                        if (dp, n) in unc or (path, n) in unc or n in uncached_names:
                            return True
    return False


def merge(out, sub):
    out.failures += sub.failures
    out.disagreements += sub.disagreements


# ----------------------------------------------------------------------------- adaptive generation

def gen_next(rng, live, cfg, prev=None, focus=None):
    """next operation chosen by looking at the live model, so that most operations are applicable;
    the chosen operations are recorded and replayed verbatim; `prev` = the operations so far
    (earlier queries are repeated often, so that edits are followed by re-evaluation)"""
    w = cfg["weights"]
    kinds = list(w)
    spaces = W.all_spaces(live.m)
    paths = [p for p, _ in spaces]
    if not paths:
        return ["new_space", "-", rng.choice(W.TOP), []]
    k = rng.choices(kinds, [w[x] for x in kinds])[0]
    path, s = rng.choice(spaces)
    if focus is not None and rng.random() < 0.8:
        # a focused history works mostly on the spaces that already have members
        rich = [(p, sp) for p, sp in spaces if len(sp.cells) >= focus]
        if rich:
            path, s = rng.choice(rich)
    cells = list(s.cells)
    defined = [c for c in cells if not s.cells[c]._is_derived()]
    derived = [c for c in cells if s.cells[c]._is_derived()]
    own_refs = [r for r in s._own_refs if not s._impl.own_refs[r].is_derived()]
    if k == "new_space" and cfg.get("nest_names") and rng.random() < 0.5:
        # deeper trees, and a child may bear the name of one of its ancestors (`A.A`, `A.X.A`; the automatic names
        # `Space1.Space1` are of this shape): a path in which one name occurs twice
        parent = rng.choice([p for p in paths if p.count(".") < 2])
        pool = list(W.CHILD) + [n for n in parent.split(".") if n not in W.CHILD] * 2
        taken = set(live.space(parent).spaces)
        free = [n for n in pool if n not in taken]
        nm = rng.choice(free) if free and rng.random() < 0.9 else rng.choice(pool)
        cand = [b for b in paths if b != parent and not parent.startswith(b + ".")]
        bases = rng.sample(cand, min(len(cand), rng.choice([0, 0, 0, 1, 1, 2])))
        return ["new_space", parent, nm, bases]
    if k == "rename_space":
        return gen_rename_space(rng, live, spaces, path, bad=cfg.get("rename_bad", 0.0))
    if k == "new_space":
        nested = rng.random() < 0.35
        parent = rng.choice([p for p in paths if "." not in p] or ["-"]) if nested else "-"
        pool = W.CHILD if parent != "-" else cfg.get("top_names", W.TOP)
        taken = set(live.space(parent).spaces) if parent != "-" else set(live.m.spaces)
        free = [n for n in pool if n not in taken]
        nm = rng.choice(free) if free and rng.random() < 0.9 else rng.choice(pool)
        cand = [b for b in paths if b != parent]
        bases = rng.sample(cand, min(len(cand), rng.choice([0, 0, 1, 1, 2])))
        return ["new_space", parent, nm, bases]
    if k == "del_space":
        return ["del_space", path]
    if k == "cur_space":
        # the session's own handle: mostly a NESTED space (a child, a grandchild), so that deleting an ancestor
        # deletes what the handle denotes
        nested = [p for p in paths if "." in p]
        tgt = rng.choice(nested) if nested and rng.random() < 0.7 else path
        return ["cur_space", tgt, rng.choice(["mx", "mx", "parent"])]
    if k == "cur_cells":
        # API use through the session's handle (new_cells through mx.cur_space() / model.cur_space(), mx.defcells)
        return ["cur_cells", rng.choice(W.CELLS), W.gen_formula(rng, paths), rng.choice(["new_cells", "model", "defcells"])]
    ext = bool(cfg.get("ext"))
    if k == "new_cells":
        free = [n for n in W.CELLS if n not in cells]
        nm = rng.choice(free) if free and rng.random() < 0.85 else rng.choice(W.CELLS)
        if rng.random() < cfg.get("cross_names", 0.0):
            nm = rng.choice(W.REFS + W.CHILD)          # a name other spaces use for another kind
        return ["new_cells", path, nm, W.gen_formula(rng, paths, s, ext=ext)]
    if k == "set_formula":
        if not cells:
            return ["new_cells", path, rng.choice(W.CELLS), W.gen_formula(rng, paths, s, ext=ext)]
        return ["set_formula", path, rng.choice(cells), W.gen_formula(rng, paths, s, ext=ext)]
    if k == "set_cached":
        if cells:
            return ["set_cached", path, rng.choice(cells), rng.randrange(2)]
    if k == "del_cells":
        pool = defined if defined and rng.random() < 0.85 else cells
        if pool:
            return ["del_cells", path, rng.choice(pool)]
    if k == "rename_cells":
        if defined:
            pool = W.CELLS if rng.random() >= cfg.get("cross_names", 0.0) else W.REFS + W.CHILD
            return ["rename_cells", path, rng.choice(defined), rng.choice(pool)]
    if k == "add_bases":
        cand = [b for b in paths if b != path]
        if cand:
            return ["add_bases", path, rng.sample(cand, min(len(cand), rng.choice([1, 1, 2])))]
    if k == "remove_bases":
        db = [W.rel(live.m, b) for b in s._direct_bases]
        if db:
            return ["remove_bases", path, [rng.choice(db)]]
    if k == "set_ref":
        nm = rng.choice(W.REFS)
        if rng.random() < cfg.get("cross_names", 0.0):
            nm = rng.choice(W.CELLS + W.CHILD)
        mode = None
        if cfg.get("ref_modes") and rng.random() < cfg["ref_modes"]:
            # the reference mode is a part of the definition that derived references take from their first definer
            mode = rng.choice(["auto", "relative", "absolute"])
        if rng.random() < cfg.get("obj_refs", 0.0):
            # an object-valued reference: a cells (or a space) of the model
            tp, ts = rng.choice(spaces)
            if mode in ("auto", "relative"):
                tp, ts = path, s        # relative binding means something for targets in the defining space
            if list(ts.cells) and rng.random() < 0.8:
                return ["set_ref", path, nm, ["obj", tp + "." + rng.choice(list(ts.cells))], mode or "absolute"]
            return ["set_ref", path, nm, ["obj", tp], mode or "absolute"]
        if mode is not None:
            return ["set_ref", path, nm, rng.randint(0, 9), mode]
        return ["set_ref", path, nm, rng.randint(0, 9)]
    if k == "set_param":
        if ext and rng.random() < 0.7:
            return ["set_param", path, gen_space_formula(rng, live, path, s)]
        return ["set_param", path, 1 if rng.random() < 0.8 else 0]
    if k == "eval_item":
        par = [(p, sp) for p, sp in spaces if sp.formula is not None and list(sp.cells)]
        if par:
            p2, s2 = rng.choice(par)
            return ["eval_item", p2, rng.randrange(2), rng.choice(list(s2.cells)), rng.choice(W.QUERY_ARGS)]
    if k == "del_ref":
        if own_refs:
            return ["del_ref", path, rng.choice(own_refs)]
    if k == "set_mref":
        return ["set_mref", rng.choice(W.MREFS), rng.randint(10, 19)]
    if k == "del_mref":
        return ["del_mref", rng.choice(W.MREFS)]
    if k == "set_value" and cells:
        return ["set_value", path, rng.choice(cells), rng.choice(W.QUERY_ARGS), rng.randint(20, 29)]
    if k == "clear" and cells:
        return [rng.choice(["clear", "clear_all"]), path, rng.choice(cells)]
    if k == "evalall":
        return ["evalall"]
    if k == "bad":
        st = {"spaces": {p: {"cells": set(sp.cells), "refs": set(sp._own_refs),
                             "bases": [W.rel(live.m, b) for b in sp._direct_bases]} for p, sp in spaces}}
        return gen_bad(rng, st, paths)
    if k == "bad_obj":
        return gen_bad_obj(rng, live, spaces)
    if prev and rng.random() < 0.5:
        earlier = [o for o in prev if o[0] == "eval"]
        if earlier:
            return list(rng.choice(earlier))
    if cells:
        return ["eval", path, rng.choice(cells), rng.choice(W.QUERY_ARGS)]
    return ["new_cells", path, rng.choice(W.CELLS), W.gen_formula(rng, paths, s)]


BAD_NAMES = ["_x", "1a", "for", "a b", "", "x.y", "__d__", "None", "a-b"]      # none of them may ever become a name


def gen_rename_space(rng, live, spaces, path, pool=None, bad=0.0):
    """`space.rename(name)`: mostly of a NESTED space, mostly one whose path holds a name twice (the renamed
    component is then not the first of that name) or that gets the name of an ancestor; the new name is free in the
    parent most of the time, sometimes in use there (a sibling space, a cells or a reference of the parent)"""
    paths = [p for p, _ in spaces]
    if bad and rng.random() < bad:
        # ... or a name that is no name at all (cfg "rename_bad": the properties that ask for it)
        return ["rename_space", rng.choice(paths), rng.choice(BAD_NAMES)]
    nested = [p for p in paths if "." in p]
    twice = [p for p in nested if p.rsplit(".", 1)[1] in p.split(".")[:-1]]
    r = rng.random()
    if twice and r < 0.45:
        path = rng.choice(twice)
    elif nested and r < 0.85:
        path = rng.choice(nested)
    parts = path.split(".")
    parent = live.space(".".join(parts[:-1])) if len(parts) > 1 else live.m
    names = list(pool or (W.TOP + W.CHILD))
    taken = set(parent.spaces) | set(getattr(parent, "cells", ())) | {n for n in parent.refs if not n.startswith("_")}
    free = [n for n in names if n not in taken]
    anc = [n for n in parts[:-1] if n not in taken]
    q = rng.random()
    if anc and q < 0.4:
        return ["rename_space", path, rng.choice(anc)]
    if free and q < 0.9:
        return ["rename_space", path, rng.choice(free)]
    return ["rename_space", path, rng.choice(sorted(taken) or names)]


def gen_space_formula(rng, live, path, s):
    """a space formula [i, r, c, a] (W.SPACE_TEMPLATES) that mostly resolves: what it reads is a reference
    of the parent (by attribute path), of the namespace (by name), of a child (by path), or a cells"""
    parent = live.space(path.rsplit(".", 1)[0]) if "." in path else None

    def plain(sp):
        return [r for r in sp.refs if not r.startswith("_") and not hasattr(sp.refs[r], "_impl")]
    ok = [1]
    prefs = plain(parent) if parent is not None else []
    own = plain(s)
    ch_ref = [(c, r) for c in s.spaces for r in plain(s.spaces[c])]
    cells = list(s.cells)
    if prefs:
        ok += [2, 2, 2]
    if own:
        ok += [3, 6]
    if ch_ref:
        ok += [4]
    if cells:
        ok += [5]
    i = rng.choice(ok)
    r = rng.choice(prefs if i == 2 and prefs else own or W.REFS)
    c, a = rng.choice(W.CHILD), rng.choice(cells or W.CELLS)
    if i == 4:
        c, r = rng.choice(ch_ref)
    return [i, r, c, a] if i != 1 else 1


# ----------------------------------------------------------------------------- name-clash generation

CLASH = [W.CHILD[0], W.CELLS[0], W.REFS[0], W.MREFS[1]]     # "X", "f", "r", "u": one small alphabet for every kind of name


def clash_prefix(rng, cfg=None):
    """a few spaces (chain, diamond or siblings, one of them with a child) to start a name-clash history;
    cfg["clash_wide"]: mostly one base with SEVERAL sub spaces (siblings, a chain below one of them), so that
    what an edit of the base does to an earlier sub space and what it meets in a later one are different things"""
    if cfg and cfg.get("clash_wide") and rng.random() < 0.7:
        ops = [["new_space", "-", "A", []], ["new_space", "-", "B", ["A"]], ["new_space", "-", "C", ["A"]],
               ["new_space", "-", "D", rng.choice([["A"], ["B"], ["C"], ["B", "C"], ["C", "B"], []])]]
        if rng.random() < 0.3:
            ops.append(["new_space", rng.choice(["A", "B", "C", "D"]), rng.choice(CLASH), []])
        return ops
    ops = [["new_space", "-", "A", []], ["new_space", "-", "B", rng.choice([[], ["A"]])],
           ["new_space", "-", "C", rng.choice([[], ["A"], ["B"], ["A", "B"], ["B", "A"]])]]
    if rng.random() < 0.6:
        ops.append(["new_space", rng.choice(["A", "B", "C"]), rng.choice(CLASH), []])
    return ops


def gen_clash(rng, live, cfg, prev=None, focus=None):
    """next operation of a *name-clash* history: cells, references, child spaces, model-level references and some
    top-level spaces all take their names from the four names of `CLASH`, so that a name is requested for a second
    kind of thing in the same space, in a base or in a sub space all the time (the shape behind the findings
    C12-new-ref-first-sub-only and C12-ref-vs-child-space; the mechanism model's disjointness invariant
    `MxModel.SM.Disj` is about exactly these edits).  Only edits of the vocabulary of the mechanism model are
    produced, and `del space.name` / `del model.name` only where the name cannot denote another kind of thing
    (deleting by attribute deletes whatever bears the name)."""
    spaces = W.all_spaces(live.m)
    paths = [p for p, _ in spaces]
    if not paths:
        return ["new_space", "-", rng.choice(W.TOP), []]
    if cfg.get("clash_wide") and prev:
        nxt = clash_followup(rng, live, prev, paths)
        if nxt is not None:
            return nxt
    path, s = rng.choice(spaces)
    cells = list(s.cells)
    k = rng.choices(["new_space", "del_space", "new_cells", "set_formula", "del_cells", "rename_cells", "add_bases",
                     "remove_bases", "set_ref", "del_ref", "set_mref", "del_mref"],
                    [2.0, 0.6, 3.0, 1.0, 1.2, 1.0, 2.0, 1.0, 3.5, 0.8, 1.5, 0.5])[0]
    if cfg.get("clash_rename_space") and rng.random() < cfg["clash_rename_space"]:
        # renaming of spaces inside the clash alphabet (outside the vocabulary of the mechanism model: only the
        # properties that do not run the `smech` correspondence ask for it): `X.X`, `A.X.A` are common here
        return gen_rename_space(rng, live, spaces, path, pool=W.TOP + CLASH)

    def some_paths():
        return [rng.choice(paths) for _ in range(rng.choice([1, 1, 1, 2, 2, 3]))]

    def used_below(kinds):
        """(space path, name) pairs: the name is used, as one of `kinds`, in the space or in a space deriving from it"""
        out = []
        for p, sp in spaces:
            fam = [sp] + [t for _, t in spaces if any(b is sp for b in t.bases)]
            names = set()
            for t in fam:
                if "cells" in kinds:
                    names |= set(t.cells)
                if "refs" in kinds:
                    names |= set(t._own_refs)
                if "spaces" in kinds:
                    names |= set(t.spaces)
            out += [(p, n) for n in sorted(names) if n in CLASH]
        return out
    mrefs = [n for n in CLASH if n in live.m.refs]
    if rng.random() < 0.45:
        # an aimed request: a name that is in use for another kind of thing in the space or below it
        if k == "set_ref":
            cand = [(p, n) for p, n in used_below(("cells", "spaces")) if n in mrefs] or used_below(("cells", "spaces"))
            if cand:
                p, n = rng.choice(cand)
                return ["set_ref", p, n, rng.randint(0, 9)]
        if k == "set_mref":
            cand = [n for _, n in used_below(("cells", "spaces")) if n not in mrefs]
            if cand:
                return ["set_mref", rng.choice(cand), rng.randint(10, 19)]
        if k == "new_cells":
            cand = used_below(("refs", "spaces"))
            if cand:
                p, n = rng.choice(cand)
                return ["new_cells", p, n, F(0, rng.randint(1, 5))]
        if k == "new_space":
            cand = used_below(("cells", "refs"))
            if cand:
                p, n = rng.choice(cand)
                return ["new_space", p, n, []]
        if k == "rename_cells" and cells:
            cand = [n for p, n in used_below(("refs", "spaces")) if p == path]
            if cand:
                return ["rename_cells", path, rng.choice(cells), rng.choice(cand)]
    if k == "new_space":
        if rng.random() < 0.5:
            return ["new_space", "-", rng.choice(W.TOP + CLASH), some_paths() if rng.random() < 0.6 else []]
        return ["new_space", path, rng.choice(CLASH), some_paths() if rng.random() < 0.4 else []]
    if k == "del_space":
        return ["del_space", path]
    if k == "new_cells":
        return ["new_cells", path, rng.choice(CLASH), F(0, rng.randint(1, 5))]
    if k == "set_formula":
        return ["set_formula", path, rng.choice(cells or CLASH), F(0, rng.randint(1, 5))]
    if k == "del_cells":
        return ["del_cells", path, rng.choice(cells or CLASH)]
    if k == "rename_cells":
        return ["rename_cells", path, rng.choice(cells or CLASH), rng.choice(CLASH)]
    if k == "add_bases":
        return ["add_bases", path, some_paths()]
    if k == "remove_bases":
        db = [W.rel(live.m, b) for b in s._direct_bases]
        return ["remove_bases", path, [rng.choice(db)] if db and rng.random() < 0.85 else some_paths()]
    if k == "set_ref":
        return ["set_ref", path, rng.choice(CLASH), rng.randint(0, 9)]
    if k == "del_ref":
        free = [n for n in CLASH if n not in s.cells and n not in s.spaces]
        if free:
            return ["del_ref", path, rng.choice(free)]
    if k == "del_mref":
        free = [n for n in CLASH if n not in live.m.spaces]
        if free:
            return ["del_mref", rng.choice(free)]
    return ["set_mref", rng.choice(CLASH), rng.randint(10, 19)]


REQUESTS = ("set_ref", "new_cells", "new_space", "rename_cells", "add_bases")
FOLLOW = "q"        # a name outside the clash alphabet: a member created and deleted again only to re-derive the sub spaces


def clash_followup(rng, live, prev, paths):
    """cfg["clash_wide"]: after a request for a name (accepted or refused - the generator does not know), edits of
    the SAME space that only re-derive its sub spaces: an unrelated cells or reference is created and deleted again,
    or an unrelated one is deleted.  A refused request that left something behind shows in the sub spaces then."""
    last = prev[-1]
    where = last[1]         # the space that was asked (for new_space: the parent; "-" is not a space)
    if last[0] == "new_cells" and last[2] == FOLLOW:
        return ["del_cells", last[1], FOLLOW] if rng.random() < 0.85 else None
    if last[0] == "set_ref" and last[2] == FOLLOW:
        return ["del_ref", last[1], FOLLOW] if rng.random() < 0.85 else None
    if last[0] in REQUESTS and where in paths and rng.random() < 0.3:
        s = live.space(where)
        if FOLLOW in s.cells or FOLLOW in s._own_refs or FOLLOW in s.spaces:
            return None
        return ["new_cells", where, FOLLOW, F(0, 1)] if rng.random() < 0.6 else ["set_ref", where, FOLLOW, 1]
    return None


# ----------------------------------------------------------------------------- scenario family: refusals decided in a sub space
#
# Whether a member may be created in a space is decided by what the space AND every space deriving from it
# use the name for.  When the space has several sub spaces, the answer may come from a later one while an
# earlier one (and the space itself) would take the member - a refusal that is not decided before anything
# is changed leaves the base and the earlier sub spaces changed (C11), and the next re-derivation puts the
# member next to the one of another kind in the later sub space (C12).  The family enumerates
# (shape of the sub spaces) x (which one holds the name, as which kind) x (a model-level reference of the name:
# none / created before the member where that is allowed / created AFTER it) x (an earlier sub space holds an
# own reference of the name or not) x (kind arriving in the base, and how), each followed by edits of the base
# that only re-derive its sub spaces.  The oracles are the properties' own hooks; nothing about "must be
# refused" is asserted.

FAMILY_SHAPES = [
    ("two siblings", [["new_space", "-", "B", ["A"]], ["new_space", "-", "C", ["A"]]], ["B", "C"]),
    ("three siblings", [["new_space", "-", "B", ["A"]], ["new_space", "-", "C", ["A"]], ["new_space", "-", "D", ["A"]]],
     ["C", "D"]),
    ("chain", [["new_space", "-", "B", ["A"]], ["new_space", "-", "C", ["B"]]], ["B", "C"]),
    ("diamond", [["new_space", "-", "B", ["A"]], ["new_space", "-", "C", ["A"]], ["new_space", "-", "D", ["B", "C"]]],
     ["C", "D"]),
]


def family_member(kind, space, name, k=1):
    if kind == "cells":
        return ["new_cells", space, name, F(0, k)]
    if kind == "ref":
        return ["set_ref", space, name, 3 + k]
    return ["new_space", space, name, []]


def refusal_family():
    """[(label, ops)]: A is the base that is asked for the name `x`"""
    out = []
    x = "x"
    rederive = [["new_cells", "A", FOLLOW, F(0, 2)], ["del_cells", "A", FOLLOW], ["set_ref", "A", "y", 3], ["del_ref", "A", "y"]]
    for shape, subs, holders in FAMILY_SHAPES:
        for holder in holders:
            for k1 in ("cells", "space", "ref"):
                for glob in ("none", "after", "before"):
                    if glob == "before" and k1 != "ref":
                        continue        # a cells / child space named like a model-level reference is refused anyway
                    for also in (False, True):
                        if also and (k1 == "ref" or holder == subs[0][2]):
                            continue
                        pre = [["new_space", "-", "A", []]] + subs
                        if also:
                            pre = pre + [["set_ref", subs[0][2], x, 8]]      # an earlier sub space overrides the name
                        mref = [["set_mref", x, 10]]
                        have = (mref if glob == "before" else []) + [family_member(k1, holder, x)] \
                            + (mref if glob == "after" else [])
                        arrivals = [(k2, [family_member(k2, "A", x, 2)]) for k2 in ("cells", "ref", "space") if k2 != k1]
                        if k1 != "cells":
                            arrivals.append(("cells by rename", [["new_cells", "A", "p", F(0, 2)], ["rename_cells", "A", "p", x]]))
                        for k2, arr in arrivals:
                            # the request, the re-deriving edits, the request again, deletion of what the base may hold
                            ops = pre + have + arr + rederive + [arr[-1]] + rederive[:2]
                            out.append(("%s, %s holds a %s%s%s; %s arrives in the base" % (
                                shape, holder, k1, {"none": "", "after": ", model-level reference created afterwards",
                                                    "before": ", model-level reference created before"}[glob],
                                ", an earlier sub space overrides the name" if also else "", k2),
                                [list(o) for o in ops]))
    return out


# ----------------------------------------------------------------------------- scenario family: renaming spaces
#
# `space.rename(name)` rewrites the path of the space and of every space below it - in the containers (the name, the
# key in the parent) and in the inheritance graph (the node ids).  A path is a LIST of names, and one name may occur in
# it more than once (`A.A`, `A.X.A`, the automatic `Space1.Space1`); the renamed component is the last one of the
# renamed space's own path, not "the component that bears the name".  The family enumerates (the path of the renamed
# space: its name occurs above it or not, below it or not) x (the new name: fresh / the name of another top-level
# space, where a tree of the same shape exists too / the name of its parent) x (how the renamed tree takes part in
# inheritance) and follows every rename with edits of the renamed space, of the spaces below it and of the spaces that
# derive from them, and a rename back.  The oracles are the property's own hooks after every operation.

RENAME_SHAPES = [       # (label, the spaces in creation order, the renamed one)
    ("name unique in the path", ["A", "A.X", "A.X.Y"], "A.X"),
    ("parent of the same name", ["A", "A.A", "A.A.Y"], "A.A"),
    ("grandparent of the same name", ["A", "A.X", "A.X.A", "A.X.A.Y"], "A.X.A"),
    ("parent and grandparent of the same name", ["A", "A.A", "A.A.A", "A.A.A.Y"], "A.A.A"),
    ("parent and child of the same name", ["A", "A.A", "A.A.A", "A.A.A.Y"], "A.A"),
    ("child of the same name", ["A", "A.X", "A.X.X"], "A.X"),
    ("top-level, child of the same name", ["A", "A.A", "A.A.Y"], "A"),
]


def rename_family():
    """[(label, ops)]"""
    out = []
    for label, tree, target in RENAME_SHAPES:
        parts = target.split(".")
        below = [p for p in tree if p.startswith(target + ".")]
        for new in ("N", "B", "parent", "taken"):
            if new == "parent":
                if len(parts) < 2 or parts[-2] == parts[-1]:
                    continue
                nm = parts[-2]
            elif new == "taken":
                if len(parts) < 2:
                    continue
                nm = "f"            # a cells of the parent: the rename is refused and must change nothing
            else:
                nm = new
            renamed = ".".join(parts[:-1] + [nm]) if new != "taken" else target

            def moved(p):
                return renamed + p[len(target):] if p == target or p.startswith(target + ".") else p
            for rel in ("alone", "is a base", "child is a base", "has a base", "mirror tree is a base"):
                if new == "taken" and rel not in ("alone", "is a base"):
                    continue
                ops = []
                for p in tree:
                    ops.append(["new_space", p.rsplit(".", 1)[0] if "." in p else "-", p.rsplit(".", 1)[-1], []])
                    ops.append(["new_cells", p, "f", F(0, len(p))])
                ops.append(["set_ref", target, "r", 4])
                mirror = []
                if new == "B" or rel == "mirror tree is a base":
                    # a tree of the same shape under the top-level space B: every path of the renamed tree exists
                    # there too with the first name replaced
                    for p in tree:
                        q = ".".join(["B"] + p.split(".")[1:])
                        mirror.append(q)
                        ops.append(["new_space", q.rsplit(".", 1)[0] if "." in q else "-", q.rsplit(".", 1)[-1], []])
                        ops.append(["new_cells", q, "g", F(0, 7)])
                        ops.append(["new_cells", q, "h", F(0, 8)])
                if new == "B" and len(parts) == 1:
                    continue        # the new name is taken at the top level: the refusal is covered by `parent`
                if rel == "is a base":
                    ops += [["new_space", "-", "S", [target]], ["set_ref", "S", "x", 1]]
                elif rel == "child is a base":
                    if not below:
                        continue
                    ops += [["new_space", "-", "S", [below[0]]], ["set_ref", "S", "x", 1]]
                elif rel == "has a base":
                    ops += [["new_space", "-", "D", []], ["new_cells", "D", "k", F(0, 3)], ["add_bases", target, ["D"]]]
                elif rel == "mirror tree is a base":
                    m = mirror[len(parts) - 1] if len(mirror) >= len(parts) else None
                    if m is None or m == target:
                        continue
                    # a sub space of the mirror of the renamed space with an own REFERENCE named like a cells of the
                    # renamed space
                    ops += [["new_space", "-", "T", [m]], ["set_ref", "T", "f", 1]]
                ops.append(["evalall"])
                ops.append(["rename_space", target, nm])
                follow = [["new_cells", renamed, "p", F(0, 2)], ["set_ref", renamed, "s", 5]]
                for b in below[:2]:
                    follow += [["new_cells", moved(b), "q", F(0, 3)], ["del_cells", moved(b), "f"]]
                if rel == "is a base" or rel == "child is a base":
                    follow += [["new_cells", "S", "w", F(0, 1)], ["remove_bases", "S", [moved(below[0] if rel == "child is a base" else target)]]]
                if rel == "has a base":
                    follow += [["new_cells", "D", "j", F(0, 4)], ["del_cells", "D", "k"]]
                for q in mirror:
                    follow += [["del_cells", q, "g"]]
                follow += [["new_space", renamed, "Z", []], ["evalall"], ["rename_space", renamed, parts[-1]],
                           ["new_cells", target, "u", F(0, 6)], ["del_space", target]]
                out.append(("%s: %s renamed to %s, %s" % (label, target, nm, rel), [list(o) for o in ops + follow]))
    return out


# ----------------------------------------------------------------------------- scenario family: every naming entry point
#
# "Only valid identifiers not starting with an underscore ever become names of user-created spaces or cells" is a
# statement about EVERY operation that gives or changes a name.  The family offers each name of BAD_NAMES to each of
# them on a model that has something to lose (batch_api.base_program: inputs, held values, a sub space, a
# parametrised space with ItemSpaces): creation and renaming of spaces (top-level, nested, one that is a base, a
# parametrised one) and of cells (defined, overriding), references by attribute and by set_ref (space and model
# level), references handed to new_space(refs=), new_space(formula=), Space.copy(name=), the module / pandas / csv
# imports (the name of the space and of the cells), cells named through the current space.  Nothing about "must be
# refused" is asserted: the property's hooks judge each request (refused: nothing changed; accepted: every name in
# the model is a valid one).  After the requests: a valid rename of the same objects, everything evaluated.

def naming_family():
    """[(label, ops)]"""
    from . import batch_api
    pre = batch_api.base_program()
    src = "def {n}(x): return x + 1"
    out = []
    for bad in BAD_NAMES:
        groups = {
            "spaces": [["new_space", "-", bad, []], ["new_space", "S", bad, []], ["new_space", "-", bad, ["S"]],
                       ["rename_space", "S", bad], ["rename_space", "S.child", bad], ["rename_space", "Sub.w", bad],
                       ["rename_space", "P", bad], ["rename_space", "Sub", bad],
                       ["new_space_obj", "-", bad, [], "def"], ["copy_space", "S", "-", bad], ["copy_space", "S.child", "Sub", bad],
                       ["rename_space", "S", "S9"], ["rename_space", "S9", bad], ["rename_space", "S9", "S"]],
            "cells": [["new_cells_src", "S", bad, None], ["new_cells_src", "S", bad, src.format(n="zz")],
                      ["new_cells_src", "Sub", bad, "lambda x: x"], ["rename_cells", "S", "foo", bad],
                      ["rename_cells", "S", "total", bad], ["rename_cells", "Sub", "own", bad], ["rename_cells", "P", "h", bad],
                      ["cur_space", "S.child", "mx"], ["cur_cells", bad, F(0, 1), "new_cells"],
                      ["rename_cells", "S", "foo", "foo9"], ["rename_cells", "S", "foo9", bad], ["rename_cells", "S", "foo9", "foo"]],
            "references": [["set_ref", "S", bad, 4], ["set_ref", "Sub", bad, 5, "absolute"], ["set_ref", "S.child", bad, 6, "relative"],
                           ["set_ref", "P", bad, ["obj", "S.foo"], "absolute"],
                           ["new_space", "-", "T", ["S"], {bad: 1}], ["new_space", "Sub", "T", [], {"ok1": 1, bad: 2}],
                           ["new_space", "-", "T2", [], {bad: 1, "ok2": 2}]],
            "model-level references": [["set_mref", bad, 7], ["set_mref", "g", 8], ["set_mref", bad, 9], ["del_mref", bad]],
            "imports": [["batch_space_module", "-", bad, [["a", "def"], ["b", "def"]], "import_module", []],
                        ["batch_space_module", "S", bad, [["a", "def"]], "new_space_from_module", []],
                        ["batch_space_pandas", "-", bad, ["c1", "c2"], None, "pandas"],
                        ["batch_space_pandas", "Sub", bad, ["c1", "c2"], None, "csv"],
                        ["batch_cells_pandas", "S", ["c1", "c2"], ["n1", bad], "pandas"],
                        ["batch_cells_pandas", "S", ["d1", bad], None, "pandas"]],
        }
        for what, reqs in groups.items():
            if what == "imports" and not isinstance(bad, str):
                continue
            ops = [list(o) for o in pre] + [list(o) for o in reqs] + [["evalall"]]
            out.append(("the name %r offered to every entry point for %s" % (bad, what), ops))
    return out


def formula_object_family():
    """[(label, ops)]: one program per kind of formula OBJECT (formula_objs.KINDS).  A base A with a cells f that
    holds an input and a caller g, a sub space B deriving both (B.f holds an input of its own), a parametrised
    space P (cells h, ItemSpaces P[0], P[1] built) - everything evaluated; then the object is offered through every
    API that accepts a formula: to the DERIVED cells first, to the cells holding inputs (attribute, method,
    decorator), to the caller, as the formula of a new cells, as the formula of the parametrised space (attribute,
    method) and of a new space.  Inputs are assigned again between the requests, so that a target always has
    something to lose.  Nothing about 'must be refused' is asserted: the property's hooks judge each request."""
    from . import formula_objs as FO
    pre = [["new_space", "-", "A", []], ["set_ref", "A", "s", 2], ["new_cells", "A", "f", F(2, 1, "f", "s")],
           ["new_cells", "A", "g", F(1, 1, "f")], ["new_space", "-", "B", ["A"]],
           ["new_space", "-", "P", []], ["new_cells", "P", "h", F(0, 3)], ["set_param", "P", 1]]
    inputs = [["set_value", "A", "f", 1, 25], ["set_value", "B", "f", 2, 26]]
    out = []
    for kind in FO.KINDS:
        ops = [list(o) for o in pre + inputs] + [["evalall"]]
        ops.append(["set_formula_obj", "B", "f", kind, "attr"])
        for how in FO.HOW[:3]:
            ops += [list(o) for o in inputs] + [["evalall"], ["set_formula_obj", "A", "f", kind, how]]
        ops += [["evalall"], ["set_formula_obj", "A", "g", kind, "method"], ["new_cells_obj", "A", "k", kind]]
        for how in FO.HOW_SPACE:
            ops += [["set_param", "P", 1], ["evalall"], ["set_param_obj", "P", kind, how]]
        ops += [["new_space_obj", "-", "D", ["A"], kind], ["evalall"]]
        out.append(("formula given as the object %r" % kind, ops))
    return out


def run_family(out, stats, fam, hooks_factory, cfg, what, max_failures=6):
    """run the programs of a scenario family through a property's hooks"""
    refused = 0
    for label, ops in fam:
        sub = core.Outcome()
        st = collections.Counter()
        run_one([list(o) for o in ops], sub, st, hooks_factory(), cfg)
        merge(out, sub)
        refused += bool(sum(v for k, v in st.items() if k.startswith("rejected:")))
        stats[what + "_scenarios"] += 1
        if len([f for f in out.failures if not f.get("key")]) >= max_failures:
            break
    stats[what + "_refused"] = refused
    return refused


# ----------------------------------------------------------------------------- generic engine

class Hooks:
    """per-property callbacks; `nontrivial` is set by the hooks when the history met the
    property's non-triviality rule"""
    def start(self, live, stats): pass
    def before(self, live, ops, k, op, stats): pass
    def after(self, live, ops, k, op, result, out, stats): pass
    def end(self, live, ops, out, stats): pass


def observe(out, hist, what, fn, *args):
    """run an observation (a hook of a property, a description of the model, an oracle's own replay).
    An exception that comes out of the implementation while the harness merely LOOKS at the model is
    itself an observation - the implementation left the model in a state that cannot be looked at -
    and is reported as a failure with the history; anything else is a fault of the harness.
    Returns (ok, result)."""
    try:
        return True, fn(*args)
    except core.Infra:
        raise
    except Exception as e:
        if not core.raised_by_impl(e):
            raise
        out.fail("the model cannot be observed %s: modelx raised %s" % (what, core.impl_error_text(e)),
                 hist() if callable(hist) else hist)
        return False, None


def run_one(ops, out, stats, hooks, cfg, rng=None, n_ops=0, seed_ops=None, gen=None):
    close_all()
    live = W.Live("M")
    hooks.nontrivial = False
    focus = (2 if rng.random() < 0.5 else None) if rng is not None else None
    if rng is not None and not ops and gen is not None:
        ops += clash_prefix(rng, cfg)
    elif rng is not None and not ops:
        ops += [list(o) for o in (seed_ops if seed_ops is not None else [["set_mref", "u", 11], ["set_mref", "r", 12]])]
        ops += motif(rng, pool=motifs_for(cfg))
    try:
        hooks.start(live, stats)
        k = 0
        broken = False
        while True:
            if k >= len(ops):
                if rng is None or k >= n_ops:
                    break
                ok, nxt = observe(out, lambda: hist_json(ops), "when choosing the next operation", lambda: (gen or gen_next)(rng, live, cfg, ops, focus=focus))
                if not ok:
                    broken = True
                    break
                ops.append(nxt)
            op = ops[k]
            ok, _ = observe(out, lambda: hist_json(ops, k - 1), "before %s" % op[0], hooks.before, live, ops, k, op, stats)
            if not ok:
                broken = True
                break
            if op[0] == "evalall":
                ok, _ = observe(out, lambda: hist_json(ops, k), "by evaluating every cells", eval_everything, live)
                if not ok:
                    broken = True
                    break
                r = "ok"
            else:
                r = live.apply(op)
            stats["op:" + op[0]] += 1
            if r.startswith("err") and op[0] != "eval":
                stats["rejected:" + op[0]] += 1
            n_fail = len(out.failures)
            ok, _ = observe(out, lambda: hist_json(ops, k), "after %s (%s)" % (op[0], r.split(" ")[0]),
                            hooks.after, live, ops, k, op, r, out, stats)
            if api.assign_keys(out, n_fail, live, op, r):
                broken = True       # an instance of a known finding: what follows would only report it again
                break
            if not ok:
                broken = True
                break
            k += 1
            if len(out.failures) >= 3:
                break
        if len(out.failures) < 3 and not broken:
            observe(out, lambda: hist_json(ops), "at the end of the history", hooks.end, live, ops, out, stats)
    finally:
        live.close()
        close_all()
    return hooks.nontrivial


def run_struct(ctx, out, prop, cfg, hooks_factory, n_quick, n_thorough, rule, ops_range=(12, 26),
               enumerate_single=True, clash=None):
    """`clash` = (quick, thorough) numbers of additional name-clash histories (`gen_clash`)"""
    stats = collections.Counter()
    n = ctx.n(n_quick, n_thorough)
    nc = ctx.n(*clash) if clash else 0
    nontrivial, seen, samples = 0, set(), []
    cases = [(ops, None, None) for ops in load_corpus(prop)] + [([], ctx.rng("hist", i), None) for i in range(n)] \
        + [([], ctx.rng("clash", i), gen_clash) for i in range(nc)]
    n += nc
    for i, (ops, rng, gen) in enumerate(cases):
        sub = core.Outcome()
        stats["clash_histories"] += gen is not None
        nt = run_one(ops, sub, stats, hooks_factory(), cfg, rng=rng,
                     n_ops=(rng.randint(*ops_range) if rng else 0), gen=gen)
        merge(out, sub)
        key = repr(ops)
        if key not in seen:
            seen.add(key)
            nontrivial += bool(nt)
        if len(samples) < 2 and rng is not None:
            samples.append([repr(o) for o in ops])
    if enumerate_single:
        enumerate_edits(ctx, out, prop, hooks_factory, cfg, stats)
    out.coverage.update({"evaluations": len(cases) + stats["enumerated_scenarios"], "programs": len(seen),
                         "distinct_nontrivial": nontrivial,
                         "rule": rule + ("; plus, after each of %d motif programs, applicable single edits (thorough: all) "
                                         "and sampled pairs, each followed by evaluating everything" % (len(motifs_for(cfg)) - 1)
                                         + ("; extended families: every single edit after the extended motifs; (clearing edit of "
                                            "one cells, edit of an existing reference) pairs; (reference edit, value assignment, "
                                            "reference edit) triples; cache-flag switch then reference edit; (input assigned, the cells redefined / "
                                            "renamed / flag switched off and on / re-derived, everything evaluated, edit of a "
                                            "reference visible in its space)" if cfg.get("ext") else "")
                                         if enumerate_single else ""),
                         "samples": samples, "input_distribution": dict(stats),
                         "corpus_cases": len(cases) - n, "traces_validated_against_impl": len(cases)})
    return stats


def replay_struct(payload, out, hooks_factory, cfg):
    h = payload.get("history")
    if h and "ops" in h:
        run_one(ops_from_json(h), out, collections.Counter(), hooks_factory(), cfg)


EDIT_KINDS = ("cur_space", "cur_cells", "new_cells_src", "set_param", "new_space", "del_space", "rename_space", "new_cells", "set_formula", "set_cached", "del_cells",
              "rename_cells", "add_bases", "remove_bases", "set_ref", "del_ref", "set_mref", "del_mref",
              "set_value", "clear", "clear_all", "clear_at", "allow_none",
              "new_cells_obj", "set_formula_obj", "set_param_obj", "new_space_obj",
              "batch_cells_pandas", "batch_space_pandas", "batch_cells_module", "batch_space_module", "copy_space")


def fresh_replay(ops, upto, name="F"):
    """a model to which only the edits ops[0..upto) were applied, with no evaluation in between"""
    live = W.Live(name)
    for op in ops[:upto]:
        if op[0] in EDIT_KINDS:
            live.apply(op)
    return live


# ----------------------------------------------------------------------------- motif prefixes

def F(i, k=1, a="f", r="r", c="X"):
    return (i, k, a, r, c)


MOTIFS = [
    [],
    # diamond with a member defined at the top and overridden on one side
    [["new_space", "-", "A", []], ["new_cells", "A", "f", F(0, 1)], ["set_ref", "A", "s", 1],
     ["new_space", "-", "B", ["A"]], ["new_space", "-", "C", ["A"]], ["set_formula", "C", "f", F(0, 2)],
     ["new_space", "-", "D", ["B", "C"]]],
    # call chain f -> g -> h -> k in one space
    [["new_space", "-", "A", []], ["set_ref", "A", "s", 2], ["new_cells", "A", "k", F(2, 1, "k", "s")],
     ["new_cells", "A", "h", F(1, 1, "k")], ["new_cells", "A", "g", F(1, 2, "h")], ["new_cells", "A", "f", F(1, 3, "g")]],
    # a child space with two bases that both define g; the parent calls through the child
    [["new_space", "-", "A", []], ["new_cells", "A", "g", F(0, 1)], ["new_space", "-", "B", []],
     ["new_cells", "B", "g", F(0, 5)], ["new_space", "-", "C", []], ["new_space", "C", "X", ["A", "B"]],
     ["new_cells", "C", "f", F(4, 1, "g", "r", "X")]],
    # a reference defined in a base, overridden in one sub, derived in another; read by attribute path
    [["new_space", "-", "A", []], ["set_ref", "A", "t", 1], ["new_space", "-", "B", ["A"]],
     ["new_space", "-", "C", ["A"]], ["set_ref", "B", "t", 5], ["new_space", "-", "D", []],
     ["new_space", "D", "X", ["C"]], ["new_cells", "D", "f", F(3, 1, "f", "t", "X")]],
    # two cached readers of the same reference through an attribute path
    [["new_space", "-", "D", []], ["new_space", "D", "X", []], ["set_ref", "D.X", "t", 1],
     ["new_cells", "D", "f", F(3, 1, "f", "t", "X")], ["new_cells", "D", "g", F(3, 2, "g", "t", "X")],
     ["new_cells", "D", "h", F(1, 1, "g")]],
    # A <- B, X, C(X, B): adding X to A's bases leaves C without a linearisation
    [["new_space", "-", "A", []], ["new_cells", "A", "f", F(0, 1)], ["new_space", "-", "B", ["A"]],
     ["new_space", "-", "D", []], ["new_cells", "D", "g", F(0, 2)], ["new_space", "-", "C", ["D", "B"]]],
    # Base <- Mid <- Sub with names used for other kinds in Sub only
    [["new_space", "-", "A", []], ["new_cells", "A", "f", F(0, 1)], ["new_space", "-", "B", ["A"]],
     ["new_space", "-", "C", ["B"]], ["new_space", "C", "X", []], ["set_ref", "C", "t", 3]],
    # a cells reached through an object-valued reference from another space; an input below
    [["new_space", "-", "A", []], ["new_cells", "A", "f", F(0, 1)], ["set_value", "A", "f", 1, 25],
     ["new_space", "-", "B", []], ["set_ref", "B", "t", ["obj", "A.f"], "absolute"],
     ["new_cells", "B", "g", F(9, 1, "g", "t")]],
    # a parametrised sub space deriving a cells
    [["new_space", "-", "A", []], ["new_cells", "A", "f", F(0, 1)], ["new_cells", "A", "g", F(1, 1, "f")],
     ["new_space", "-", "B", ["A"]], ["set_param", "B", 1], ["new_space", "-", "C", []],
     ["new_space", "C", "X", ["A"]], ["set_param", "C.X", 1], ["new_cells", "C", "h", F(10, 1, "g", "r", "X")]],
    # two sub spaces of one base using one name for members of different kinds
    [["new_space", "-", "A", []], ["new_space", "-", "B", ["A"]], ["new_space", "-", "C", ["A"]],
     ["new_cells", "B", "f", F(0, 1)], ["set_ref", "C", "f", 3], ["new_cells", "C", "g", F(2, 1, "g", "f")],
     ["set_ref", "B", "s", 4], ["new_space", "C", "s", []]],
    # a space inheriting from the child of another space
    [["new_space", "-", "A", []], ["new_space", "A", "X", []], ["new_cells", "A.X", "f", F(0, 1)],
     ["set_ref", "A.X", "s", 7], ["new_space", "-", "D", ["A.X"]], ["new_cells", "D", "g", F(1, 1, "f")]],
    # a name of a model-level reference defined in the later of two bases
    [["new_space", "-", "A", []], ["new_space", "-", "B", []], ["set_ref", "B", "r", 1],
     ["new_space", "-", "C", ["A", "B"]], ["new_cells", "C", "f", F(2, 1, "f", "r")]],
    # chain of three spaces with overrides
    [["new_space", "-", "A", []], ["new_cells", "A", "f", F(0, 1)], ["new_cells", "A", "g", F(1, 1, "f")],
     ["new_space", "-", "B", ["A"]], ["new_space", "-", "C", ["B"]], ["set_formula", "B", "f", F(0, 2)]],
]


# Extended motif programs: used only by the properties whose configuration says `ext` (so that the random
# draws of the others do not move).  Each is a dependency *shape* the base motifs do not have.
SF = lambda i, r="t", c="X", a="f": [i, r, c, a]      # a space formula, W.SPACE_TEMPLATES
MOTIFS_EXT = [
    # a parametrised child whose SPACE formula reads a reference of its parent by attribute path
    # (`_space.parent.t`); its cells read what the formula injected; one caller in the parent, one in
    # another space that holds the child in an object-valued reference
    [["new_space", "-", "C", []], ["set_ref", "C", "t", 3], ["new_space", "C", "X", []],
     ["new_cells", "C.X", "f", F(2, 1, "f", "s")], ["set_param", "C.X", SF(2, "t")],
     ["new_cells", "C", "h", F(10, 1, "f", "r", "X")],
     ["new_space", "-", "D", []], ["set_ref", "D", "X", ["obj", "C.X"], "absolute"],
     ["new_cells", "D", "g", F(10, 0, "f", "r", "X")]],
    # space formulas reading by name (own reference shadowing a model-level one) and, one level down,
    # the own reference by attribute path; the nested one is reached through the outer ItemSpace
    [["new_space", "-", "A", []], ["set_ref", "A", "r", 4], ["new_cells", "A", "f", F(2, 1, "f", "s")],
     ["set_param", "A", SF(3, "r")], ["new_space", "A", "Y", []], ["set_ref", "A.Y", "t", 2],
     ["new_cells", "A.Y", "g", F(2, 2, "g", "s")], ["set_param", "A.Y", SF(6, "t")],
     ["new_space", "-", "B", []], ["set_ref", "B", "X", ["obj", "A"], "absolute"],
     ["new_cells", "B", "h", F(10, 1, "f", "r", "X")], ["new_cells", "A", "k", F(10, 0, "g", "r", "Y")]],
    # a space formula reading a reference of a CHILD by attribute path and one calling a cells of the space
    [["new_space", "-", "B", []], ["new_space", "B", "X", []], ["set_ref", "B.X", "t", 5],
     ["new_cells", "B", "f", F(2, 1, "f", "s")], ["set_param", "B", SF(4, "t", "X")],
     ["new_space", "-", "C", []], ["set_ref", "C", "t", 1], ["new_cells", "C", "g", F(2, 3, "g", "t")],
     ["new_cells", "C", "h", F(2, 1, "h", "s")], ["set_param", "C", SF(5, "t", "X", "g")]],
    # two references of a child read by attribute path by readers that also call each other:
    # f reads X.t; g calls f and reads X.s; h reads X.t too; k calls h and reads a model-level name
    [["new_space", "-", "D", []], ["new_space", "D", "X", []], ["set_ref", "D.X", "t", 1], ["set_ref", "D.X", "s", 2],
     ["new_cells", "D", "f", F(3, 1, "f", "t", "X")], ["new_cells", "D", "g", F(11, 1, "f", "s", "X")],
     ["new_cells", "D", "h", F(3, 2, "h", "t", "X")], ["new_cells", "D", "k", F(12, 1, "h", "u")]],
    # a caller in one space, through cells of ANOTHER space that read a reference of their own space by
    # name; a second caller elsewhere reaches the reader through an object-valued reference.  With failing
    # evaluations in the middle of the chains: g reads the reference by name and is PARTIAL (fails for the
    # argument 2); h (same space) calls g; f (parent space) calls h through a path; k CATCHES the failure of
    # f; the caller in B reaches g directly.  Whatever is uncached, the values computed through it for the
    # arguments 0 and 1 precede a rolled-back evaluation through it
    [["new_space", "-", "C", []], ["new_space", "C", "X", []], ["set_ref", "C.X", "s", 2],
     ["new_cells", "C.X", "g", F(14, 2, "g", "s")], ["new_cells", "C.X", "h", F(1, 1, "g")],
     ["new_cells", "C", "f", F(4, 1, "h", "r", "X")], ["new_cells", "C", "k", F(8, 3, "f")],
     ["new_space", "-", "B", []], ["set_ref", "B", "t", ["obj", "C.X.g"], "absolute"],
     ["new_cells", "B", "f", F(9, 1, "f", "t")]],
    # the same shape with the middle cells uncached from the start (no other cells of its space is a
    # precedent of the callers), and a chain above the caller
    # (the middle cells is PARTIAL: its evaluation fails for the argument 2, after the successful ones)
    [["new_space", "-", "C", []], ["new_space", "C", "X", []], ["set_ref", "C.X", "s", 2],
     ["new_cells", "C.X", "g", F(14, 2, "g", "s")], ["set_cached", "C.X", "g", 0],
     ["new_cells", "C", "f", F(4, 1, "g", "r", "X")], ["new_cells", "C", "h", F(1, 2, "f")],
     ["new_space", "-", "B", []], ["set_ref", "B", "t", ["obj", "C.X.g"], "absolute"],
     ["new_cells", "B", "k", F(9, 1, "k", "t")]],
    # a cells holding INPUTS (two argument keys) that is read from OTHER spaces by attribute paths going through
    # its name: from a child space (`_space.parent.f(x)`), and from an unrelated space through a reference to the
    # space (`X.f(x)`), with a chain above that caller; one caller in the cells' own space.  Nothing but the
    # edges that leave the input elements ties the readers elsewhere to the cells
    [["new_space", "-", "A", []], ["new_cells", "A", "f", F(0, 1)], ["set_value", "A", "f", 1, 25],
     ["set_value", "A", "f", 0, 24], ["new_cells", "A", "g", F(1, 1, "f")],
     ["new_space", "A", "X", []], ["new_cells", "A.X", "h", F(15, 2, "f")],
     ["new_space", "-", "B", []], ["set_ref", "B", "X", ["obj", "A"], "absolute"],
     ["new_cells", "B", "k", F(4, 1, "f", "r", "X")], ["new_cells", "B", "h", F(1, 2, "k")]],
    # ONE cells (g, reading a reference of its space by name) SHARED by several callers: f in its own space,
    # which also reads a reference of a child by attribute path (the only reader of it); h in its own space;
    # k in another space, through an object-valued reference.  Each caller can be invalidated on its own
    # (cleared, or - f - through the child's reference) while the others keep what they computed through g
    [["new_space", "-", "C", []], ["set_ref", "C", "s", 2], ["new_space", "C", "X", []], ["set_ref", "C.X", "t", 7],
     ["new_cells", "C", "g", F(2, 1, "g", "s")], ["new_cells", "C", "f", F(11, 1, "g", "t", "X")],
     ["new_cells", "C", "h", F(1, 1, "g")],
     ["new_space", "-", "B", []], ["set_ref", "B", "t", ["obj", "C.g"], "absolute"],
     ["new_cells", "B", "k", F(9, 1, "k", "t")]],
]


# Asymmetric inheritance graphs: a space is reached from the top by paths of DIFFERENT lengths, and has sub spaces
# of its own below the join.  Whatever order a re-derivation visits the spaces in (breadth-first over the edges,
# topological, creation order), somewhere in these shapes a sub space is visited before one of its bases - a
# re-derivation step whose outcome depends on what a not-yet-updated base still holds shows here and nowhere in
# chains and symmetric diamonds.  Used by the properties that ask for them (cfg["extra_motifs"] = MOTIFS_DAG: C03, C13);
# the members (a cells, a reference, a cells reading the reference) are defined at the very top or one below it.
def dag_motif(edges, members_in="A", extra=()):
    """spaces in the order given by `edges` = [(name, [bases])]; the members are defined in `members_in` AFTER the
    whole graph exists (so that they arrive in every sub space by derivation), then `extra`"""
    ops = [["new_space", "-", n, list(bs)] for n, bs in edges]
    ops += [["new_cells", members_in, "f", F(0, 1)], ["set_ref", members_in, "s", 2],
            ["new_cells", members_in, "g", F(2, 1, "g", "s")]]
    return ops + [list(o) for o in extra]


MOTIFS_DAG = [
    # two paths of lengths 2 and 3 from the top A to the join E, a sub space G below the join with a cells of
    # its own that calls a derived one:   A -> B -> E,  A -> C -> D -> E,  E -> G
    dag_motif([("A", []), ("B", ["A"]), ("C", ["A"]), ("D", ["C"]), ("E", ["B", "D"]), ("G", ["E"])],
              extra=[["new_cells", "G", "h", F(1, 1, "f")]]),
    # the same below a top space that defines nothing: T -> A (the members live in A), so that detaching A from
    # T or deleting T re-derives the whole graph without taking a definer away, and detaching / deleting A does;
    # the long path is declared FIRST in the join, a second join H(E, B) and a chain G -> K below
    dag_motif([("T", []), ("A", ["T"]), ("B", ["A"]), ("C", ["A"]), ("D", ["C"]), ("E", ["D", "B"]), ("G", ["E"]),
               ("K", ["G"])],
              extra=[["new_cells", "T", "k", F(0, 4)], ["new_cells", "K", "h", F(1, 1, "g")]]),
    # three paths of lengths 1, 2, 3 to the join, the join's sub space also derives from the short path directly
    #   A -> E (direct), A -> B -> E, A -> C -> D -> E;  G(E), H(G, B)
    dag_motif([("A", []), ("B", ["A"]), ("C", ["A"]), ("D", ["C"]), ("E", ["D", "B", "A"]), ("G", ["E"]),
               ("H", ["G", "B"])],
              members_in="A", extra=[["set_formula", "C", "f", F(0, 2)], ["new_cells", "H", "h", F(1, 1, "f")]]),
]


# A cells whose VALUE depends on the name of its space (template 17: `_space.fullname`), in a child space (g) and in
# its parent (h), computed through from ELSEWHERE: by the parent through the child (`X.g(x)`), and from an unrelated
# space that holds the child / the parent in object-valued references (k, f), with a chain above one caller.
# Renaming the space (or its parent) changes what g / h return; nothing but the nodes of g / h ties the callers
# elsewhere to the renamed space.  The second program has g and h uncached from the start (for the properties
# whose histories carry the flags themselves).  Used by the enumerations of the properties that ask for them
# (cfg["enum_motifs"]); the random histories do not start from them (their draws do not move).
_NAME = [["new_space", "-", "C", []], ["new_space", "C", "X", []],
         ["new_cells", "C.X", "g", F(17, 1)], ["new_cells", "C", "h", F(17, 2)],
         ["new_cells", "C", "f", F(4, 1, "g", "r", "X")],
         ["new_space", "-", "B", []], ["set_ref", "B", "X", ["obj", "C.X"], "absolute"],
         ["set_ref", "B", "Y", ["obj", "C"], "absolute"],
         ["new_cells", "B", "k", F(4, 1, "g", "r", "X")], ["new_cells", "B", "f", F(4, 2, "h", "r", "Y")],
         ["new_space", "-", "D", []], ["set_ref", "D", "t", ["obj", "B.k"], "absolute"],
         ["new_cells", "D", "f", F(9, 1, "f", "t")]]
MOTIFS_NAME = [
    _NAME,
    _NAME[:3] + [["set_cached", "C.X", "g", 0]] + _NAME[3:4] + [["set_cached", "C", "h", 0]] + _NAME[4:],
]


# The name of a space read DIRECTLY from elsewhere (template 18: `X.fullname`, `X` an object-valued reference to the
# space): `B.k` reads the name of `C.X`, `B.f` the name of `C`, `D.f` is a dependent of `B.k`.  The renamed spaces hold
# a cells each (so that `rename_space_edits` renames them) that nothing elsewhere calls.
MOTIFS_NAME_REF = [
    [["new_space", "-", "C", []], ["new_space", "C", "X", []],
     ["new_cells", "C.X", "g", F(0, 1)], ["new_cells", "C", "h", F(0, 2)],
     ["new_space", "-", "B", []], ["set_ref", "B", "X", ["obj", "C.X"], "absolute"],
     ["set_ref", "B", "Y", ["obj", "C"], "absolute"],
     ["new_cells", "B", "k", F(18, 1, "g", "r", "X")], ["new_cells", "B", "f", F(18, 2, "h", "r", "Y")],
     ["new_space", "-", "D", []], ["set_ref", "D", "t", ["obj", "B.k"], "absolute"],
     ["new_cells", "D", "f", F(9, 1, "f", "t")]],
]


def reads_space_name_through_reference(live):
    """some formula of the live model reads `<name>.fullname` for a name other than `_space` (template 18)"""
    import re
    for _p, s in W.all_spaces(live.m):
        for c in s.cells.values():
            try:
                if re.search(r"\b(?!_space\b)[A-Za-z]\w*\.fullname", c.formula.source or ""):
                    return True
            except Exception:   # noqa
                pass
    return False


def rename_space_edits(live, to="Z"):
    """`space.rename(<a free name>)` for every space that holds a cells or has a descendant that does (a static
    space: a parametrised one or one that has bases / sub spaces is refused or not, as the library decides)"""
    spaces = W.all_spaces(live.m)
    holders = [p for p, s in spaces if len(s.cells)]
    return [["rename_space", p, to] for p, _ in spaces if any(h == p or h.startswith(p + ".") for h in holders)]


def base_motifs(cfg):
    return MOTIFS + MOTIFS_EXT if cfg and cfg.get("ext") else MOTIFS


def motifs_for(cfg):
    """the shared motif programs (with the extended ones for `ext`) plus the ones a property adds for itself
    (cfg["extra_motifs"])"""
    return base_motifs(cfg) + list((cfg or {}).get("extra_motifs", ()))


def motif(rng, weights=None, pool=None, cfg=None):
    if pool is None:
        pool = motifs_for(cfg) if cfg is not None else MOTIFS
    if weights:
        weights = list(weights) + [1] * (len(pool) - len(weights))
    m = rng.choices(pool, weights)[0] if weights else rng.choice(pool)
    return [list(o) for o in m]


def uncached_variants(m):
    """the motif program with one of its cells uncached from its creation on (assignments to that name
    are dropped: an uncached cells refuses them)"""
    out = []
    for i, o in enumerate(m):
        if o[0] == "new_cells":
            out.append([list(x) for x in m[:i + 1]] + [["set_cached", o[1], o[2], 0]]
                       + [list(x) for x in m[i + 1:] if not (x[0] == "set_value" and x[2] == o[2])])
    return out


def single_edits(live, ext=False):
    """every single structural/definition edit applicable to the live model (small-scope
    exhaustive enumeration: each is tried after the same prefix); ext: more ways to clear one
    element or one cells (one argument key, all values, a switch of the cache flag)"""
    edits = []
    spaces = W.all_spaces(live.m)
    paths = [p for p, _ in spaces]
    n = 0
    for path, s in spaces:
        for cn, c in s.cells.items():
            n += 1
            edits.append(["set_formula", path, cn, F(0, 7 + n % 3)])
            edits.append(["set_formula", path, cn, F(2, 1, cn, "s" if "s" in s.refs else "r")])
            if not c._is_derived():
                edits.append(["del_cells", path, cn])
                edits.append(["rename_cells", path, cn, "k" if cn != "k" else "h"])
            edits.append(["set_value", path, cn, 1, 40 + n])
            edits.append(["clear", path, cn])
            if ext:
                edits.append(["clear_at", path, cn, 1])
                edits.append(["clear_all", path, cn])
                edits.append(["set_cached", path, cn, 0 if c.is_cached else 1])
        for rn in s._own_refs:
            if not s._impl.own_refs[rn].is_derived():
                edits.append(["set_ref", path, rn, 30 + n])
                edits.append(["del_ref", path, rn])
            else:
                edits.append(["set_ref", path, rn, 35 + n])       # override a derived reference
        for rn in ("r", "s", "t"):
            if rn not in s._own_refs:
                edits.append(["set_ref", path, rn, 50])
        for b in s._direct_bases:
            edits.append(["remove_bases", path, [W.rel(live.m, b)]])
        cand = [o for o in paths if o != path and o not in [W.rel(live.m, b) for b in s._direct_bases]]
        for other in cand:
            edits.append(["add_bases", path, [other]])
        for i in range(len(cand)):
            for j in range(i):
                edits.append(["add_bases", path, [cand[i], cand[j]]])     # two bases, not in creation order
        edits.append(["del_space", path])
        edits.append(["set_param", path, 1 if s.formula is None else 0])
        for cn, c in s.cells.items():
            if not c._is_derived():
                edits.append(["rename_cells", path, cn, "t"])
                edits.append(["rename_cells", path, cn, "X"])
        free = [c for c in W.CELLS if c not in s.cells]
        if free:
            edits.append(["new_cells", path, free[0], F(0, 9)])
    used = set()
    for path, s in spaces:
        used |= set(s.cells) | set(s._own_refs) | set(s.spaces)
    used = sorted(n for n in used if not n.startswith("_"))
    for path, s in spaces:
        for nm in used:
            if nm not in s.cells and nm not in s._own_refs and nm not in s.spaces:
                edits.append(["new_cells", path, nm, F(0, 9)])
                edits.append(["set_ref", path, nm, 51])
                edits.append(["new_space", path, nm, []])
    edits += [["set_mref", "u", 60], ["set_mref", "r", 61], ["del_mref", "u"]]
    out = []
    for e in edits:
        if e not in out:
            out.append(e)
    return out


CLEARING = ("set_value", "clear", "clear_at", "clear_all", "set_cached", "del_cells")


def is_clearing(e):
    """an edit that takes held values of ONE cells away (and nothing else of the definitions the
    other cells read)"""
    return e[0] in CLEARING or (e[0] == "set_formula" and e[3][0] == 0)


def ref_edits_existing(live, edits):
    """the edits (of a `single_edits` list) that change or delete a reference that exists"""
    out = []
    own = {(p, rn) for p, s in W.all_spaces(live.m) for rn in s._own_refs}
    for e in edits:
        if e[0] in ("set_ref", "del_ref") and (e[1], e[2]) in own:
            out.append(e)
        elif e[0] in ("set_mref", "del_mref"):
            out.append(e)
    return out


QUICK_FIRST = ("set_value", "clear", "clear_at", "set_cached", "set_formula")


def ext_sequences(live, edits, rng, exhaustive, thorough=False, cap_pairs=14, cap_triples=6, cap_triples_ext=10,
                  cap_pairs_ext=36):
    """the extended scenario families (each sequence is run after the motif program with everything
    evaluated, and followed by evaluating everything):
      * (clearing edit of one cells, edit of an existing reference): a reader of the reference is cleared,
        overwritten, redefined or switched, then the reference changes - the other readers must follow,
        and a value assigned in the first step must survive unless it is the reference's own reader;
      * (reference edit, value assignment, edit of ANOTHER reference): an assigned value must not be
        discarded through edges its element had before it was cleared;
    thorough tier: everything; quick tier: for the extended motifs a seeded sample of `cap_pairs_ext` pairs whose first
    edit is of the kinds QUICK_FIRST and a seeded sample of the triples, for the base motifs a smaller sample of both"""
    refed = ref_edits_existing(live, edits)
    first = [e for e in edits if is_clearing(e)]
    pairs = [[a, b] for a in first for b in refed]
    setrefs = [e for e in refed if e[0] in ("set_ref", "set_mref")]
    assigns = [e for e in edits if e[0] == "set_value"]
    triples = [[a, v, b] for a in setrefs for b in refed if b[1:3] != a[1:3] for v in assigns]
    if thorough:
        return pairs + triples
    if exhaustive:
        # (every such pair until the families below were added; the pairs of one motif are highly redundant - each
        # clearing kind x each reference edit - so a seeded sample of them pays for the new families)
        pairs = [p for p in pairs if p[0][0] in QUICK_FIRST]
        pairs = rng.sample(pairs, min(len(pairs), cap_pairs_ext))
    else:
        pairs = rng.sample(pairs, min(len(pairs), cap_pairs))
    cap = cap_triples_ext if exhaustive else cap_triples
    triples = rng.sample(triples, min(len(triples), cap))
    return pairs + triples


def input_sequences(live, edits, rng, thorough=False, cap=6):
    """the family "an INPUT, then the cells is redefined, evaluated again, then its namespace changes":
      [assign a value to one element of a cached cells;
       redefine that cells - a new formula (constant / reading a reference by name), a new name, the cache flag
       switched off and on again, or (a derived cells) a new formula of the cells it derives from;
       evaluate everything - the element that held the input now holds an ordinary computed value;
       edit a reference visible in the cells' space (its own, one it derives, a model-level one, or a new one)]
    followed, like every sequence, by evaluating everything.  The redefinition discards the input; what is computed at
    the same argument afterwards must follow the reference edit like any other computed value.
    Reference edits are *aimed*: those of a name the cells' (new) formula mentions are all used, of the others one
    (seeded); thorough tier: all.  Quick tier: a seeded sample of `cap` sequences per motif."""
    import re
    spaces = W.all_spaces(live.m)
    seqs = []
    for path, s in spaces:
        lin = [W.rel(live.m, b) for b in s.bases]
        vis = [e for e in edits if (e[0] in ("set_ref", "del_ref") and (e[1] == path or e[1] in lin))
               or e[0] in ("set_mref", "del_mref")]
        for cn, c in s.cells.items():
            if not c.is_cached:
                continue
            assign = [e for e in edits if e[0] == "set_value" and e[1:3] == [path, cn]][:1]
            if not assign:
                continue
            redefs = []        # (ops, formula source afterwards)
            definers = [path] + ([b for b in lin if cn in dict(spaces)[b].cells
                                  and not dict(spaces)[b].cells[cn]._is_derived()][:1] if c._is_derived() else [])
            for e in edits:
                if e[0] == "set_formula" and e[2] == cn and e[1] in definers:
                    redefs.append(([e], W.formula_src(cn, e[3])))
            src = c.formula.source if c.formula is not None else ""
            rn = [e for e in edits if e[0] == "rename_cells" and e[1:3] == [path, cn]][:1]
            if rn:
                redefs.append((rn, src))
            redefs.append(([["set_cached", path, cn, 0], ["set_cached", path, cn, 1]], src))
            for redef, after in redefs:
                words = set(re.findall(r"[A-Za-z_]\w*", after or ""))
                aimed = [e for e in vis if (e[2] if e[0] in ("set_ref", "del_ref") else e[1]) in words]
                rest = [e for e in vis if e not in aimed]
                chosen = vis if thorough else aimed + (rng.sample(rest, 1) if rest else [])
                for d in chosen:
                    seqs.append(assign + redef + [["evalall"], d])
    if not thorough:
        seqs = rng.sample(seqs, min(len(seqs), cap))
    return seqs


def free_cells_name(s, avoid=()):
    for n in W.CELLS:
        if n not in s.cells and n not in avoid:
            return n
    return None


def rename_sequences(live, edits, rng, exhaustive, thorough=False, cap=1):
    """the family "a cells that holds an INPUT is renamed, and its old name is used again":
      [assign a value to one element of a defined cached cells; evaluate everything (whatever reads the cells - by
       name, through a reference to the cells or to its space, by an attribute path from a child or any other space -
       now holds values computed from the input); rename the cells;
       (nothing more | a NEW cells gets the old name, at once or after everything was evaluated again)]
    followed, like every sequence, by evaluating everything.  A path that went through the old name resolves to
    nothing, or to the new cells: nothing computed from the input under the old name may survive.
    Quick tier: everything after the extended motifs (`exhaustive`), a seeded sample of `cap` cells after the others."""
    seqs = []
    n = 0
    for path, s in W.all_spaces(live.m):
        for cn, c in s.cells.items():
            n += 1
            if c._is_derived() or not c.is_cached:
                continue
            new = free_cells_name(s)
            if new is None:
                continue
            assign = [["set_value", path, cn, 1, 60 + n], ["evalall"]]
            ren = ["rename_cells", path, cn, new]
            again = ["new_cells", path, cn, F(0, 9)]
            seqs.append([assign + [ren], assign + [ren, again], assign + [ren, ["evalall"], again]])
    if not (thorough or exhaustive):
        seqs = rng.sample(seqs, min(len(seqs), cap))
    return [x for grp in seqs for x in grp]


def shared_callee_sequences(live, edits, uncache=False, with_names=False):
    """the family "a cells SHARED by several callers; ONE caller is invalidated on its own; then an edit that must
    reach the others through the shared cells".  Read off the dependency graph of the live model (every cells
    cached, everything evaluated): U is shared when elements of at least two other cells were computed from elements
    of U.  For each caller A of U:
      first  = a way to discard what A holds and nothing else: `clear A`, `clear_at A 1`, or a change of a
               reference that, of all the cells, only A reads by attribute path (reference graph);
      second = an edit that must reach the values computed through U: a new formula of U (constant / reading a
               reference), U deleted, U renamed, a change or deletion of a reference U's formula mentions and U's
               space sees.
    uncache: the sequence starts with `set_cached U 0; evalall` (for the properties whose histories carry the flags
    themselves); otherwise the flags come from outside (C09's assignments).  with_names: [(name of U, sequence)]."""
    import re
    where = {}
    for path, sp in W.all_spaces(live.m):
        for cn, c in sp.cells.items():
            where[id(c._impl)] = (path, cn, c, sp)
    callers = collections.defaultdict(dict)
    for a, b in live.m._impl.tracegraph.edges:
        if a[0] is not b[0] and id(a[0]) in where and id(b[0]) in where:
            callers[id(a[0])][id(b[0])] = True
    readers = collections.defaultdict(set)      # (space path, reference name) -> cells that read it by attribute path
    for r, node in live.m._impl.refgraph.edges:
        try:
            rp = W.rel(live.m, r.parent.interface) if hasattr(r.parent, "interface") and r.parent is not live.m._impl else None
        except Exception:   # noqa
            rp = None
        if rp is not None and id(node[0]) in where:
            readers[(rp, r.name)].add(id(node[0]))
    seqs = []
    for u, cs in callers.items():
        if len(cs) < 2:
            continue
        pu, nu, cu, su = where[u]
        if cu._is_derived():
            continue
        src = cu.formula.source if cu.formula is not None else ""
        words = set(re.findall(r"[A-Za-z_]\w*", src or ""))
        lin = [pu] + [W.rel(live.m, b) for b in su.bases]
        new = free_cells_name(su)
        seconds = [e for e in edits if e[0] == "set_formula" and e[1:3] == [pu, nu]]
        seconds += [["del_cells", pu, nu]] + ([["rename_cells", pu, nu, new]] if new else [])
        seconds += [e for e in edits if (e[0] in ("set_ref", "del_ref") and e[1] in lin and e[2] in words)
                    or (e[0] in ("set_mref", "del_mref") and e[1] in words)]
        for a in cs:
            pa, na, ca, _ = where[a]
            firsts = [["clear", pa, na], ["clear_at", pa, na, 1]]
            firsts += [e for e in edits if e[0] == "set_ref" and readers.get((e[1], e[2])) == {a}]
            pre = [["set_cached", pu, nu, 0], ["evalall"]] if uncache else []
            for f in firsts:
                for sec in seconds:
                    seqs.append((nu, pre + [f, sec]) if with_names else pre + [f, sec])
    return seqs


def enumerate_edits(ctx, out, prop, hooks_factory, cfg, stats, quick_per_motif=16, pairs_per_motif=6):
    """small-scope exhaustive part: after every motif program (everything evaluated), every
    applicable single edit (quick tier: a seeded sample), followed by evaluating everything
    again; plus sampled pairs of edits.  Runs through the property's own hooks.
    With cfg["uncached_variants"] every motif program is also run with each one of its cells uncached
    (quick tier: the edits of cfg["enum_always"] plus a small sample, no pairs)."""
    ext = bool(cfg.get("ext"))
    nbase = len(base_motifs(cfg))
    programs = []
    for mi, m in enumerate(motifs_for(cfg) + [list(x) for x in cfg.get("enum_motifs", ())]):
        if not m:
            continue
        programs.append((mi, m, False))
        if cfg.get("uncached_variants") and m not in MOTIFS_DAG:
            for vi, v in enumerate(uncached_variants(m)):
                programs.append(("%s.u%d" % (mi, vi), v, True))
    for mi, m, variant in programs:
        is_ext_motif = isinstance(mi, int) and len(MOTIFS) <= mi < nbase
        prefix = [["set_mref", "u", 11], ["set_mref", "r", 12]] + [list(o) for o in m] + [["evalall"]]
        close_all()
        live = W.Live("M")
        try:
            for op in prefix:
                if op[0] == "evalall":
                    eval_everything(live)
                else:
                    live.apply(op)
            ok, edits = observe(out, hist_json(prefix), "after a motif program", single_edits, live, ext)
            rng = ctx.rng("enum", prop, mi)
            extseqs, refed = [], []
            # cfg["space_renames"]: every space that holds cells (or whose descendants do) renamed - on top of the
            # sample of single edits (which it does not move)
            renames = rename_space_edits(live) if ok and cfg.get("space_renames") else []
            if ok:
                extseqs = ext_sequences(live, edits, ctx.rng("enum-ext", prop, mi), exhaustive=is_ext_motif,
                                        thorough=ctx.tier == "thorough") if ext and not variant else []
                if ext and not variant:
                    inseqs = input_sequences(live, edits, ctx.rng("enum-input", prop, mi),
                                             thorough=ctx.tier == "thorough")
                    stats["enumerated_input_sequences"] += len(inseqs)
                    renseqs = rename_sequences(live, edits, ctx.rng("enum-rename", prop, mi), exhaustive=is_ext_motif,
                                               thorough=ctx.tier == "thorough")
                    stats["enumerated_rename_sequences"] += len(renseqs)
                    shseqs = shared_callee_sequences(live, edits, uncache=True)
                    if ctx.tier != "thorough":
                        shseqs = ctx.rng("enum-shared", prop, mi).sample(shseqs, min(len(shseqs), cfg.get("shared_cap", 12)))
                    stats["enumerated_shared_callee_sequences"] += len(shseqs)
                    extseqs = extseqs + inseqs + renseqs + shseqs
                refed = ref_edits_existing(live, edits) if is_ext_motif else []
        finally:
            live.close()
            close_all()
        if not ok:
            continue
        if variant:
            edits = [e for e in edits if e[0] != "set_value"]
        extra = isinstance(mi, int) and mi >= nbase
        per = quick_per_motif if not variant else 4
        # the asymmetric inheritance graphs are large (7-8 spaces, 180-360 single edits): in the quick tier the edits
        # that take a definer or a base relation away (cfg["enum_always"]) and a small sample of the others, no pairs;
        # in the thorough tier every single edit and a sample of the structured pairs; no uncached variants
        is_dag = m in MOTIFS_DAG
        dag = is_dag and ctx.tier != "thorough"
        if (extra and cfg.get("extra_light")) or dag:
            per = 6
        chosen = edits if ctx.tier == "thorough" else rng.sample(edits, min(len(edits), per))
        chosen = chosen + [e for e in refed if e not in chosen]     # extended motifs: every edit of an existing reference
        chosen = chosen + [e for e in edits if e[0] in cfg.get("enum_always", ()) and e not in chosen]
        if extra and not dag:
            # a property's own motifs: also every edit of the kinds it names (e.g. adding ONE base anywhere)
            chosen = chosen + [e for e in edits if e not in chosen and any(pred(e) for pred in cfg.get("extra_always", ()))]
        seqs = [[e] for e in chosen] + [[e] for e in renames]
        stats["enumerated_space_renames"] += len(renames)
        if variant:
            stats["uncached_variant_programs"] += 1
        light = (variant or dag or (extra and cfg.get("extra_light"))) and ctx.tier != "thorough"
        for _ in range(0 if light else pairs_per_motif * (4 if ctx.tier == "thorough" else 1)):
            seqs.append([rng.choice(edits), ["evalall"], rng.choice(edits)])
        # structured pairs: a value edit / clear of one element, then a reference or base edit
        first = [e for e in edits if e[0] in ("set_value", "clear")]
        second = [e for e in edits if e[0] in ("set_ref", "del_ref", "set_mref", "remove_bases", "add_bases", "new_space")]
        if first and second and not light:
            allpairs = [[a, b] for a in first for b in second]
            # (the extended families hold the (clearing edit, reference edit) pairs already: a smaller sample here)
            for pr in (allpairs if ctx.tier == "thorough" and not is_dag else
                       rng.sample(allpairs, min(len(allpairs), 60 if is_dag else 4 if ext else 10))):
                seqs.append(pr)
        # a base edit followed by an unrelated structural edit (orders must survive graph copies) - a matter of the
        # structural properties, not run in the quick tier of the value properties (`ext`)
        for e in [e for e in edits if e[0] == "add_bases" and len(e[2]) == 2][:((12 if is_dag else 99) if ctx.tier == "thorough" else 4 if not (light or ext) else 0)]:
            seqs.append([e, ["new_space", "-", "D" if not any(p == "D" for p in [x[2] for x in m if x[0] == "new_space"]) else "B", []]])
        seqs += extseqs
        stats["enumerated_ext_sequences"] += len(extseqs)
        for seq in seqs:
            ops = [list(o) for o in prefix] + [list(o) for o in seq] + [["evalall"]]
            sub = core.Outcome()
            run_one(ops, sub, stats, hooks_factory(), cfg)
            merge(out, sub)
            stats["enumerated_scenarios"] += 1
            if len([f for f in out.failures if not f.get("key")]) >= 4:
                return
