"""Correspondence between the COMBINED machine (lean/MxModel/Edit/Machine.lean, driver layer `edit`: structural
mechanism model x executor, the definitions read off the structure, every structural edit followed by the clearing
the code performs) and the real modelx.

For the struct histories whose vocabulary the machine covers - spaces, ordered bases, cells whose formulas read
references and call cells BY NAME (templates 0, 1, 2, 5, 6, 7, 8, 12, 13, 14 of structworld.TEMPLATES), plain-valued
references, cache flags, value assignments / clearings, evaluations - every operation is sent to the machine and,
after EVERY operation, the two sides must agree on
  * accept / refuse of a structural edit,
  * the value an evaluation returns (an error on one side must be an error on the other),
  * the set of HELD elements (space, cells, key) with their values and input marks,
and the machine's own decidable coverage check of the step (`Edit.stepCovered`, `C02.machine_keeps_ci_partial`)
must hold.  The comparison of a history ends at the first operation outside the vocabulary that the implementation
accepts (model-level references, object-valued references, attribute paths through child spaces, parametrised
spaces, renamed spaces, allow_none).  What this ties: `Edit.clearing` (which cells are cleared as objects, which
spaces' cells are notified, for which references `clear_attr_referrers` runs, per operation and per walked sub
space), `Edit.envOf` (a derived cells resolves names in the sub space; flags travel with the definition) and the
identity of members across edits.
"""
import collections

from . import core
from . import structworld as W
from . import struct_api_gen as api
from .mechworld import is_obj, Interner
from . import mechworld


def norm_src(src):
    """the text of a formula without the name of the def and without trailing blanks"""
    r = mechworld.norm_src(src)
    return r.strip() if isinstance(r, str) else r

COVERED_TEMPLATES = {0, 1, 2, 5, 6, 7, 8, 12, 13, 14}
UNCOVERED_OPS = ("set_param", "eval_item", "allow_none", "new_cells_src",
                 "new_cells_obj", "set_formula_obj", "set_param_obj", "new_space_obj")


def held(model):
    """the held elements of the live model: 'space.cells(x)=vI|C', sorted"""
    rows = []
    for path, s in W.all_spaces(model):
        for cn, c in s.cells.items():
            impl = c._impl
            for key, v in impl.data.items():
                rows.append("%s.%s(%s)=%s%s" % (path, cn, ",".join(W.val_repr(a) for a in key), W.val_repr(v),
                                                "I" if key in impl.input_keys else "C"))
    return ",".join(sorted(rows))


def short(res):
    """an evaluation: the value, or only THAT it failed"""
    return res if res.startswith("ok") else "ERR"


class EditCorr:
    """one per history; feeds the persistent `edit` driver incrementally and compares after every operation"""

    def __init__(self, objrefs=False):
        # objrefs: a reference whose value is a space is not an operation of the machine (it models what is read
        # THROUGH the space, not the reference to it); only the scenario families that never rebind it set this
        self.objrefs = objrefs
        self.intern = Interner()
        self.by_src = {}            # normalised source -> template tuple
        self.sent_defs = set()
        self.sent_rvals = set()
        self.spelling = {}          # id(space impl) -> the name its slots were first declared under
        self.declared = set()
        self.alive = True
        self.ended = None
        self.started = False
        self.compared = 0
        self.noop = False
        self.pre_kind = None

    # -- talking to the driver
    def ask(self, lines):
        if not self.started:
            lines = ["reset"] + lines
            got = core.DriverProc.ask("edit", lines)[1:]
            self.started = True
            return got
        return core.DriverProc.ask("edit", lines)

    def end(self, k, kind):
        self.alive = False
        self.ended = (k, kind)

    # -- payloads
    def note(self, name, t):
        try:
            self.by_src[norm_src(W.formula_src(name, t))] = tuple(t)
        except Exception:   # noqa
            pass

    def cpay(self, live, path, name, pre):
        """payload of the cells `path.name` as it is now; None when its formula is outside the vocabulary"""
        c = live.space(path).cells[name]
        t = self.by_src.get(norm_src(c.formula.source if c.formula is not None else None))
        if t is None:
            return None
        a = t[2]
        if t[0] == 3 and self.objrefs:
            # `{c}.{r}`: covered when `{c}` is a REFERENCE of the space to a top-level space (the same space for
            # every sub space); the machine gets the path of that space and the attribute slot
            sp = live.space(path)
            tgt = sp.refs.get(t[4]) if t[4] in sp.refs and t[4] not in sp.spaces else None
            if tgt is None or type(tgt).__name__ != "UserSpace" or tgt.parent is not live.m:
                return None
            # the slot keeps the spelling it was declared under when the space is renamed (`Edit.Tabs.spell`: the
            # reference follows the object); a slot that would have to be declared for a space AFTER it was renamed,
            # or under a name that spelled another space, is outside what the driver's `slot` line can say
            first = self.spelling.get(id(tgt._impl))
            if first is None:
                if tgt.name in self.spelling.values():
                    return None
                first = self.spelling[id(tgt._impl)] = tgt.name
            if first != tgt.name and (first, t[3]) not in self.declared:
                return None
            a = first
            if (first, t[3]) not in self.declared:
                self.declared.add((first, t[3]))
                pre.append("slot %s %s" % (a, t[3]))
        elif t[0] == 16:
            for p_, _s in W.all_spaces(live.m):
                pre.append("slot %s %s" % (p_, t[3]))
        elif t[0] not in COVERED_TEMPLATES:
            return None
        key = ("c", t[0], t[1], a, t[3], bool(c.is_cached))
        pid = self.intern(key)
        if pid not in self.sent_defs:
            self.sent_defs.add(pid)
            pre.append("def %d %d %d %d %s %s" % (pid, int(bool(c.is_cached)), t[0], t[1], a, t[3]))
        return pid

    def rpay(self, value, pre):
        pid = self.intern(("r", value))
        if pid not in self.sent_rvals:
            self.sent_rvals.add(pid)
            pre.append("rval %d %d" % (pid, value))
        return pid

    # -- hooks
    def before(self, live, k, op):
        self.noop = False
        self.pre_kind = None
        if not self.alive:
            return
        try:
            if op[0] == "set_cached":
                self.noop = bool(live.space(op[1]).cells[op[2]].is_cached) == bool(op[3])
            elif op[0] in ("set_ref", "del_ref"):
                self.pre_kind = api.name_kind(live, op[1], op[2])
            elif op[0] == "del_mref":
                self.pre_kind = "space" if op[1] in live.m.spaces else None
            elif op[0] == "del_space" and isinstance(op[1], str):
                par, _, nm = op[1].rpartition(".")
                self.pre_kind = api.name_kind(live, par, nm, model_level=not par)
        except Exception:   # noqa
            pass

    def after(self, live, ops, k, op, result, out, hist_of):
        if not self.alive:
            return
        kind = op[0]
        acc = not result.startswith("err")
        if kind in ("new_cells", "set_formula") and len(op) > 3 and isinstance(op[3], (tuple, list)) and len(op[3]) == 5:
            self.note(op[2], op[3])
        pre, line, want = [], None, None
        csv = lambda xs: ",".join(xs) if xs else "-"   # noqa
        try:
            if kind in UNCOVERED_OPS:
                if acc:
                    self.end(k, kind)
                return
            if kind == "evalall":
                # `struct_props.eval_everything` has just evaluated every cells for the standard arguments, in this
                # order; the cells that exist NOW are those it went through unless an evaluation... cannot edit
                lines = ["eval %s %s %d" % (path, cn, x) for path, s in W.all_spaces(live.m) for cn in list(s.cells)
                         for x in W.QUERY_ARGS]
                if lines:
                    self.ask(lines)
                self.check_obs(live, k, out, hist_of, "evalall")
                return
            if kind == "eval":
                line, want = "eval %s %s %d" % (op[1], op[2], op[3]), short(result)
            elif kind == "set_value":
                if not isinstance(op[4], int) or isinstance(op[4], bool):
                    if acc:
                        self.end(k, kind)
                    return
                line = "setvalue %s %s %d %d" % (op[1], op[2], op[3], op[4])
            elif kind == "clear_at":
                line = "clearat %s %s %d" % (op[1], op[2], op[3])
            elif kind == "clear":
                line = "clear %s %s" % (op[1], op[2])
            elif kind == "clear_all":
                line = "clearall %s %s" % (op[1], op[2])
            elif kind == "set_cached" and self.noop:
                return
            elif kind == "new_space":
                f = ["newspace", op[1], op[2], csv(op[3])]
                if len(op) > 4 and op[4]:
                    refs = dict(op[4])
                    if any(not isinstance(v, int) or isinstance(v, bool) for v in refs.values()):
                        if acc:
                            self.end(k, kind)
                        return
                    f.append(",".join("%s=%d" % (n, self.rpay(v, pre)) for n, v in refs.items()))
                line, want = " ".join(f), "acc" if acc else "rej"
            elif kind == "del_space":
                if self.pre_kind == "iface":
                    return
                line, want = "delspace %s" % op[1], "acc" if acc else "rej"
            elif kind == "new_cells":
                if op[3] == "BAD" or not isinstance(op[2], str) or not op[2]:
                    if acc:
                        self.end(k, kind)
                    return
                if not acc:
                    if result == "err Syntax":
                        return
                    line, want = "newcells %s %s %s 0" % (op[1], op[2], api.formula_name(op)), "rej"
                else:
                    if op[2] not in live.space(op[1]).cells:
                        self.end(k, kind)       # named after its formula / automatically: C12's business
                        return
                    pid = self.cpay(live, op[1], op[2], pre)
                    if pid is None:
                        self.end(k, kind)
                        return
                    line, want = "newcells %s %s %s %d" % (op[1], op[2], api.formula_name(op), pid), "acc"
            elif kind in ("set_formula", "set_cached"):
                if kind == "set_formula" and op[3] == "BAD":
                    if acc:
                        self.end(k, kind)
                    return
                if not acc:
                    line, want = "setformula %s %s 0" % (op[1], op[2]), "rej"
                else:
                    pid = self.cpay(live, op[1], op[2], pre)
                    if pid is None:
                        self.end(k, kind)
                        return
                    line, want = "setformula %s %s %d" % (op[1], op[2], pid), "acc"
            elif kind == "del_cells":
                line, want = "delcells %s %s" % (op[1], op[2]), "acc" if acc else "rej"
            elif kind == "rename_cells":
                line, want = "rename %s %s %s" % (op[1], op[2], op[3]), "acc" if acc else "rej"
                if acc:
                    c = live.space(op[1]).cells[op[3]]
                    t = self.by_src.get(norm_src(c.formula.source))
                    if t is not None:
                        self.note(op[3], t)
            elif kind == "rename_space":
                # `space.rename(new)`: `Edit.stepR` (the identities of the cells follow the relabelling)
                if not isinstance(op[1], str) or not isinstance(op[2], str) or not op[1] or not op[2]:
                    if acc:
                        self.end(k, kind)
                    return
                line, want = "renamespace %s %s" % (op[1], op[2]), "acc" if acc else "rej"
            elif kind == "add_bases":
                line, want = "addbases %s %s" % (op[1], csv(op[2])), "acc" if acc else "rej"
            elif kind == "remove_bases":
                line, want = "rmbases %s %s" % (op[1], csv(op[2])), "acc" if acc else "rej"
            elif kind == "set_mref":
                if not isinstance(op[1], str) or is_obj(op[2]) or not isinstance(op[2], int) or isinstance(op[2], bool):
                    if acc:
                        self.end(k, kind)
                    return
                line, want = "setglobal %s %d" % (op[1], self.rpay(op[2], pre) if acc else 0), "acc" if acc else "rej"
            elif kind == "del_mref":
                if self.pre_kind == "space":
                    line = "delspace %s" % op[1]
                else:
                    line = "delglobal %s" % op[1]
                want = "acc" if acc else "rej"
            elif kind == "set_ref" and self.objrefs and is_obj(op[3]) and acc:
                return
            elif kind == "set_ref":
                if is_obj(op[3]) or not isinstance(op[3], int) or isinstance(op[3], bool) or (len(op) > 4 and op[4] != "auto"):
                    if acc:
                        self.end(k, kind)
                    return
                if self.pre_kind in ("iface", "scalar"):
                    if acc:
                        self.end(k, kind)
                    return
                line, want = "setref %s %s %d" % (op[1], op[2], self.rpay(op[3], pre) if acc else 0), "acc" if acc else "rej"
            elif kind == "del_ref":
                if self.pre_kind == "iface":
                    return
                if self.pre_kind in ("cells", "scalar"):
                    line = "delcells %s %s" % (op[1], op[2])
                elif self.pre_kind == "space":
                    line = "delspace %s.%s" % (op[1], op[2])
                else:
                    line = "delref %s %s" % (op[1], op[2])
                want = "acc" if acc else "rej"
            else:
                if acc:
                    self.end(k, kind)
                return
        except Exception:   # noqa  (a malformed operation of the bad stream)
            if acc:
                self.end(k, kind)
            return
        if not all(isinstance(x, str) and x and x.isascii() for x in line.split(" ")):
            if acc:
                self.end(k, kind)
            return
        got = self.ask(pre + [line])[-1]
        uncovered = got.endswith(" UNCOVERED")
        if uncovered:
            got = got[:-len(" UNCOVERED")]
        if kind == "eval":
            got = short(got)
        if want is not None:
            self.compared += 1
            if got != want:
                out.disagree(hist_of(k), k, want, got, layer="edit:" + line.split(" ")[0])
                self.alive = False
                return
        if uncovered:
            # the machine's clearing does not reach a definition the edit changes: `machine_keeps_ci_partial`
            # does not apply to this step
            out.disagree(hist_of(k), k, "covered", "UNCOVERED", layer="edit:coverage:" + line.split(" ")[0])
            self.alive = False
            return
        self.check_obs(live, k, out, hist_of, line.split(" ")[0])
        if kind == "rename_space" and acc and self.alive:
            self.check_renamed_nodes(live, k, op, out, hist_of)

    def check_renamed_nodes(self, live, k, op, out, hist_of):
        """`C02.covered_rename_leaves_nothing_of_the_renamed_spaces`: right after an accepted rename no cells of the
        renamed space or of a space below it has a node in the trace graph - in the machine and in modelx"""
        new = op[1].rpartition(".")[0]
        new = (new + "." if new else "") + op[2]
        inside = lambda nm: nm.startswith(new + ".")     # noqa
        want = ",".join(sorted(x for x in self.ask(["nodes"])[-1].split(",") if x and inside(x)))
        names = set()
        for n in live.m._impl.tracegraph.nodes:
            try:
                names.add(n[0].get_fullname(omit_model=True))
            except Exception:   # noqa
                pass
        got = ",".join(sorted(x for x in names if inside(x)))
        self.compared += 1
        if got != want:
            out.disagree(hist_of(k), k, "nodes:" + got, "nodes:" + want, layer="edit:nodes-after-renamespace")
            self.alive = False

    def check_obs(self, live, k, out, hist_of, what):
        want = held(live.m)
        got = self.ask(["obs"])[-1]
        self.compared += 1
        if got != want:
            out.disagree(hist_of(k), k, want, got, layer="edit:held-after-" + what)
            self.alive = False

    def stats_into(self, stats):
        stats["edit_lines_compared"] += self.compared
        if self.ended is not None:
            stats["edit_ended_at:" + self.ended[1]] += 1
        elif self.compared:
            stats["edit_histories_to_the_end"] += 1


# ----------------------------------------------------------------------------- a family inside the vocabulary

FCFG = {
    "weights": {"new_space": 1.2, "del_space": 0.5, "new_cells": 2.5, "set_formula": 2.2, "set_cached": 0.6,
                "del_cells": 1.0, "rename_cells": 0.4, "add_bases": 1.2, "remove_bases": 0.8, "set_ref": 3.0,
                "del_ref": 1.0, "set_value": 1.0, "clear": 0.5, "eval": 6.0, "evalall": 0.8},
    "ext": True,
}


def covered_op(op):
    if op[0] in ("new_cells", "set_formula") and isinstance(op[3], (tuple, list)):
        return op[3][0] in COVERED_TEMPLATES
    return op[0] not in UNCOVERED_OPS


def covered_motifs():
    """the motif programs of the struct family (diamonds, chains, asymmetric DAGs, overrides, ...) that stay inside
    the vocabulary, and their variants with one cells uncached from the start"""
    from . import struct_props as S
    pool = [[]]
    for m in S.MOTIFS + S.MOTIFS_DAG:
        if m and all(covered_op(o) and not any(is_obj(x) for x in o) for o in m):
            pool.append(m)
            pool.extend(S.uncached_variants(m)[:2])
    return pool


def scenarios():
    """Scenario family: a base `B` (reference `s`, `f` reading it by name, `g` calling `f`, `h` calling `g`), a sub
    space `C(B)` that overrides nothing or the reference or `f`, a sub space `D(C)` below it; each of `f`, `g`
    cached or uncached (the derived copies take the flag); everything evaluated; ONE structural edit in the base
    (or in the middle space); everything evaluated again.  What is compared after every step is the set of held
    elements: the edit must discard exactly what the machine's clearing discards - in `C` and `D` as in `B`."""
    F = lambda i, k=1, a="f", r="s": (i, k, a, r, "X")     # noqa
    edits = [
        [["set_formula", "B", "f", F(6, 3)]], [["set_formula", "B", "g", F(12, 2, "f", "s")]],
        [["set_cached", "B", "f", "FLIP"]], [["set_cached", "B", "g", "FLIP"]],
        [["set_ref", "B", "s", 5]], [["del_ref", "B", "s"]], [["del_ref", "B", "s"], ["set_ref", "B", "s", 6]],
        [["del_cells", "B", "f"]], [["del_cells", "B", "f"], ["new_cells", "B", "f", F(0, 4)]],
        [["rename_cells", "B", "f", "k"]], [["new_cells", "C", "f", F(0, 7)]], [["set_ref", "C", "s", 8]],
        [["set_formula", "C", "g", F(1, 5, "f")]], [["remove_bases", "C", ["B"]]],
        [["new_space", "-", "A", []], ["new_cells", "A", "f", F(0, 9)], ["add_bases", "C", ["A"]]],
        [["new_space", "-", "A", []], ["set_ref", "A", "s", 9], ["add_bases", "D", ["A"]]],
        [["del_space", "B"]], [["del_space", "C"]], [["new_cells", "B", "k", F(1, 1, "h")]],
        [["set_value", "C", "f", 1, 25], ["set_formula", "B", "f", F(6, 2)]],
        [["set_value", "B", "f", 1, 25], ["set_ref", "B", "s", 4]],
    ]
    cases = []
    for fc in (1, 0):
        for gc in (1, 0):
            for over in ("none", "ref", "cells"):
                base = [["new_space", "-", "B", []], ["set_ref", "B", "s", 1], ["new_cells", "B", "f", F(2, 1)],
                        ["new_cells", "B", "g", F(1, 1, "f")], ["new_cells", "B", "h", F(1, 2, "g")],
                        ["new_space", "-", "C", ["B"]], ["new_space", "-", "D", ["C"]]]
                if not fc:
                    base.append(["set_cached", "B", "f", 0])
                if not gc:
                    base.append(["set_cached", "B", "g", 0])
                if over == "ref":
                    base.append(["set_ref", "C", "s", 3])
                if over == "cells":
                    base.append(["set_formula", "C", "f", F(0, 2)])
                for e in edits:
                    ee = [[(1 - (fc if o[2] == "f" else gc)) if x == "FLIP" else x for x in o] for o in e]
                    cases.append([list(o) for o in base] + [["evalall"]] + ee + [["evalall"]])
    return cases


def rename_scenarios():
    """Scenario family `space.rename`: a parent `P` (cells `k`, `m`) with the child `P.B` (reference `s`, `f` reading it,
    `g` calling `f`, `h` calling `g`), sub spaces `C(P.B)` and `D(C)` elsewhere; `f`, `g` cached or uncached; inputs in
    the renamed tree and outside; everything evaluated; then a rename of the child / of the parent (recursive) / of a
    sub space, refused renames, a rename back, a rename onto the name of a formerly deleted space (the tables still
    carry its identities), edits after the rename; everything evaluated again.  Compared after every step: accept /
    refuse, evaluation results, held elements with input marks (the renamed tree loses its inputs), and that no cells
    of the renamed tree keeps a node in the trace graph."""
    F = lambda i, k=1, a="f", r="s": (i, k, a, r, "X")     # noqa
    EA = ["evalall"]
    edits = [
        [["rename_space", "P.B", "Z"]],
        [["rename_space", "P", "Z"]],
        [["rename_space", "C", "Z"]],
        [["rename_space", "D", "Z"]],
        [["rename_space", "P.B", "k"], ["rename_space", "P.B", "B"], ["rename_space", "C", "D"], ["rename_space", "C", "for"]],
        [["rename_space", "P.B", "Z"], EA, ["rename_space", "P.Z", "B"]],
        [["rename_space", "P", "Z"], ["new_space", "-", "P", []], ["new_cells", "P", "k", F(0, 9)], EA,
         ["rename_space", "Z.B", "Y"]],
        [["rename_space", "P.B", "Z"], EA, ["set_formula", "P.Z", "f", F(6, 3)]],
        [["rename_space", "P.B", "Z"], EA, ["set_ref", "P.Z", "s", 5], EA, ["del_space", "P.Z"]],
        [["new_space", "P", "Z", []], ["new_cells", "P.Z", "f", F(0, 8)], ["new_cells", "P.Z", "q", F(0, 6)], EA,
         ["del_space", "P.Z"], ["rename_space", "P.B", "Z"]],
        [["rename_space", "P", "Z"], EA, ["remove_bases", "C", ["Z.B"]]],
        [["set_value", "C", "h", 2, 31], ["rename_space", "P.B", "Z"], EA, ["rename_space", "C", "Y"]],
    ]
    cases = []
    for fc in (1, 0):
        for gc in (1, 0):
            base = [["new_space", "-", "P", []], ["new_cells", "P", "k", F(0, 4)], ["set_ref", "P", "s", 2],
                    ["new_cells", "P", "m", F(2, 1)], ["new_space", "P", "B", []], ["set_ref", "P.B", "s", 1],
                    ["new_cells", "P.B", "f", F(2, 1)], ["new_cells", "P.B", "g", F(1, 1, "f")],
                    ["new_cells", "P.B", "h", F(1, 2, "g")], ["new_space", "-", "C", ["P.B"]],
                    ["new_space", "-", "D", ["C"]]]
            if not fc:
                base.append(["set_cached", "P.B", "f", 0])
            if not gc:
                base.append(["set_cached", "P.B", "g", 0])
            base += [["set_value", "P.B", "h", 1, 25], ["set_value", "P", "k", 1, 26], ["set_value", "D", "h", 1, 27]]
            for e in edits:
                cases.append([list(o) for o in base] + [EA] + [list(o) for o in e] + [EA])
    return cases


def slot_rename_scenarios():
    """Renames of a space THROUGH which other spaces read (`T.c = S.r`, `S` a reference of `T` to the space: the
    reference follows the object, the declared slot keeps its spelling - `Edit.Tabs.spell`) and whose own cells read
    `_space.r` / `r`: the rename itself keeps what `T` holds; afterwards the slot of the renamed space is edited
    (own reference, model-level reference, a base, deletion of the reference / of the space), another space takes
    the old name."""
    F = lambda i, k=1, a="f", r="r", c="S": (i, k, a, r, c)     # noqa
    EA = ["evalall"]
    edits = [
        [["rename_space", "S", "Z"]],
        [["rename_space", "S", "Z"], EA, ["set_ref", "Z", "r", 7]],
        [["rename_space", "S", "Z"], EA, ["set_mref", "r", 4]],
        [["rename_space", "S", "Z"], EA, ["new_space", "-", "B", []], ["set_ref", "B", "r", 5], ["add_bases", "Z", ["B"]]],
        [["set_ref", "S", "r", 7], EA, ["rename_space", "S", "Z"], EA, ["del_ref", "Z", "r"]],
        [["rename_space", "S", "Z"], EA, ["del_space", "Z"]],
        [["rename_space", "S", "Z"], EA, ["rename_space", "S2", "S"], EA, ["set_ref", "S", "r", 2], EA, ["set_ref", "Z", "r", 3]],
        [["rename_space", "S", "Z"], ["new_space", "-", "S", []], ["set_ref", "S", "r", 9], EA, ["del_mref", "r"]],
    ]
    cases = []
    for cached in (1, 0):
        base = [["set_mref", "r", 1], ["new_space", "-", "S", []], ["new_space", "-", "S2", []], ["new_space", "-", "T", []],
                ["set_ref", "T", "S", ("obj", "S")], ["set_ref", "T", "S2", ("obj", "S2")],
                ["new_cells", "S", "f", F(2)], ["new_cells", "S", "g", F(16)], ["new_cells", "T", "c", F(3)],
                ["new_cells", "T", "c2", F(3, 1, "f", "r", "S2")], ["new_cells", "T", "d", F(1, 1, "c")]]
        if not cached:
            base += [["set_cached", "S", "g", 0], ["set_cached", "T", "c", 0]]
        for e in edits:
            cases.append([list(o) for o in base] + [EA] + [list(o) for o in e] + [EA])
    return cases


def shadow_scenarios():
    """Scenario family "a name changes what it denotes through an edit ELSEWHERE" x "how the reader spelled it": a
    model-level reference `x`; a space `S`; readers of `x` as seen from `S`: by bare name (`S.f`), as `_space.x`
    (`S.g`), through another space (`T.c = S.x`, `S` a reference of `T` to the space) - cached / uncached; everything
    evaluated; then ONE edit that makes `x` in `S` denote something else - an own reference of `S`, a reference
    DERIVED into `S` through a new base (defined before or after the evaluation), the model-level reference
    changed / deleted, the shadowing reference deleted / the base removed - ; everything evaluated again."""
    F = lambda i, k=1, a="f", r="r", c="S": (i, k, a, r, c)     # noqa
    edits = [
        [["add_bases", "S", ["B"]]],
        [["set_ref", "S", "r", 7]],
        [["set_mref", "r", 4]],
        [["del_mref", "r"]],
        [["del_mref", "r"], ["set_mref", "r", 6]],
        [["add_bases", "S", ["B"]], ["evalall"], ["remove_bases", "S", ["B"]]],
        [["set_ref", "S", "r", 7], ["evalall"], ["del_ref", "S", "r"]],
        [["add_bases", "S", ["B"]], ["evalall"], ["set_mref", "r", 9]],
        [["add_bases", "S", ["B"]], ["evalall"], ["del_ref", "B", "r"]],
        [["add_bases", "S", ["B"]], ["evalall"], ["set_ref", "B", "r", 8]],
        [["new_space", "-", "A", []], ["set_ref", "A", "r", 3], ["add_bases", "B", ["A"]], ["add_bases", "S", ["B"]]],
        [["set_ref", "S2", "r", 2]],
        [["add_bases", "S2", ["B"]]],
        # the space THROUGH which the model-level reference was read is deleted (`BaseSpaceImpl.on_delete`,
        # /repo 40cbe69): the readers in other spaces (`T.c`, `T.d`) must go; `S2` alone: `T.c2`
        [["del_space", "S"]],
        [["del_space", "S2"]],
        [["set_ref", "S", "r", 7], ["evalall"], ["del_space", "S"]],
        [["add_bases", "S", ["B"]], ["evalall"], ["del_space", "B"]],
    ]
    cases = []
    for cached in (1, 0):
        for bx in ("before", "none"):
            base = [["set_mref", "r", 1], ["new_space", "-", "B", []], ["new_space", "-", "S", []],
                    ["new_space", "-", "S2", []], ["new_space", "-", "T", []],
                    ["set_ref", "T", "S", ("obj", "S")], ["set_ref", "T", "S2", ("obj", "S2")]]
            if bx == "before":
                base.append(["set_ref", "B", "r", 5])
            base += [["new_cells", "S", "f", F(2)], ["new_cells", "S", "g", F(16)], ["new_cells", "T", "c", F(3)],
                     ["new_cells", "T", "c2", F(3, 1, "f", "r", "S2")], ["new_cells", "T", "d", F(1, 1, "c")]]
            if not cached:
                base += [["set_cached", "S", "g", 0], ["set_cached", "T", "c", 0]]
            for e in edits:
                cases.append([list(o) for o in base] + [["evalall"]] + [list(o) for o in e] + [["evalall"]])
    return cases


def cells_shadow_scenarios():
    """The same family with a CELLS as the thing that starts / stops hiding the model-level reference `r` in `S`
    (a cells comes before every reference in a namespace).  `new_cells` / `rename` to a name the namespace binds are
    refused, so the cells `r` exists BEFORE the model-level reference (`model.r = v` looks at no member of any
    space) - in `B`, or in `A` above `B` - and reaches `S` only by DERIVATION: `S.add_bases(B)`,
    `new_space(bases=[B])`, `B.add_bases(A)` with `S` already below `B` (created in a base of `S`); it stops hiding
    when the base is removed, the definer deleted or renamed, the base space deleted.  Readers of `r` as seen from
    `S`: bare (`S.f`), `_space.r` (`S.g`), `S.r` from `T` (`T.c`), `S2.r` (`T.c2`), `T.d` calling `T.c`; cached /
    uncached; everything evaluated before and after every step of the edit sequence."""
    F = lambda i, k=1, a="f", r="r", c="S": (i, k, a, r, c)     # noqa
    EA = ["evalall"]
    edits = [
        [["add_bases", "S", ["B"]]],
        [["add_bases", "S", ["B"]], EA, ["remove_bases", "S", ["B"]]],
        [["add_bases", "S", ["B"]], EA, ["del_cells", "DEF", "r"]],
        [["add_bases", "S", ["B"]], EA, ["rename_cells", "DEF", "r", "q"]],
        [["add_bases", "S", ["B"]], EA, ["set_mref", "r", 9], EA, ["remove_bases", "S", ["B"]]],
        [["add_bases", "S", ["B"]], EA, ["del_mref", "r"], EA, ["set_mref", "r", 4], EA, ["del_cells", "DEF", "r"]],
        [["add_bases", "S", ["B"]], EA, ["del_space", "B"]],
        [["add_bases", "S", ["B"]], EA, ["set_formula", "DEF", "r", F(0, 8, "r")]],
        [["new_space", "-", "S3", ["B"]]],
        [["new_space", "S", "Y", ["B"]]],
        [["add_bases", "S2", ["B"]]],
        [["add_bases", "S2", ["B"]], ["add_bases", "S", ["S2"]], EA, ["remove_bases", "S2", ["B"]]],
        [["new_cells", "S", "r", F(0, 3, "r")]],                    # refused: the namespace of S binds `r`
        [["set_ref", "S", "r", 7], EA, ["add_bases", "S", ["B"]]],  # an own reference, then the cells: refused (conflict)
    ]
    # "created in a base of S": S is below B from the start, the cells arrives in B (and S) when B gets the base A
    below = [
        [["add_bases", "B", ["A"]]],
        [["add_bases", "B", ["A"]], EA, ["remove_bases", "B", ["A"]]],
        [["add_bases", "B", ["A"]], EA, ["del_cells", "A", "r"]],
        [["add_bases", "B", ["A"]], EA, ["remove_bases", "S", ["B"]]],
        [["add_bases", "B", ["A"]], EA, ["del_space", "A"]],
    ]
    cases = []
    for cached in (1, 0):
        for definer in ("B", "A", "below"):
            base = [["new_space", "-", "B", []]]
            if definer == "B":
                base += [["new_cells", "B", "r", F(0, 5, "r")]]
            elif definer == "A":
                base += [["new_space", "-", "A", []], ["new_cells", "A", "r", F(0, 5, "r")], ["add_bases", "B", ["A"]]]
            else:
                base += [["new_space", "-", "A", []], ["new_cells", "A", "r", F(0, 5, "r")]]
            base += [["set_mref", "r", 1], ["new_space", "-", "S", ["B"] if definer == "below" else []],
                     ["new_space", "-", "S2", []], ["new_space", "-", "T", []],
                     ["set_ref", "T", "S", ("obj", "S")], ["set_ref", "T", "S2", ("obj", "S2")],
                     ["new_cells", "S", "f", F(2)], ["new_cells", "S", "g", F(16)], ["new_cells", "T", "c", F(3)],
                     ["new_cells", "T", "c2", F(3, 1, "f", "r", "S2")], ["new_cells", "T", "d", F(1, 1, "c")]]
            if not cached:
                base += [["set_cached", "S", "g", 0], ["set_cached", "T", "c", 0]]
            for e in (below if definer == "below" else edits):
                e = [[definer if x == "DEF" else x for x in o] for o in e]
                cases.append([list(o) for o in base] + [["evalall"]] + [list(o) for o in e] + [["evalall"]])
    return cases


def run_history(ops, out, stats, objrefs=False):
    from . import struct_props as S
    from .impl import close_all
    close_all()
    live = W.Live("M")
    ec = EditCorr(objrefs=objrefs)
    hist_of = lambda k: S.hist_json(ops, k)      # noqa
    try:
        for k, op in enumerate(ops):
            ec.before(live, k, op)
            if op[0] == "evalall":
                S.eval_everything(live)
                r = "ok"
            else:
                r = live.apply(op)
            ec.after(live, ops, k, op, r, out, hist_of)
            if not ec.alive:
                break
    finally:
        live.close()
        close_all()
    ec.stats_into(stats)
    stats["edit_scenarios"] += 1


def run_family(ctx, out, n_quick=90, n_thorough=2500, ops_range=(14, 30)):
    """random histories restricted to the machine's vocabulary (no model-level references, formulas by name), after a
    motif program: the whole history is compared"""
    from . import struct_props as S
    from .impl import close_all
    stats = collections.Counter()
    pool = covered_motifs()
    for ops in scenarios():
        run_history(ops, out, stats)
        if out.disagreements:
            return stats
    for ops in rename_scenarios():
        run_history(ops, out, stats)
        stats["edit_rename_scenarios"] += 1
        if out.disagreements:
            return stats
    for ops in slot_rename_scenarios():
        run_history(ops, out, stats, objrefs=True)
        stats["edit_slot_rename_scenarios"] += 1
        if out.disagreements:
            return stats
    for ops in shadow_scenarios():
        run_history(ops, out, stats, objrefs=True)
        stats["edit_shadow_scenarios"] += 1
        if out.disagreements:
            return stats
    for ops in cells_shadow_scenarios():
        run_history(ops, out, stats, objrefs=True)
        stats["edit_cells_shadow_scenarios"] += 1
        if out.disagreements:
            return stats
    for i in range(ctx.n(n_quick, n_thorough)):
        rng = ctx.rng("edit", i)
        close_all()
        live = W.Live("M")
        ec = EditCorr()
        ops = [list(o) for o in rng.choice(pool)]
        n_ops = len(ops) + rng.randint(*ops_range)
        focus = 2 if rng.random() < 0.5 else None
        hist_of = lambda k: S.hist_json(ops, k)      # noqa
        try:
            for k in range(n_ops):
                if k < len(ops):
                    op = ops[k]
                else:
                    for _ in range(8):
                        op = S.gen_next(rng, live, FCFG, ops, focus=focus)
                        if covered_op(op):
                            break
                    ops.append(op)
                ec.before(live, k, op)
                if op[0] == "evalall":
                    S.eval_everything(live)
                    r = "ok"
                else:
                    r = live.apply(op)
                stats["op:" + op[0]] += 1
                ec.after(live, ops, k, op, r, out, hist_of)
                if not ec.alive:
                    break
        finally:
            live.close()
            close_all()
        ec.stats_into(stats)
        if out.disagreements:
            break
    return stats


def hook(cls):
    """wrap the hooks class of a struct-family check: every history of the family is also sent to the combined
    machine, as far as its vocabulary goes"""
    from . import struct_props as S
    s0, b0, a0, e0 = cls.start, cls.before, cls.after, cls.end

    def start(self, live, stats):
        self._edit = EditCorr()
        return s0(self, live, stats)

    def before(self, live, ops, k, op, stats):
        self._edit.before(live, k, op)
        return b0(self, live, ops, k, op, stats)

    def after(self, live, ops, k, op, result, out, stats):
        was = self._edit.alive
        self._edit.after(live, ops, k, op, result, out, lambda j: S.hist_json(ops, j))
        if was and not self._edit.alive:
            self._edit.stats_into(stats)
        return a0(self, live, ops, k, op, result, out, stats)

    def end(self, live, ops, out, stats):
        if self._edit.alive:
            self._edit.stats_into(stats)
        return e0(self, live, ops, out, stats)

    cls.start, cls.before, cls.after, cls.end = start, before, after, end
    return cls
