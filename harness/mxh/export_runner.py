"""Runs queries on exported (modelx-free) packages.  Executed as a SUBPROCESS by the C15 check:

    python export_runner.py <jobs.json>

This file must not import anything from the harness or from modelx.  Before any exported
package is imported, `sys.modules['modelx'] = None` makes every `import modelx` (also
`from modelx import ...`, `import modelx.core`) raise ImportError, so that a package that
is not self-contained fails here instead of silently using the library.

jobs.json: [{"id": .., "dir": <directory on sys.path>, "pkg": <package name>, "queries": [query ..]}]
query: {"sp": [step ..], "cells": name, "args": [canon ..], "kw": {name: canon}}
step:  {"attr": name} | {"item": [canon ..], "via": "call" | "getitem" | "kw", "names": [..]}

One JSON line per job on stdout: {"id": .., "import": "ok" | "err <kind>", "results": [canon-result ..]}
Values are canonicalised (see `canon`): ints, bools, None, strings, floats (by `repr`, so nan
equals nan and -0.0 differs from 0.0), complex, bytes, tuples/lists/dicts/sets of those; OBJECTS
whose type is not exactly one of these (instances of subclasses of int/float/str/..., enum members,
numpy scalars and arrays, dataclass-like instances, a few standard value types) become
{"obj": <module.qualname of the exact type>, ...what identifies the value...}, so that a package
that returns a plain 0.05 where the model returns a Percent(0.05) is seen to differ;
anything else becomes {"other": <type name>} (never compared at top level).
"""
import importlib
import json
import sys


_BASES = (("int", int, int.__int__), ("float", float, float.__float__), ("str", str, str.__str__),
          ("complex", complex, complex.__complex__ if hasattr(complex, "__complex__") else complex),
          ("bytes", bytes, bytes.__bytes__ if hasattr(bytes, "__bytes__") else bytes),
          ("tuple", tuple, tuple), ("list", list, list), ("dict", dict, dict),
          ("frozenset", frozenset, frozenset), ("set", set, set))
_REPR_TYPES = {"decimal.Decimal", "fractions.Fraction", "datetime.date", "datetime.datetime", "datetime.time",
               "datetime.timedelta", "builtins.range", "builtins.ellipsis", "builtins.NotImplementedType",
               "builtins.slice"}


def _qual(t):
    return "%s.%s" % (getattr(t, "__module__", "?"), getattr(t, "__qualname__", t.__name__))


def canon(v, depth=0):
    if depth > 8:
        return {"other": "deep"}
    if v is None or v is True or v is False:
        return v
    t = type(v)
    if t is int:
        return {"i": str(v)} if abs(v) > 2 ** 52 else v
    if t is str:
        return {"s": v}
    if t is float:
        return {"f": repr(v)}
    if t is complex:
        return {"c": repr(v)}
    if t is bytes:
        return {"b": v.hex()}
    if t is tuple:
        return {"t": [canon(x, depth + 1) for x in v]}
    if t is list:
        return {"l": [canon(x, depth + 1) for x in v]}
    if t is dict:
        return {"d": [[canon(k, depth + 1), canon(x, depth + 1)] for k, x in v.items()]}
    if t is set or t is frozenset:
        return {"set": sorted(json.dumps(canon(x, depth + 1), sort_keys=True) for x in v)}
    try:
        return _canon_obj(v, t, depth)
    except Exception:      # noqa: BLE001 - an object that cannot be described is opaque
        return {"other": t.__name__}


def _canon_obj(v, t, depth):
    """an object whose exact type is not one of the plain ones: the type's qualified name plus what
    identifies the value; {"other": name} when nothing value-like is known about it"""
    q = _qual(t)
    if isinstance(v, type):
        return {"obj": "type", "name": _qual(v)}
    if t.__name__ == "module" and t.__module__ == "builtins":
        return {"obj": "module", "name": v.__name__}
    import enum
    if isinstance(v, enum.Enum):
        return {"obj": q, "enum": str(v.name), "val": canon(v.value, depth + 1)}
    if t.__module__ == "numpy" and hasattr(v, "dtype") and hasattr(v, "tolist"):
        if hasattr(v, "shape") and t.__name__ == "ndarray":
            return {"obj": q, "dtype": v.dtype.name, "shape": [int(n) for n in v.shape],
                    "val": canon(v.tolist(), depth + 1)}
        return {"obj": q, "dtype": v.dtype.name, "val": canon(v.item(), depth + 1)}
    for name, base, conv in _BASES:
        if isinstance(v, base):
            res = {"obj": q, "base": canon(conv(v), depth + 1), "str": str(v)}
            d = getattr(v, "__dict__", None)
            if d:
                res["attrs"] = canon(dict(d), depth + 1)
            return res
    if q in _REPR_TYPES:
        return {"obj": q, "repr": repr(v)}
    import dataclasses
    if dataclasses.is_dataclass(v):
        return {"obj": q, "attrs": canon(dict(vars(v)), depth + 1)}
    return {"other": t.__name__}


def uncanon(c):
    if c is None or c is True or c is False or isinstance(c, int):
        return c
    if "i" in c:
        return int(c["i"])
    if "s" in c:
        return c["s"]
    if "f" in c:
        return float(c["f"])
    if "t" in c:
        return tuple(uncanon(x) for x in c["t"])
    if "l" in c:
        return [uncanon(x) for x in c["l"]]
    if "d" in c:
        return {uncanon(k): uncanon(x) for k, x in c["d"]}
    raise ValueError("cannot rebuild %r" % (c,))


def err_kind(e):
    for cls, k in ((ZeroDivisionError, "ZeroDiv"), (KeyError, "Key"), (IndexError, "Index"),
                   (ValueError, "Value"), (TypeError, "Type"), (NameError, "Name"),
                   (AttributeError, "Attribute"), (ImportError, "Import"), (RecursionError, "Recursion"),
                   (SyntaxError, "Syntax"), (AssertionError, "Assertion")):
        if isinstance(e, cls):
            return k
    return type(e).__name__


def walk(root, steps):
    """the same navigation on a modelx model and on an exported model"""
    obj = root
    for st in steps:
        if "attr" in st:
            obj = getattr(obj, st["attr"])
        else:
            args = [uncanon(a) for a in st["item"]]
            via = st.get("via", "call")
            if via == "getitem":
                obj = obj[args[0] if len(args) == 1 else tuple(args)]
            elif via == "kw":
                obj = obj(**dict(zip(st["names"], args)))
            else:
                obj = obj(*args)
    return obj


def run_query(root, q):
    try:
        sp = walk(root, q["sp"])
        f = getattr(sp, q["cells"])
        args = [uncanon(a) for a in q.get("args", [])]
        kw = {k: uncanon(v) for k, v in q.get("kw", {}).items()}
        return {"ok": canon(f(*args, **kw))}
    except Exception as e:      # noqa: BLE001 - the kind is the observation
        # "cls": the exact class (compared with the class modelx reports where a check asks for it)
        return {"err": err_kind(e), "cls": type(e).__name__}


def main(argv):
    sys.modules["modelx"] = None        # `import modelx` now raises ImportError
    jobs = json.load(open(argv[1]))
    out = sys.stdout
    for job in jobs:
        rec = {"id": job["id"], "import": "ok", "results": []}
        sys.path.insert(0, job["dir"])
        try:
            try:
                mod = importlib.import_module(job["pkg"])
                root = mod.mx_model
            except BaseException as e:      # noqa: BLE001
                rec["import"] = "err " + err_kind(e)
                rec["error"] = ("%s: %s" % (type(e).__name__, e))[:300]
                root = None
            if root is not None:
                for q in job["queries"]:
                    rec["results"].append(run_query(root, q))
                rec["modelx_loaded"] = any(
                    k == "modelx" or k.startswith("modelx.") for k, v in sys.modules.items() if v is not None)
        finally:
            sys.path.remove(job["dir"])
        out.write(json.dumps(rec, sort_keys=True) + "\n")
        out.flush()
    return 0


if __name__ == "__main__":
    sys.exit(main(sys.argv))
