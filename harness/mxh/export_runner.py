"""Runs queries on exported (modelx-free) packages.  Executed as a SUBPROCESS by the C15 check:

    python export_runner.py <jobs.json>

This file must not import anything from the harness or from modelx.  Before any exported
package is imported, `sys.modules['modelx'] = None` makes every `import modelx` (also
`from modelx import ...`, `import modelx.core`) raise ImportError, so that a package that
is not self-contained fails here instead of silently using the library.

jobs.json: [{"id": .., "dir": <directory on sys.path>, "pkg": <package name>, "queries": [query ..]}]
query: {"sp": [step ..], "cells": name, "args": [canon ..], "kw": {name: canon}}
step:  {"attr": name} | {"item": [canon ..], "via": "call" | "getitem" | "kw", "names": [..]}

One JSON line per job on stdout: {"id": .., "import": "ok" | "err <kind>", "results": [canon-result ..]}
Values are canonicalised (see `canon`): ints, bools, None, strings, tuples/lists/dicts of those;
anything else becomes {"other": <type name>}; floats are never produced by the generator and
are reported as {"other": "float"}.
"""
import importlib
import json
import sys


def canon(v, depth=0):
    if depth > 8:
        return {"other": "deep"}
    if v is None or v is True or v is False:
        return v
    t = type(v)
    if t is int:
        return {"i": str(v)} if abs(v) > 2 ** 52 else v
    if t is str:
        return {"s": v}
    if t is tuple:
        return {"t": [canon(x, depth + 1) for x in v]}
    if t is list:
        return {"l": [canon(x, depth + 1) for x in v]}
    if t is dict:
        return {"d": [[canon(k, depth + 1), canon(x, depth + 1)] for k, x in v.items()]}
    if t is set or t is frozenset:
        return {"set": sorted(json.dumps(canon(x, depth + 1), sort_keys=True) for x in v)}
    return {"other": t.__name__}


def uncanon(c):
    if c is None or c is True or c is False or isinstance(c, int):
        return c
    if "i" in c:
        return int(c["i"])
    if "s" in c:
        return c["s"]
    if "t" in c:
        return tuple(uncanon(x) for x in c["t"])
    if "l" in c:
        return [uncanon(x) for x in c["l"]]
    if "d" in c:
        return {uncanon(k): uncanon(x) for k, x in c["d"]}
    raise ValueError("cannot rebuild %r" % (c,))


def err_kind(e):
    for cls, k in ((ZeroDivisionError, "ZeroDiv"), (KeyError, "Key"), (IndexError, "Index"),
                   (ValueError, "Value"), (TypeError, "Type"), (NameError, "Name"),
                   (AttributeError, "Attribute"), (ImportError, "Import"), (RecursionError, "Recursion"),
                   (SyntaxError, "Syntax"), (AssertionError, "Assertion")):
        if isinstance(e, cls):
            return k
    return type(e).__name__


def walk(root, steps):
    """the same navigation on a modelx model and on an exported model"""
    obj = root
    for st in steps:
        if "attr" in st:
            obj = getattr(obj, st["attr"])
        else:
            args = [uncanon(a) for a in st["item"]]
            via = st.get("via", "call")
            if via == "getitem":
                obj = obj[args[0] if len(args) == 1 else tuple(args)]
            elif via == "kw":
                obj = obj(**dict(zip(st["names"], args)))
            else:
                obj = obj(*args)
    return obj


def run_query(root, q):
    try:
        sp = walk(root, q["sp"])
        f = getattr(sp, q["cells"])
        args = [uncanon(a) for a in q.get("args", [])]
        kw = {k: uncanon(v) for k, v in q.get("kw", {}).items()}
        return {"ok": canon(f(*args, **kw))}
    except Exception as e:      # noqa: BLE001 - the kind is the observation
        return {"err": err_kind(e)}


def main(argv):
    sys.modules["modelx"] = None        # `import modelx` now raises ImportError
    jobs = json.load(open(argv[1]))
    out = sys.stdout
    for job in jobs:
        rec = {"id": job["id"], "import": "ok", "results": []}
        sys.path.insert(0, job["dir"])
        try:
            try:
                mod = importlib.import_module(job["pkg"])
                root = mod.mx_model
            except BaseException as e:      # noqa: BLE001
                rec["import"] = "err " + err_kind(e)
                root = None
            if root is not None:
                for q in job["queries"]:
                    rec["results"].append(run_query(root, q))
                rec["modelx_loaded"] = any(
                    k == "modelx" or k.startswith("modelx.") for k, v in sys.modules.items() if v is not None)
        finally:
            sys.path.remove(job["dir"])
        out.write(json.dumps(rec, sort_keys=True) + "\n")
        out.flush()
    return 0


if __name__ == "__main__":
    sys.exit(main(sys.argv))
