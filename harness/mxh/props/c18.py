"""C18 – an IOSpec lives exactly as long as a reference to its value.

Correspondence: random histories of new_pandas / attribute assignment / attribute deletion
(references and whole spaces) / update_pandas (in place, with a new object, onto an object
that is already referenced) / sheet setter / path setter / del_spec / close over up to 2 models,
2-3 spaces each, a growing pool of DataFrames (reused, so that values are shared between names,
spaces and models), one other object, one Interface, and the files a.csv, d.csv, b.xlsx, c.xlsx
(sheet None / s1 / s2 / s3) under several SPELLINGS of their relative paths (`./a.csv`,
`sub/../a.csv`, `sub/./a.csv` ...), run on the real modelx and on the Lean model `MxModel.IOSpec`
(theorems in Props/C18.lean).

The registry of file objects (IOManager.ios: which key a file is filed under, relative and ABSOLUTE paths, the
path setter in all four directions) is compared on every stream with `MxModel.IOKeys` (commands kclaim / kmove /
kdrop / kobs of the same driver layer).

Nothing is answered in the library's place: operations through the handles of CLOSED models and of
DELETED spaces are performed for real and what modelx does is the observation (a closed model goes
on working - it only left the registry -, a deleted space raises DeletedObjectError).  The harness
answers `err dead` itself only for an op that names a model or space index that was never created
(there is no object to call) or re-uses an index (the op language has one index per object).  After every op are compared: model.iospecs as (value, path, sheet), every
defined reference with the identity of its value, ReferenceManager._valid_to_refs (value ->
references, stale ones marked), IOManager.ios (key -> specs with sheet and file type), and
ok/err of the op.

Oracle (implementation only), after every op and for every open model:
  O1 model.iospecs is, by identity, the set of specs registered in the IOManager for the model;
  O2 every registered spec's value is (`is`) the value of some reference of the model;
  O3 _valid_to_refs lists exactly the live defined references holding non-Interface values;
  O4 no spec disappears (other than by del_spec / close) while its value is still bound;
  O5 within one file: csv holds one spec; Excel specs all name different sheets - a FILE is a
     location on disk (the path normalised below the folder the model is written to), so two ios
     whose keys are different spellings of one location count as one file;
  O6 a new_pandas that raised left specs and references exactly as they were;
  O7 the IOManager has no io of a closed model - after the close and at every later point;
  O8 mxsys._check_sanity() does not raise;
  O9 (a sample in the quick tier, every clean history in the thorough tier) write + read_model:
     every spec'd value is read back equal under every name it was bound to.
Four defects are known findings (new_pandas onto a scalar cells name, new_pandas twice for one value,
del model.S of a space holding tracked references, update_pandas onto an object that is already
referenced) and so is the design of ios under absolute paths (oracle-only stream: they have no model, and
an absolute path can denote the file of a relative one); seven others found by this check were repaired in /repo and their witnesses are
regression inputs (corpus/C18/fixed-*.json, no key, must pass).
A failure is attributed to a known finding only if (a) the oracle recognised the trigger from the
implementation's own state before the op and (b) the Lean model flags the same op with the same
trigger predicate; after the first recognised trigger of a history the oracle is silent (the
state is outside the property) while the correspondence with the bug-faithful model goes on.
A history is cut after `del model.S` of a space that still held tracked references (the Lean
model does not claim to follow the implementation beyond that point).
"""
import json
import os
import shutil
import tempfile

import pandas as pd

from .. import core
from ..impl import mx, close_all, quiet, err_kind
from modelx.core.base import Interface

PATHS = [("a.csv", "csv"), ("b.xlsx", "xl"), ("c.xlsx", "xl"), ("d.csv", "csv")]
ABS = "@/"          # op-language prefix: an absolute path below the folder the model will be written to
SHEETS = ["-", "s1", "s2", "s3"]
REFNAMES = ["x", "y", "z"]
KEYS = {
    "cells-name": "C18-cells-name",
    "double-spec": "C18-double-spec",
    "del-space": "C18-del-space",
    "update-onto-referenced": "C18-update-onto-referenced",
    # the three symptom classes of the recorded design of ios under ABSOLUTE paths (no Lean model for them):
    "abs-rel-alias": "C18-absolute-io-shared",   # an absolute and a relative key denote one file
    "abs-to-rel": "C18-absolute-io-shared",      # the path setter absolute -> relative keeps group None
    "abs-readback": "C18-absolute-io-shared",    # read_model while the writer of an absolute spec is open
}
# a failure of these oracle items is attributed to the trigger also when the trigger was met EARLIER in the
# history (the aliasing op itself need not break anything: two sheets of one workbook through two ios), provided
# the implementation's state at the moment of the failure still shows the condition (World.state_flags)
STICKY = {"abs-rel-alias": ("O5", "O9"), "abs-to-rel": ("O1", "O5", "O9")}


def spell(rng, path, absolute=False):
    """another spelling of a relative path (the same file, or a file in a sub folder)"""
    q = rng.random()
    if absolute and q < 0.25:
        return ABS + path
    if q < 0.72:
        return path
    return rng.choice(["./%s", "./%s", "sub/../%s", "sub/%s", "sub/%s", "sub/./%s", "x/../sub/%s", "sub//%s"]) % path


# ----------------------------------------------------------------------------- generation

def gen_history(rng, length, two_models_p=0.6, inherit=False, absolute=False):
    """structured, mostly valid: a light shadow (which names are believed bound to what, which values
    believed to have a spec) steers the choice of arguments; it is only a heuristic"""
    ops = [["newmodel", "0"]]
    spaces = {0: []}
    nvals = [0]
    bound = {}        # (m, s, name) -> value token
    specd = {}        # (m, value token) -> (path, ft)

    def add_spaces(m):
        for s in range(1, rng.choice([2, 3, 3]) + 1):
            op = ["newspace", str(m), str(s), "S%d" % s]
            if inherit and s > 1:
                # S2 derives from S1; S3 from S2 and S1 (a diamond through S1), or from S1 alone
                op.append("1" if s == 2 else rng.choice(["2,1", "1", "2"]))
            ops.append(op)
            spaces[m].append(s)
        ops.append(["newcells", str(m), "1", "c", "1"])
        ops.append(["newcells", str(m), "2", "f", "0"])
        if rng.random() < 0.3:
            ops.append(["newcells", str(m), "2", "c", "1"])

    add_spaces(0)
    open_models = [0]
    closed_models = []
    want_second = rng.random() < two_models_p and not inherit and not absolute

    def fresh():
        nvals[0] += 1
        return "d%d" % (nvals[0] - 1)

    def any_df():
        if nvals[0] == 0:
            return fresh()
        k = min(nvals[0], 4)
        return "d%d" % (nvals[0] - 1 - rng.randrange(k)) if rng.random() < 0.8 else "d%d" % rng.randrange(nvals[0])

    def bound_vals(m, with_spec=None):
        vs = sorted({v for (mm, _, _), v in bound.items() if mm == m and v[0] == "d"})
        if with_spec is True:
            vs = [v for v in vs if (m, v) in specd]
        if with_spec is False:
            vs = [v for v in vs if (m, v) not in specd]
        return vs

    def owner(m):
        s = rng.choice([0] + spaces[m] + spaces[m])
        return str(m), str(s)

    for _ in range(length):
        if not open_models and rng.random() < 0.25:
            break
        # the handles of a closed model keep working: go on using them
        if closed_models and (not open_models or rng.random() < 0.3):
            m = rng.choice(closed_models)
        else:
            m = rng.choice(open_models)
        r = rng.random()
        if m in closed_models and r < 0.24 and rng.random() < 0.65:
            r = 0.24 + r        # on a closed model: mostly assignments instead of new_pandas (a known finding)
        if inherit and rng.random() < 0.05 and len(spaces[m]) > 1:
            a, b = rng.sample(spaces[m], 2)
            ops.append([rng.choice(["addbase", "rmbase"]), str(m), str(max(a, b)), str(min(a, b))])
            continue
        if want_second and len(spaces) == 1 and r < 0.08:
            ops.append(["newmodel", "1"])
            spaces[1] = []
            add_spaces(1)
            open_models.append(1)
            continue
        if not inherit and len(spaces[m]) < 6 and rng.random() < 0.06:
            # a space CREATED with references: new_space(refs=...) - several names, often ONE object, often an
            # object that has a spec - or the copy of a space (its references and cells)
            snew = max(spaces[m]) + 1
            if rng.random() < 0.5:
                names = rng.sample(REFNAMES, rng.choice([1, 2, 2, 3]))
                bv = bound_vals(m, with_spec=True) or bound_vals(m)
                twin = rng.choice(bv) if bv and rng.random() < 0.75 else any_df()
                binds = []
                for n_ in names:
                    q = rng.random()
                    v = twin if q < 0.7 else (any_df() if q < 0.85 else rng.choice(["p0", "i0"]))
                    binds.append((n_, v))
                ops.append(["newspacerefs", str(m), str(snew), "S%d" % snew,
                            ",".join("%s=%s" % b for b in binds)])
                for n_, v in binds:
                    bound[(m, snew, n_)] = v
            else:
                src = rng.choice(spaces[m])
                ops.append(["copyspace", str(m), str(src), str(snew), "S%d" % snew])
                for (mm, s_, n_), v in list(bound.items()):
                    if mm == m and s_ == src:
                        bound[(m, snew, n_)] = v
            spaces[m].append(snew)
            continue
        if r < 0.24:
            ms, ss = owner(m)
            q = rng.random()
            if q < 0.90:
                name = rng.choice(REFNAMES)
            elif ss == "0":
                name = rng.choice(["S1", "S2"])
            else:
                name = rng.choice(["c", "c", "f", "_b", "for"])
            path, ft = rng.choice(PATHS)
            path = spell(rng, path, absolute)
            sheet = "-" if ft == "csv" else rng.choice(SHEETS[:3] + ["s1", "s2"])
            q = rng.random()
            plainly = bound_vals(m, with_spec=False)
            if q < 0.5 or (q < 0.85 and not plainly):
                data = fresh()
            elif q < 0.85:
                data = rng.choice(plainly)
            elif q < 0.94:
                data = any_df()
            else:
                data = rng.choice(["p0", "i0"])
            ops.append(["newpandas", ms, ss, name, path, ft, sheet, data])
            if name in REFNAMES and data[0] == "d":
                bound[(m, int(ss), name)] = data
                specd[(m, data)] = (path, ft)
        elif r < 0.48:
            ms, ss = owner(m)
            q = rng.random()
            if q < 0.93:
                name = rng.choice(REFNAMES)
            elif ss == "0":
                name = rng.choice(["S1", "S2"])
            else:
                name = rng.choice(["c", "f", "_b"])
            q = rng.random()
            bv = bound_vals(m)
            if q < 0.45 and bv:
                v = rng.choice(bv)           # share a value
            elif q < 0.58:
                v = any_df()
            elif q < 0.80:
                v = fresh()
            elif q < 0.90:
                v = "p0"
            else:
                v = "i0"
            ops.append(["bind", ms, ss, name, v])
            if name in REFNAMES:
                bound[(m, int(ss), name)] = v
        elif r < 0.68:
            ms, ss = owner(m)
            mine = sorted(k for k in bound if k[0] == m)
            if ss == "0" and rng.random() < 0.07 and spaces[m]:
                name = "S%d" % rng.choice(spaces[m])
            elif mine and rng.random() < 0.8:
                _, s_, name = rng.choice(mine)
                ss = str(s_)
                bound.pop((m, s_, name), None)
            else:
                name = rng.choice(REFNAMES)
                bound.pop((m, int(ss), name), None)
            ops.append(["del", ms, ss, name])
        elif r < 0.84:
            bv = bound_vals(m)
            if bv and rng.random() < 0.85:
                old = rng.choice(bv)
            else:
                old = any_df() if rng.random() < 0.8 else "p0"
            q = rng.random()
            if q < 0.5:
                new = old
            elif q < 0.84:
                new = fresh()
            elif q < 0.96:
                new = any_df()
            else:
                new = "p0"
            ops.append(["update", str(m), old, new])
            if new != old:
                for k_, v_ in list(bound.items()):
                    if k_[0] == m and v_ == old:
                        bound[k_] = new
                if (m, old) in specd:
                    specd[(m, new)] = specd.pop((m, old))
        elif r < 0.89:
            sv = [v for v in bound_vals(m, with_spec=True) if specd[(m, v)][1] == "xl"]
            v = rng.choice(sv) if sv and rng.random() < 0.85 else any_df()
            ops.append(["sheet", str(m), v, rng.choice(SHEETS)])
        elif r < 0.925:
            sv = bound_vals(m, with_spec=True)
            v = rng.choice(sv) if sv and rng.random() < 0.9 else any_df()
            ft = specd[(m, v)][1] if (m, v) in specd else rng.choice(["csv", "xl"])
            path = spell(rng, rng.choice([p for p, t in PATHS if t == ft]), absolute)
            ops.append(["setpath", str(m), v, path])
            if (m, v) in specd:
                specd[(m, v)] = (path, ft)
        elif r < 0.95:
            sv = bound_vals(m, with_spec=True)
            v = rng.choice(sv) if sv and rng.random() < 0.85 else any_df()
            ops.append(["delspec", str(m), v])
            specd.pop((m, v), None)
        elif r < 0.975:
            ops.append(["close", str(m)])
            if m in open_models:
                open_models.remove(m)
                closed_models.append(m)
        else:
            # malformed: operations on things that do not exist
            ops.append(rng.choice([
                ["del", str(m), "0", "nosuch"], ["update", str(m), "d99", "d99"],
                ["delspec", str(m), "p0"], ["sheet", str(m), "p0", "s1"],
                ["bind", str(m), "7", "x", "d0"], ["close", "5"]]))
    return ops


# ----------------------------------------------------------------------------- implementation

class World:
    """the real modelx driven by the op language; all bookkeeping by object identity"""

    def __init__(self, tmp):
        self.tmp = tmp
        self.models = {}       # index -> Model interface (also after close)
        self.open = set()
        self.spaces = {}       # (m, s) -> UserSpace interface (live)
        self.handles = {}      # (m, s) -> UserSpace interface, also after the space was deleted
        self.used = set()      # owners ever used
        self.vals = {}         # token -> object
        self.ifaces = {}       # m -> Interface used as the value i0
        self.cut = False
        self.deadspaces = {}

    # -- values
    def val(self, tok, m=None):
        if tok[0] == "i":
            return self.ifaces[m]
        if tok not in self.vals:
            if tok[0] == "d":
                i = int(tok[1:])
                df = pd.DataFrame({"a": [i, i + 1, i + 2], "b": [10 * i, 5, 7]})
                df.index.name = "k"
                self.vals[tok] = df
            else:
                self.vals[tok] = ["plain", int(tok[1:])]
        return self.vals[tok]

    def tok_of(self, obj, m):
        for t, o in self.vals.items():
            if o is obj:
                return t
        if m in self.ifaces and obj is self.ifaces[m]:
            return "i0"
        if isinstance(obj, Interface):
            return "i?"
        return "?"

    def model_index(self, model):
        for i, mm in self.models.items():
            if mm is model:
                return i
        return "?"

    def parent(self, m, s):
        return self.models[m] if s == 0 else self.handles[(m, s)]

    def live(self, m, s):
        """a usable handle exists as far as the harness knows (model created - open or closed -, space
        not deleted); used by the trigger recognisers only, never to answer an op"""
        return m in self.models and (s == 0 or (m, s) in self.spaces)

    def root(self, m):
        """the folder model m is written to by the round trip"""
        return os.path.join(self.tmp, "saved_m%d" % m)

    def path_arg(self, m, path):
        """`@/x`: the absolute path of x below the folder model m is written to; `@<k>/x`: below model k's"""
        if path.startswith("@"):
            head, _, rest = path[1:].partition("/")
            return os.path.join(self.root(int(head) if head else m), rest)
        return path

    def location(self, m, path):
        """the file on disk a (relative or absolute) io path of model m denotes"""
        p = str(path)
        return os.path.normpath(p if os.path.isabs(p) else os.path.join(self.root(m), p))

    def state_flags(self):
        """conditions of the implementation's state that the sticky triggers are about"""
        flags = set()
        for m in self.models:
            locs = {}
            for path, _ in self.ios_of(m):
                locs.setdefault(self.location(m, path), set()).add(path)
            if any(any(p.is_absolute() for p in v) and any(not p.is_absolute() for p in v) for v in locs.values()):
                flags.add("abs-rel-alias")
        for (grp, path) in mx.core.mxsys.iomanager.ios:
            if grp is None and not path.is_absolute():
                flags.add("abs-to-rel")
            if grp is None and path.is_absolute():
                flags.add("abs-readback")
        return flags

    def ios_of(self, m):
        """[(key path, io)] of model m; ios under absolute paths have no group - they are counted for
        the model in the single-model stream that produces them"""
        model = self.models[m]
        mine = {id(r.interface) for _, _, r in self.refs_of(m)}
        return [(path, io) for (grp, path), io in mx.core.mxsys.iomanager.ios.items()
                if grp is model or (grp is None and (len(self.models) == 1
                                                     or any(id(sp.value) in mine for sp in io.specs.values())))]

    # -- state read from the implementation
    def refs_of(self, m, defined_only=False):
        """[(space index, name, ReferenceImpl)] of every reference of model m held by the model or by a
        space (own_refs: defined ones and, with inheritance, derived ones)"""
        model = self.models[m]
        res = [(0, n, r) for n, r in model._impl.global_refs.items() if n != "__builtins__"]
        for (mm, s), sp in self.spaces.items():
            if mm == m:
                res.extend((s, n, r) for n, r in sp._impl.own_refs.items()
                           if not (defined_only and r.is_derived()))
        return res

    def registered(self, m):
        return [spec for _, io in self.ios_of(m) for spec in io.specs.values()]

    def owner_index(self, impl, m):
        if impl is self.models[m]._impl:
            return 0
        for (mm, s), sp in self.spaces.items():
            if mm == m and sp._impl is impl:
                return s
        for (mm, s), sp in self.deadspaces.items():
            if mm == m and sp is impl:
                return s
        return "?"

    def observe(self):
        specs, refs, v2r = [], [], []
        for m in sorted(self.models):       # closed models too: they go on living through their handles
            model = self.models[m]
            try:
                l = ["%s:%s:%s" % (self.tok_of(s.value, m), s.path.as_posix(), s.sheet or "-") for s in model.iospecs]
                specs.append("%d=[%s]" % (m, ",".join(l)))
            except Exception:
                specs.append("%d=ERR" % m)
            refs.append("%d=[%s]" % (m, ",".join(
                "%s.%s=%s" % (s, n, self.tok_of(r.interface, m)) for s, n, r in self.refs_of(m))))
            live = {id(r) for _, _, r in self.refs_of(m)}
            ents = []
            for vid, rl in model._impl.refmgr._valid_to_refs.items():
                vt = "?"
                for t, o in list(self.vals.items()) + [("i0", self.ifaces.get(m))]:
                    if id(o) == vid:
                        vt = t
                ents.append("%s:(%s)" % (vt, "+".join(
                    "%s.%s%s" % (self.owner_index(r.parent, m), r.name, "" if id(r) in live else "!stale")
                    for r in rl)))
            v2r.append("%d=[%s]" % (m, ",".join(ents)))
        ios = []
        for (grp, path), io in mx.core.mxsys.iomanager.ios.items():
            gi = self.model_index(grp)
            ios.append("%s:%s(%s)" % (gi, path.as_posix(), "+".join(
                "%s:%s:%s" % (self.tok_of(s.value, gi), s.sheet or "-", "csv" if io.file_type == "csv" else "xl")
                for s in io.specs.values())))
        return ("specs " + " ".join(specs) + " ; refs " + " ".join(refs) + " ; v2r " + " ".join(v2r)
                + " ; ios " + " ".join(ios))

    # -- operations
    def apply(self, op):
        kind = op[0]
        try:
            with quiet():
                return self._apply(kind, op)
        except Exception as e:
            return "err " + err_kind(e)

    def _apply(self, kind, op):
        if kind == "newmodel":
            m = int(op[1])
            if m in self.models:
                return "err dead"
            model = mx.new_model("M%d" % m)
            self.models[m] = model
            self.open.add(m)
            self.ifaces[m] = model.new_space("Zz")
            return "ok"
        # From here on an op is answered by the harness itself ("err dead") only if it names an index
        # that was never created - there is no object to call.  Closed models and deleted spaces are
        # used through their handles, for real.
        if kind == "close":
            m = int(op[1])
            if m not in self.models:
                return "err dead"
            self.models[m].close()
            self.open.discard(m)
            return "ok"
        m = int(op[1])
        if m not in self.models:
            return "err dead"
        if kind in ("update", "sheet", "delspec", "setpath"):
            model = self.models[m]
            if kind == "update":
                if op[3][0] == "i":
                    return "err outOfDomain"
                old, new = self.val(op[2], m), self.val(op[3], m)
                if op[2] == op[3]:
                    model.update_pandas(old)
                else:
                    model.update_pandas(old, new)
            elif kind == "sheet":
                model.get_spec(self.val(op[2], m)).sheet = None if op[3] == "-" else op[3]
            elif kind == "setpath":
                model.get_spec(self.val(op[2], m)).path = self.path_arg(m, op[3])
            else:
                model.del_spec(self.val(op[2], m))
            return "ok"
        if kind in ("newspacerefs", "copyspace"):
            s = int(op[3] if kind == "copyspace" else op[2])
            if s == 0 or (m, s) in self.used:
                return "err dead"           # the op language: one index per space
            if kind == "newspacerefs":
                refs = {}
                if op[4] != "-":
                    for b in op[4].split(","):
                        n_, _, v_ = b.partition("=")
                        refs[n_] = self.val(v_, m)
                sp = self.models[m].new_space(op[3], refs=refs)
            else:
                src = int(op[2])
                if src == 0 or (m, src) not in self.handles:
                    return "err dead"
                sp = self.handles[(m, src)].copy(self.models[m], op[4])
            self.spaces[(m, s)] = sp
            self.handles[(m, s)] = sp
            self.used.add((m, s))
            return "ok"
        s = int(op[2])
        if kind == "newspace":
            if s == 0 or (m, s) in self.used:
                return "err dead"           # the op language: one index per space, 0 is the model
            if len(op) > 4:
                sp = self.models[m].new_space(op[3], bases=[self.handles[(m, int(b))] for b in op[4].split(",")])
            else:
                sp = self.models[m].new_space(op[3])
            self.spaces[(m, s)] = sp
            self.handles[(m, s)] = sp
            self.used.add((m, s))
            return "ok"
        if s != 0 and (m, s) not in self.handles:
            return "err dead"
        par = self.parent(m, s)
        if kind in ("addbase", "rmbase"):
            b = int(op[3])
            if (m, b) not in self.handles:
                return "err dead"
            if kind == "addbase":
                par.add_bases(self.handles[(m, b)])
            else:
                par.remove_bases(self.handles[(m, b)])
            return "ok"
        if kind == "newcells":
            par.new_cells(op[3], formula="lambda: 1" if op[4] == "1" else "lambda t: t")
            return "ok"
        if kind == "newpandas":
            par.new_pandas(op[3], self.path_arg(m, op[4]), self.val(op[7], m),
                           file_type="csv" if op[5] == "csv" else "excel",
                           sheet=None if op[6] == "-" else op[6])
            return "ok"
        if kind == "bind":
            setattr(par, op[3], self.val(op[4], m))
            return "ok"
        if kind == "del":
            target = None
            if s == 0:
                for (mm, ss), sp in self.spaces.items():
                    if mm == m and sp.name == op[3]:
                        target = (mm, ss)
            if target is not None and par is self.models[m]:
                sp = self.spaces[target]
                impl = sp._impl
                dirty = any(not isinstance(r.interface, Interface) for r in impl.own_refs.values())
                delattr(par, op[3])
                del self.spaces[target]
                self.deadspaces[target] = impl
                if dirty:
                    self.cut = True
            else:
                delattr(par, op[3])
            return "ok"
        return "bad-op"


# ----------------------------------------------------------------------------- canonical form

def canon(line):
    """sort everything that came out of a dict / list whose order the property does not speak about"""
    out = []
    for sec in line.split(" ; "):
        head, _, body = sec.partition(" ")
        items = []
        for it in body.split():
            if "=[" in it:
                k, _, rest = it.partition("=[")
                inner = rest[:-1].split(",") if rest[:-1] else []
                inner2 = []
                for e in inner:
                    if ":(" in e:
                        a, _, b = e.partition(":(")
                        e = a + ":(" + "+".join(sorted(b[:-1].split("+"))) + ")"
                    inner2.append(e)
                it = k + "=[" + ",".join(sorted(inner2)) + "]"
            elif "(" in it:
                a, _, b = it.partition("(")
                it = a + "(" + "+".join(sorted(b[:-1].split("+"))) + ")"
            items.append(it)
        out.append(head + " " + " ".join(sorted(items)))
    return " ; ".join(out)


def first_word(res):
    return res.split()[0] if res else res


# ----------------------------------------------------------------------------- oracle

class Snapshot:
    def __init__(self, w):
        self.reg = {m: list(w.registered(m)) for m in w.open}
        self.refs = {m: [(s, n, id(r.interface)) for s, n, r in w.refs_of(m)] for m in w.open}
        self.allrefs = {m: list(w.refs_of(m)) for m in w.open}
        self.open = set(w.open)
        self.closed = set(w.models) - set(w.open)


def recognise(w, op, before_state):
    """the trigger, recognised from the implementation's state BEFORE the op (computed by pre_trigger)"""
    return before_state


def pre_trigger(w, op):
    """which known trigger (if any) the op is about to hit, from the implementation alone"""
    kind = op[0]
    trig = []
    try:
        m = int(op[1])
        if m not in w.models:
            return trig
        model = w.models[m]
        iom = mx.core.mxsys.iomanager
        if kind in ("newpandas", "bind", "del"):
            s = int(op[2])
            if not w.live(m, s):
                return trig
            par = w.parent(m, s)
            name = op[3]
        if kind == "newpandas":
            data = w.val(op[7], m)
            if s != 0 and name in par.cells and par.cells[name]._impl.is_scalar():
                trig.append("cells-name")
            if iom.get_spec_from_value(model, data) is not None:
                trig.append("double-spec")
        if kind in ("newpandas", "setpath"):
            # another key of the model denotes the requested file in another spelling
            import pathlib
            arg = w.path_arg(m, op[4] if kind == "newpandas" else op[3])
            key, loc = pathlib.Path(arg), w.location(m, arg)
            if any(w.location(m, path) == loc and path.is_absolute() != key.is_absolute()
                   for path, _ in w.ios_of(m)):
                trig.append("abs-rel-alias")
            # the path setter from an absolute to a relative path: the io keeps the group None
            if kind == "setpath" and not key.is_absolute() and any(
                    grp is None and any(sp.value is w.val(op[2], m) for sp in io.specs.values())
                    for (grp, _), io in iom.ios.items()):
                trig.append("abs-to-rel")
        if kind == "del":
            if s == 0:
                for (mm, ss), sp in w.spaces.items():
                    if mm == m and sp.name == name:
                        if any(not isinstance(r.interface, Interface) for r in sp._impl.own_refs.values()):
                            trig.append("del-space")
        elif kind == "update":
            if op[2] != op[3] and op[3][0] != "i":
                new = w.val(op[3], m)
                if id(new) in model._impl.refmgr._valid_to_refs:
                    trig.append("update-onto-referenced")
    except Exception:
        pass
    return trig


def oracle_step(w, op, res, snap, out_fail):
    """evaluate O1..O8 on the implementation; out_fail(what, oracle_item)"""
    iom = mx.core.mxsys.iomanager
    kind = op[0]
    for m in sorted(w.open):
        model = w.models[m]
        reg = w.registered(m)
        refs = w.refs_of(m)
        # O1
        try:
            listed = list(model.iospecs)
        except Exception as e:
            out_fail("model.iospecs raises %s" % type(e).__name__, "O1")
            listed = None
        if listed is not None:
            if len(set(map(id, listed))) != len(listed):
                out_fail("model.iospecs lists a spec twice", "O1")
            if set(map(id, listed)) != set(map(id, reg)):
                out_fail("model.iospecs differs from the specs registered for the model "
                         "(%d listed, %d registered)" % (len(listed), len(reg)), "O1")
        # O2
        for spec in reg:
            if not any(r.interface is spec.value for _, _, r in refs):
                out_fail("a registered spec's value is not bound to any reference of the model", "O2")
        # O3 (the ReferenceManager tracks defined references; derived ones follow their base)
        want = {}
        for s_, n_, r in w.refs_of(m, defined_only=True):
            if not isinstance(r.interface, Interface):
                want.setdefault(id(r.interface), set()).add(id(r))
        have = {}
        dup = False
        for vid, rl in model._impl.refmgr._valid_to_refs.items():
            ids = [id(r) for r in rl]
            dup = dup or len(set(ids)) != len(ids)
            have[vid] = set(ids)
        if dup or want != have:
            out_fail("_valid_to_refs does not list exactly the references bound to each value", "O3")
        # O5: a file is a location on disk; all the ios whose keys denote it share it
        files = {}
        for path, io in w.ios_of(m):
            files.setdefault(w.location(m, path), []).append((path, io))
        for loc, group in sorted(files.items()):
            claims = [(path, io, s) for path, io in group for s in io.specs.values()]
            if len(claims) > 1:
                sheets = [s.sheet for _, _, s in claims]
                if (any(io.file_type == "csv" for _, io, _ in claims) or None in sheets
                        or len(set(sheets)) != len(sheets)):
                    out_fail("two specs claim the same file location (%s: sheets %s)" % (
                        " = ".join(sorted({path.as_posix() if not path.is_absolute() else "<abs>/" + path.name
                                           for path, _, _ in claims})),
                        sorted(str(x) for x in sheets)), "O5")
        # O4
        if m in snap.reg and kind not in ("close", "delspec"):
            now = set(map(id, reg))
            for spec in snap.reg[m]:
                if id(spec) not in now and any(r.interface is spec.value for _, _, r in refs):
                    out_fail("a spec was removed by '%s' although its value is still bound" % kind, "O4")
        # O6
        if kind == "newpandas" and res.startswith("err") and res != "err dead" and int(op[1]) == m:
            if list(map(id, snap.reg.get(m, []))) != list(map(id, reg)):
                out_fail("a rejected new_pandas changed the registered specs", "O6")
            if snap.refs.get(m) != [(s, n, id(r.interface)) for s, n, r in refs]:
                out_fail("a rejected new_pandas changed the references", "O6")
    # O5, files under absolute paths are session-wide: whatever group their file objects are filed under
    absfiles = {}
    for (grp, path), io in iom.ios.items():
        if path.is_absolute():
            absfiles.setdefault(os.path.normpath(str(path)), []).extend(
                (io, s) for s in io.specs.values())
    for loc, claims in sorted(absfiles.items()):
        if len(claims) > 1:
            sheets = [s.sheet for _, s in claims]
            if (any(io.file_type == "csv" for io, _ in claims) or None in sheets
                    or len(set(sheets)) != len(sheets) or len({id(io) for io, _ in claims}) > 1):
                out_fail("two specs claim the same file location (<abs>/%s: sheets %s, %d file objects)" % (
                    os.path.basename(loc), sorted(str(x) for x in sheets), len({id(io) for io, _ in claims})), "O5")
    # O7
    for m in sorted(set(w.models) - w.open):
        if any(grp is w.models[m] for (grp, _) in iom.ios):
            out_fail("the IOManager holds an io of a closed model" if m in snap.closed else
                     "after close the IOManager still holds an io of the model", "O7")
    # O8
    try:
        mx.core.mxsys._check_sanity()
    except Exception as e:
        out_fail("mxsys._check_sanity() raises %s" % type(e).__name__, "O8")


def roundtrip(w, out_fail):
    """O9: write every open model, read it back, compare every spec'd value under every name"""
    checked = 0
    for m in sorted(w.open):
        model = w.models[m]
        specs = list(model.iospecs)
        bound = []
        for spec in specs:
            for s, n, r in w.refs_of(m):
                if r.interface is spec.value:
                    bound.append((s, n, spec.value))
        path = os.path.join(w.tmp, "saved_m%d" % m)
        sysm = mx.core.mxsys
        try:
            with quiet():
                model.write(path)
                m2 = mx.read_model(path, name="Readback%d" % m)
        except Exception as e:
            out_fail("write/read_model of a model with live specs raises %s" % type(e).__name__, "O9")
            continue
        try:
            if len(m2.iospecs) != len(specs):
                out_fail("read back %d specs, wrote %d" % (len(m2.iospecs), len(specs)), "O9")
            for s, n, v in bound:
                par = m2 if s == 0 else m2.spaces[w.spaces[(m, s)].name]
                try:
                    got = getattr(par, n)
                except Exception:
                    got = None
                if not (isinstance(got, pd.DataFrame) and got.equals(v)):
                    out_fail("the value of a live spec is not read back equal", "O9")
                checked += 1
        finally:
            with quiet():
                m2.close()
            shutil.rmtree(path, ignore_errors=True)
    return checked


# ----------------------------------------------------------------------------- one history

def run_history(ops, out, stats, do_roundtrip=False, with_model=True):
    close_all()
    iom = mx.core.mxsys.iomanager
    iom.ios.clear()
    iom.ios.inverse.clear()
    tmp = tempfile.mkdtemp(prefix="mxh_c18_")
    failures = []      # (op index, what, oracle item, candidate triggers)
    try:
        w = World(tmp)
        impl_lines, model_ops, index_map = [], ["reset"], []
        # the registry of file objects (Kernels/IOKeys.lean): what is claimed, moved and dropped, by identity
        kops, kexp, kidx = ["reset"], ["ok"], [0]
        kids, kkeep, knext = {}, [], [0]

        def gname(grp):
            return "-" if grp is None else str(w.model_index(grp))

        def key_step(k, op, res, moved):
            """mirror op k on the key model: `moved` = file object the path setter addressed (looked up before)"""
            now = list(iom.ios.items())
            present = {id(io) for _, io in now}
            if op[0] == "setpath" and moved is not None and id(moved) in kids:
                kops.append("kmove %d %s" % (kids[id(moved)], w.path_arg(int(op[1]), op[3])))
                kexp.append("ok" if res == "ok" else "refused")
                kidx.append(k)
            if op[0] == "newpandas" and res == "ok":
                arg = w.path_arg(int(op[1]), op[4])
                new = [io for _, io in now if id(io) not in kids]
                kops.append("kclaim %s %s" % (op[1], arg))
                if new:
                    kids[id(new[0])] = knext[0]
                    kkeep.append(new[0])
                    kexp.append("created %d" % knext[0])
                    knext[0] += 1
                else:
                    import pathlib
                    want = pathlib.Path(os.path.normpath(arg))
                    grp = None if want.is_absolute() else w.models[int(op[1])]
                    hit = [io for (g, p), io in now if p == want and g is grp]
                    kexp.append("existing %d" % kids.get(id(hit[0]), -1) if hit else "existing ?")
                kidx.append(k)
            for oid, kid in list(kids.items()):
                if oid not in present:
                    kops.append("kdrop %d" % kid)
                    kexp.append("ok")
                    kidx.append(k)
                    del kids[oid]
            kops.append("kobs")
            kexp.append(" ".join(sorted("%s:%s#%s" % (gname(g), p.as_posix(), kids.get(id(io), "?"))
                                        for (g, p), io in now)))
            kidx.append(k)
        trig_at = {}
        silent = False
        executed = 0
        feats = set()
        for k, op in enumerate(ops):
            if w.cut:
                break
            snap = Snapshot(w)
            trig = pre_trigger(w, op)
            moved = None
            if op[0] == "setpath" and int(op[1]) in w.models:
                try:
                    sp_ = iom.get_spec_from_value(w.models[int(op[1])], w.val(op[2], int(op[1])))
                    moved = sp_.io if sp_ is not None else None
                except Exception:
                    moved = None
            res = w.apply(op)
            key_step(k, op, res, moved)
            executed = k + 1
            stats[op[0]] = stats.get(op[0], 0) + 1
            if res.startswith("err"):
                stats["rejected:" + op[0]] = stats.get("rejected:" + op[0], 0) + 1
            obs = w.observe() if with_model else ""
            model_ops.append(" ".join(op))
            impl_lines.append(res)
            index_map.append(k)
            model_ops.append("obs")
            impl_lines.append(obs)
            index_map.append(k)
            if trig:
                trig_at[k] = trig
            # features for the non-triviality rule
            for m in w.open:
                reg = w.registered(m)
                refs = w.refs_of(m)
                for spec in reg:
                    if sum(1 for _, _, r in refs if r.interface is spec.value) >= 2:
                        feats.add("shared")
                    if not with_model and any(r.is_derived() and r.interface is spec.value for _, _, r in refs):
                        feats.add("derived-ref-to-specd-value")
                        if (op[0] in ("bind", "newpandas") and res == "ok" and int(op[2]) != 0
                                and any(s_ == int(op[2]) and n_ == op[3] and r.is_derived()
                                        for s_, n_, r in snap.allrefs.get(m, []))):
                            feats.add("derived-ref-overridden")
                if m in snap.reg and len(reg) < len(snap.reg[m]) and op[0] in ("del", "bind", "newpandas"):
                    feats.add("released")
                if op[0] == "update" and res == "ok" and reg:
                    feats.add("updated")
            if op[0] == "newpandas" and res.startswith("err") and res != "err dead":
                feats.add("rejected-creation")
            if not silent:
                got = []
                oracle_step(w, op, res, snap, lambda what, item: got.append((what, item)))
                if got:
                    failures.append((k, got[0][0], got[0][1], trig, w.state_flags()))
                    silent = True
                elif trig:
                    # the trigger predicates are conservative (e.g. the op was rejected for another reason)
                    stats["trigger_without_failure"] = stats.get("trigger_without_failure", 0) + 1
        base_changed = any(o[0] in ("addbase", "rmbase") for o, r in zip(ops, impl_lines[0::2]) if r == "ok")
        if base_changed and do_roundtrip:
            # add_bases/remove_bases can leave one name defined in two bases, or as a cells in one and a
            # reference in another; read_model then fails for reasons that have nothing to do with specs
            # (C04 / C12 territory) - the round trip is not evaluated on such histories
            stats["roundtrip_skipped_base_change"] = stats.get("roundtrip_skipped_base_change", 0) + 1
            do_roundtrip = False
        if do_roundtrip and not silent and not w.cut and w.open:
            got = []
            stats["roundtrip_values"] = stats.get("roundtrip_values", 0) + roundtrip(
                w, lambda what, item: got.append((what, item)))
            stats["roundtrips"] = stats.get("roundtrips", 0) + 1
            if got:
                failures.append((executed - 1, got[0][0], got[0][1], [], w.state_flags()))
        if not silent and not w.cut:
            stats["hist_oracle_active_to_end"] = stats.get("hist_oracle_active_to_end", 0) + 1
        if w.cut:
            stats["cut_after_dirty_space_delete"] = stats.get("cut_after_dirty_space_delete", 0) + 1
        # ---- the model
        model_lines = core.run_driver("iospec", model_ops)[1:] if with_model else []
        model_trig = {}
        first_dis = None
        for j, (a, b) in enumerate(zip(impl_lines, model_lines)):
            k = index_map[j]
            if j % 2 == 0:
                parts = b.split(" trig=")
                if len(parts) > 1:
                    model_trig[k] = parts[1].split(",")
                ia, ib = first_word(a), first_word(parts[0])
                if ia != ib and first_dis is None:
                    first_dis = (k, a, b)
            else:
                if canon(a) != canon(b) and first_dis is None:
                    first_dis = (k, canon(a), canon(b))
        if first_dis is not None:
            out.disagree(ops, first_dis[0], first_dis[1], first_dis[2], layer="iospec")
        # ---- the registry of file objects (every stream: relative and absolute paths)
        klines = core.run_driver("iospec", kops)
        for j, (a, b) in enumerate(zip(kexp, klines)):
            if kops[j] == "kobs":
                b = " ".join(sorted(b.split()))
            if a != b:
                out.disagree(ops, kidx[j], "%s -> %s" % (kops[j], a), "%s -> %s" % (kops[j], b), layer="iokeys")
                break
        stats["key_ops"] = stats.get("key_ops", 0) + len(kops)
        for k, t in trig_at.items():
            for name in t:
                stats["trigger:" + name] = stats.get("trigger:" + name, 0) + 1
        # ---- attribute failures
        for (k, what, item, trig, flags) in failures:
            key = None
            # known only if the Lean model flags the same op with the same trigger predicate; in the
            # inheritance stream (no model) the implementation-side recogniser alone decides
            cands = [t for t in trig if t in model_trig.get(k, [])] if with_model else list(trig)
            impl_seen = {t for j, tl in trig_at.items() if j <= k for t in tl}
            model_seen = {t for j, tl in model_trig.items() if j <= k for t in tl}
            if not with_model:
                # the absolute-path classes are recognised on the implementation alone, and only while its
                # state shows the condition
                cands = [t for t in cands if t not in STICKY or t in flags]
                if item == "O9" and "raises" in what and "abs-readback" in flags:
                    cands.append("abs-readback")
            for t in sorted(flags):
                if (t in STICKY and item in STICKY[t] and t in impl_seen and not with_model
                        and t not in cands):
                    cands.append(t)
            if cands:
                key = KEYS[cands[0]]
            out.fail("%s [%s]" % (what, item), ops[:k + 1],
                     detail={"oracle": item, "impl_trigger": trig, "model_trigger": model_trig.get(k, [])},
                     key=key)
        return feats, executed
    finally:
        close_all()
        iom.ios.clear()
        iom.ios.inverse.clear()
        shutil.rmtree(tmp, ignore_errors=True)


def move_scenarios():
    """every kind of path change (relative/absolute source x relative/absolute destination), then a creation on
    the DESTINATION (it must be refused where it is the same file) and one on the SOURCE (free again), from the
    same and from another model; csv files (one spec per file) and one workbook with two sheets"""
    res = []
    kinds = {"rel": ("a.csv", "sub/d.csv"), "abs": ("@0/a.csv", "@0/sub/d.csv")}
    for src_kind in ("rel", "abs"):
        for dst_kind in ("rel", "abs"):
            src, dst = kinds[src_kind][0], kinds[dst_kind][1]
            for who in ("0", "1"):
                h = [["newmodel", "0"], ["newspace", "0", "1", "S1"], ["newmodel", "1"], ["newspace", "1", "1", "S1"],
                     ["newpandas", "0", "1", "x", src, "csv", "-", "d0"],
                     ["setpath", "0", "d0", dst],
                     ["newpandas", who, "1", "y", dst, "csv", "-", "d1"],
                     ["newpandas", who, "1", "z", src, "csv", "-", "d2"],
                     ["setpath", who, "d2", dst],
                     ["del", "0", "1", "x"],
                     ["newpandas", who, "1", "w", dst, "csv", "-", "d3"]]
                res.append(h)
    # a workbook moved out of the model, a second sheet added through the absolute path, a clash of sheets
    res.append([["newmodel", "0"], ["newspace", "0", "1", "S1"],
                ["newpandas", "0", "1", "x", "b.xlsx", "xl", "s1", "d0"], ["setpath", "0", "d0", "@0/out/b.xlsx"],
                ["newpandas", "0", "1", "y", "@0/out/b.xlsx", "xl", "s2", "d1"],
                ["newpandas", "0", "1", "z", "@0/out/./b.xlsx", "xl", "s1", "d2"],
                ["setpath", "0", "d1", "@0/out2/b.xlsx"], ["newpandas", "0", "1", "z", "b.xlsx", "xl", "s1", "d2"]])
    return res


def twin_scenarios():
    """spaces CREATED with references (new_space(refs=...), copy) in which one object - with an IOSpec - is bound
    to several names, followed by the deletion (or rebinding) of the references to it in EVERY order: the spec
    must live exactly until the last of them goes"""
    import itertools
    res = []
    head = [["newmodel", "0"], ["newspace", "0", "1", "S1"]]
    # (a) S1.x has the spec; S2 is created with x, y (and z) = the same object
    for binds in ("x=d0,y=d0", "y=d0,x=d0", "x=d0,y=d0,z=d0", "x=d0,y=d1,z=d0"):
        made = [["newpandas", "0", "1", "x", "a.csv", "csv", "-", "d0"],
                ["newspacerefs", "0", "2", "S2", binds]]
        targets = [("1", "x")] + [("2", b.split("=")[0]) for b in binds.split(",") if b.endswith("=d0")]
        for order in itertools.permutations(targets):
            for how in ("del", "bind"):
                res.append(head + made + [[how, "0", s_, n_] + (["p0"] if how == "bind" else []) for s_, n_ in order])
    # (b) the spec is created through the new space itself, after the creation
    for order in itertools.permutations([("2", "x"), ("2", "y")]):
        res.append(head + [["newspacerefs", "0", "2", "S2", "x=d0,y=d0"],
                           ["newpandas", "0", "2", "x", "a.csv", "csv", "-", "d0"]]
                   + [["del", "0", s_, n_] for s_, n_ in order] + [["bind", "0", "1", "x", "d0"]])
    # (c) a copy of a space that holds one object under two names (within the model)
    made = [["newpandas", "0", "1", "x", "a.csv", "csv", "-", "d0"], ["bind", "0", "1", "y", "d0"],
            ["newcells", "0", "1", "c", "1"], ["copyspace", "0", "1", "2", "S2"]]
    for order in itertools.permutations([("1", "x"), ("1", "y"), ("2", "x"), ("2", "y")]):
        res.append(head + made + [["del", "0", s_, n_] for s_, n_ in order])
    # (d) copy of the copy, update_pandas in between, close at the end
    res.append(head + made + [["copyspace", "0", "2", "3", "S3"], ["update", "0", "d0", "d1"],
                              ["del", "0", "1", "x"], ["del", "0", "1", "y"], ["del", "0", "3", "y"],
                              ["del", "0", "3", "x"], ["del", "0", "2", "x"], ["del", "0", "2", "y"], ["close", "0"]])
    return res


def no_model(h):
    """histories outside the Lean model: inheritance between spaces, absolute paths"""
    return any(o[0] in ("addbase", "rmbase") or (o[0] == "newspace" and len(o) > 4)
               or (o[0] == "newpandas" and o[4].startswith("@"))
               or (o[0] == "setpath" and o[3].startswith("@")) for o in h)


def shrink_failure(f, budget=160):
    """delta debugging on the op list of an unattributed oracle failure: drop ops one at a time (last to
    first, repeated) while the same oracle item still fails, still unattributed"""
    item = (f.get("detail") or {}).get("oracle")
    ops = list(f["history"])
    inherit = no_model(ops)

    def still_fails(cand):
        o = core.Outcome()
        try:
            run_history(cand, o, {}, do_roundtrip=(item or "").startswith("O9"), with_model=not inherit)
        except Exception:
            return False
        return any(g["key"] is None and (g.get("detail") or {}).get("oracle") == item for g in o.failures)

    changed = True
    while changed and budget > 0:
        changed = False
        for i in range(len(ops) - 1, -1, -1):
            if budget <= 0:
                break
            cand = ops[:i] + ops[i + 1:]
            budget -= 1
            if still_fails(cand):
                ops = cand
                changed = True
    f["history"] = ops
    f["detail"] = dict(f.get("detail") or {}, shrunk=True)


def load_corpus():
    cdir = os.path.join(core.CORPUS_DIR, "C18")
    res = []
    if os.path.isdir(cdir):
        for f in sorted(os.listdir(cdir)):
            if f.endswith(".json"):
                res.append(json.load(open(os.path.join(cdir, f)))["history"])
    return res


def run(ctx, out):
    n_hist = ctx.n(600, 9000)
    length = ctx.n(34, 45)
    rt_every = ctx.n(8, 1)
    stats = {}
    seen, samples = set(), []
    corpus = load_corpus()
    hists = list(corpus)
    for i in range(n_hist):
        hists.append(gen_history(ctx.rng("hist", i), length))
    nontrivial = set()
    total_ops = 0
    # oracle-only stream: spaces with base spaces (derived references), add_bases / remove_bases
    n_inh = ctx.n(150, 3000)
    istats = {}
    for i in range(n_inh):
        h = gen_history(ctx.rng("inherit", i), length, inherit=True)
        feats, executed = run_history(h, out, istats, do_roundtrip=(i % rt_every == 0), with_model=False)
        total_ops += executed
        for f in feats:
            istats["hist_with:" + f] = istats.get("hist_with:" + f, 0) + 1
        seen.add(repr(h))
        if i == 0:
            samples.append([" ".join(o) for o in h])
    stats["inheritance_stream"] = dict(sorted(istats.items()))
    stats["inheritance_stream"]["histories"] = n_inh
    # oracle-only stream: one model, some paths absolute (below the folder the model is written to, so that
    # they can denote the same files as relative ones)
    n_abs = ctx.n(100, 2000)
    astats = {}
    for i in range(n_abs):
        h = gen_history(ctx.rng("absolute", i), length, absolute=True)
        feats, executed = run_history(h, out, astats, do_roundtrip=(i % rt_every == 0), with_model=False)
        total_ops += executed
        seen.add(repr(h))
    for h in move_scenarios():
        feats, executed = run_history(h, out, astats, do_roundtrip=False, with_model=False)
        total_ops += executed
        seen.add(repr(h))
    stats["absolute_path_stream"] = dict(sorted(astats.items()))
    stats["absolute_path_stream"]["histories"] = n_abs
    stats["absolute_path_stream"]["move_scenarios"] = len(move_scenarios())
    twins = twin_scenarios()
    tstats = {}
    for i, h in enumerate(twins):
        feats, executed = run_history(h, out, tstats, do_roundtrip=(i % 16 == 0), with_model=True)
        total_ops += executed
        seen.add(repr(h))
    stats["created_with_refs_scenarios"] = {"histories": len(twins), **dict(sorted(tstats.items()))}
    for i, h in enumerate(hists):
        feats, executed = run_history(h, out, stats, do_roundtrip=(i < len(corpus) or i % rt_every == 0),
                                      with_model=not no_model(h))
        total_ops += executed
        txt = repr(h)
        seen.add(txt)
        for f in feats:
            stats["hist_with:" + f] = stats.get("hist_with:" + f, 0) + 1
        if "shared" in feats and "released" in feats:
            nontrivial.add(txt)
        if i in (len(corpus), len(corpus) + 1):
            samples.append([" ".join(o) for o in h])
    done = set()
    for f in out.failures:
        if f["key"] is None and f["what"] not in done and len(done) < 5:
            done.add(f["what"])
            shrink_failure(f)
    out.coverage.update({
        "evaluations": total_ops,
        "distinct_nontrivial": len(nontrivial),
        "rule": "histories of ~%d ops (new_pandas / assignment / new_space(refs=) / copy of a space / deletion of references and spaces / update_pandas / "
"sheet setter / path setter / del_spec / close, also through the handles of closed models and deleted "
                "spaces) over <= 2 models x 2-3 spaces, files %s under several spellings, sheets %s; evaluations = ops "
                "executed on modelx with all oracles; distinct by op text; non-trivial = some spec'd value was bound to "
                ">= 2 references at once AND some spec was released by a deletion or rebinding" % (
                    length, [p for p, _ in PATHS], SHEETS),
        "samples": samples,
        "programs": len(seen),
        "input_distribution": dict(sorted(stats.items(), key=lambda kv: kv[0])),
        "corpus_cases": len(corpus),
    })
    out.assumptions.append("pandas/openpyxl file round trip is exercised (O9), not modelled; absolute paths and "
                           "inheritance between spaces are exercised by oracle-only streams (no Lean model), "
                           "absolute paths in ONE model only (ios under absolute paths have no group and are shared "
                           "between models); new_module, new_excel_range, the path setter from an absolute to a "
                           "relative path, case-insensitive file systems and symbolic links are not covered")


def replay(ctx, payload, out):
    h = payload.get("history") or (payload.get("unexplained") or [{}])[-1].get("detail", {}).get("history")
    if h:
        run_history(h, out, {}, do_roundtrip=True, with_model=not no_model(h))
