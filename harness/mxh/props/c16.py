"""C16 – memory-optimised runs give the direct results and keep only the targets.

Programs: random dependency DAGs built on the real modelx – cached cells with zero or one
parameter whose formulas (given as source strings) call lower cells, themselves with a smaller
argument, or other cells at constant arguments, optionally through uncached helper cells; every
formula first calls `tick`, a counting function bound as a model-level reference.  A configuration
adds user-assigned input values on some elements.  A case is (program, inputs, non-empty target
list, step size); step sizes run from 1 to (number of needed elements)+2.  A case may also start from a
NON-EMPTY cache: `pre` lists elements evaluated directly before generate_actions, `mid` elements evaluated
between generate_actions and execute_actions (the documented workflow changes the data in between).
Values: a cells may be allowed to return None (`allow_none=True` on the cells, on its space or on the model) and then
returns None for some of its elements (field `none` of the cell = a modulus m: None when the computed number is
divisible by m; m = 1: always); user inputs of such cells may be None too.  A held None is a held value: None-valued
elements occur as intermediates that a later block reads (with precedents of their own) and as targets, for every
step size.  Nothing in the oracle or the model below distinguishes them.

Correspondence (Lean model `MxModel.CalcSteps`, theorems in Props/C16.lean):
  * the action list `Model.generate_actions` returns, as exact per-step lists, against the Lean
    `calcSteps` fed with the topological order modelx used (read back from the 'calc' steps) and
    the dependency edges observed by direct evaluation in a fresh replica; the model's final
    `pasted`, and the hypotheses of the theorems (`isTopo`, `Nodup`) on that order;
  * `Model.execute_actions`, run one action at a time: held elements / input marks after every
    action and the formula-execution log, against the Lean abstract cache (`execute`);
  * a side stream of random action lists (not plans) through `execute_actions` against the same
    cache model, so that recursion and dependent-sweeping in the cache model are exercised too.
Oracle (implementation only): the statement itself.  With values held beforehand it reads: after
generate_actions every calculated value that is left was held before and is not needed by the targets; the
calc steps are exactly the elements the targets depend on (computed on a fresh replica); after
execute_actions the targets hold the direct values, value-pasted, and every other calculated value that is
left was held before the execution and is not needed by the targets.  (Cases whose model held, before
generate_actions, a calculated value that the targets depend on failed this oracle until 77e9cc3 - finding
C16-precomputed-values, now a regression input: elements that have a value are not entered while tracing, and were
neither planned nor cleared.)
"""
import json
import os

from .. import core
from ..impl import mx, close_all, quiet, err_kind

MOD = 1000003


# ----------------------------------------------------------------------------- programs

def gen_program(rng, size_hint):
    """cells: list of dict(name, np, cached, base, calls); calls: list of
    ("same", j) cj(x) | ("dec", j) cj(x-1) if x > 0 | ("const", j, a) cj(a) | ("zero", j) cj()"""
    ncells = rng.randint(2, size_hint)
    cells = []
    for i in range(ncells):
        np_ = 1 if rng.random() < 0.6 else 0
        cached = True if i == ncells - 1 else rng.random() > 0.15
        lower1 = [j for j in range(i) if cells[j]["np"] == 1]
        lower0 = [j for j in range(i) if cells[j]["np"] == 0]
        calls = []
        for _ in range(rng.choice([0, 1, 1, 2, 2, 3])):
            kinds = []
            if np_ == 1:
                kinds.append("dec")
                if lower1:
                    kinds += ["same", "same", "dec"]
            if lower1:
                kinds.append("const")
            if lower0:
                kinds += ["zero", "zero"]
            if not kinds:
                break
            k = rng.choice(kinds)
            if k == "same":
                calls.append(["same", rng.choice(lower1)])
            elif k == "dec":
                calls.append(["dec", rng.choice(lower1 + [i]) if np_ == 1 else rng.choice(lower1)])
            elif k == "const":
                calls.append(["const", rng.choice(lower1), rng.randint(0, 3)])
            else:
                calls.append(["zero", rng.choice(lower0)])
        cells.append({"name": "c%d" % i, "np": np_, "cached": cached, "base": rng.randint(1, 9),
                      "calls": calls, "fail": False})
    return cells


def add_nones(rng, cells, p_prog=0.45):
    """some programs get cells that are allowed to return None and do so (separate random stream: the dependency
    structure of the generated programs is the same with and without)"""
    if rng.random() >= p_prog:
        return cells
    at = rng.choice(["cells", "cells", "space", "model"])
    some = False
    for c in cells:
        if rng.random() < 0.5:
            c["none"] = rng.choice([1, 2, 2, 3])
            c["allow"] = at
            some = True
    if not some:
        c = rng.choice(cells)
        c["none"], c["allow"] = rng.choice([1, 2]), at
    return cells


def _nz(v):
    """what a caller makes of a callee's None"""
    return 5 if v is None else v


def render(i, cell, nonecells=()):
    head = "def %s(%s):" % (cell["name"], "x" if cell["np"] else "")
    lines = [head, "    tick(%d%s)" % (i, ", x" if cell["np"] else ", None"), "    r = %d" % cell["base"]]
    if cell.get("fail") == "pre":
        lines.append("    r = r // 0")
    for c in cell["calls"]:
        f = "nz(c%d(%s))" if c[1] in nonecells else "c%d(%s)"
        if c[0] == "same":
            lines.append("    r = (r * 3 + %s) %% %d" % (f % (c[1], "x"), MOD))
        elif c[0] == "dec":
            lines.append("    if x > 0:")
            lines.append("        r = (r * 3 + %s) %% %d" % (f % (c[1], "x - 1"), MOD))
        elif c[0] == "const":
            lines.append("    r = (r * 3 + %s) %% %d" % (f % (c[1], c[2]), MOD))
        else:
            lines.append("    r = (r * 3 + %s) %% %d" % (f % (c[1], ""), MOD))
    if cell.get("fail") == "post":
        lines.append("    r = r // 0")
    if cell.get("none"):
        lines.append("    if r %% %d == 0:" % cell["none"])
        lines.append("        return None")
    lines.append("    return r")
    return "\n".join(lines)


def callees(cells, n):
    """the elements the formula of `n` calls, in source order, with repeats (programs without uncached cells)"""
    i, x = n
    res = []
    for c in cells[i]["calls"]:
        if c[0] == "same":
            res.append((c[1], x))
        elif c[0] == "dec":
            if x > 0:
                res.append((c[1], x - 1))
        elif c[0] == "const":
            res.append((c[1], c[2]))
        else:
            res.append((c[1], None))
    return res


def val_str(v):
    return "N" if v is None else str(v)


def node_name(n):
    return "c%d(%s)" % (n[0], "" if n[1] is None else n[1])


def none_cells(cells):
    return {i for i, c in enumerate(cells) if c.get("none")}


class World:
    """one real modelx model built from a program + user inputs"""

    def __init__(self, cells, inputs):
        self.cells = cells
        self.log = []
        with quiet():
            self.m = mx.new_model("M")
            self.s = self.m.new_space("S")
            self.m.tick = self._tick
            self.m.nz = _nz
            self.cobj = []
            nonecells = none_cells(cells)
            for i, c in enumerate(cells):
                co = self.s.new_cells(c["name"], formula=render(i, c, nonecells))
                if not c["cached"]:
                    co.is_cached = False
                if c.get("none"):
                    if c.get("allow") == "model":
                        self.m.allow_none = True
                    elif c.get("allow") == "space":
                        self.s.allow_none = True
                    else:
                        co.allow_none = True
                self.cobj.append(co)
            self.inputs = {}
            for n, v in inputs:
                n = (n[0], n[1])
                self.cobj[n[0]][self.key(n)] = v
                self.inputs[n] = v

    def _tick(self, i, x):
        self.log.append((i, x))

    @staticmethod
    def key(n):
        return () if n[1] is None else (n[1],)

    def node(self, n):
        return self.cobj[n[0]].node(*self.key(n))

    def of_item(self, item):
        i = int(item.obj.name[1:])
        return (i, item.args[0] if item.args else None)

    def call(self, n):
        return self.cobj[n[0]](*self.key(n))

    def held(self):
        """{node: (value, is_input)} of every cached cells"""
        res = {}
        for i, co in enumerate(self.cobj):
            if not self.cells[i]["cached"]:
                continue
            for k, v in dict(co).items():
                args = k if isinstance(k, tuple) else (k,)
                n = (i, args[0] if args else None)
                res[n] = (v, bool(co.is_input(*args)))
        return res

    def calculated(self):
        return {n: v for n, (v, inp) in self.held().items() if not inp}

    def close(self):
        try:
            with quiet():
                self.m.close()
        except Exception:
            pass
        close_all()


def universe(cells, xmax):
    res = []
    for i, c in enumerate(cells):
        if not c["cached"]:
            continue
        if c["np"]:
            res += [(i, x) for x in range(xmax + 1)]
        else:
            res.append((i, None))
    return res


_SURVEYS = {}


def survey(cells, inputs, xmax):
    """`survey_fresh`, remembered per (program, inputs, xmax): a pure function of them (a fresh model every time)"""
    k = json.dumps([cells, [[list(n), v] for n, v in inputs], xmax], sort_keys=True)
    if k not in _SURVEYS:
        if len(_SURVEYS) > 64:
            _SURVEYS.clear()
        _SURVEYS[k] = survey_fresh(cells, inputs, xmax)
    vals, preds, failed = _SURVEYS[k]
    return dict(vals), {n: list(ps) for n, ps in preds.items()}, set(failed)


def survey_fresh(cells, inputs, xmax):
    """Direct evaluation of every element in a fresh replica: values, predecessor lists (cached
    elements only, in call order), which elements fail."""
    w = World(cells, inputs)
    try:
        vals, preds, failed = {}, {}, set()
        for n in universe(cells, xmax):
            try:
                with quiet():
                    vals[n] = w.call(n)
            except Exception:
                failed.add(n)
        for n, (v, inp) in w.held().items():
            if inp:
                continue
            ps = []
            with quiet():
                for p in w.node(n).preds:
                    if type(p).__name__ == "ItemNode":
                        q = w.of_item(p)
                        if q not in ps:
                            ps.append(q)
            preds[n] = ps
            vals[n] = v
        return vals, preds, failed
    finally:
        w.close()


def closure(preds, start, stop):
    """elements `start` depends on (inclusive), not descending into `stop` (the user inputs)"""
    seen, todo = [], [n for n in start if n not in stop]
    while todo:
        n = todo.pop()
        if n in seen:
            continue
        seen.append(n)
        for p in preds.get(n, []):
            if p not in stop and p not in seen:
                todo.append(p)
    return seen


# ----------------------------------------------------------------------------- one case

def acts_str(acts, empty="-"):
    return "|".join((a + " " + " ".join(str(i) for i in ns)).strip() for a, ns in acts) or empty


class Ids:
    def __init__(self, ordered):
        self.ids = {}
        for n in ordered:
            self.ids.setdefault(n, len(self.ids))

    def __call__(self, n):
        return self.ids.setdefault(n, len(self.ids))


def run_case(case, out, stats, model_jobs):
    """case: dict(cells, inputs, targets, size, xmax).  Runs the implementation, the oracle, and
    queues the Lean model's jobs (compared later in one driver call)."""
    cells, xmax, size = case["cells"], case["xmax"], case["size"]
    inputs = [((n[0], n[1]), v) for n, v in case["inputs"]]
    targets = [(t[0], t[1]) for t in case["targets"]]
    hist = case
    vals, preds, failed = survey(cells, inputs, xmax)
    inset = {n for n, _ in inputs}
    needed = closure(preds, targets, inset)
    if any(t in failed for t in targets):
        return run_failing_case(case, out, stats, vals, preds, failed)
    pre = [(n[0], n[1]) for n in case.get("pre", [])]
    mid = [(n[0], n[1]) for n in case.get("mid", [])]
    need = set(needed) | {t for t in targets if t not in inset}
    w = World(cells, inputs)
    try:
        # ---------------- values held before generate_actions
        for n in pre:
            with quiet():
                w.call(n)
        pre_held = set(w.calculated())
        pre_dep = bool(pre_held & need)       # the input class of the repaired finding C16-precomputed-values
        w.log.clear()

        def fail(what, only_known_if=True, **kw):
            out.fail(what, hist, **kw)

        def order_of(nodes):
            """`nodes` (closed under `preds`) in an order in which direct evaluation would compute them"""
            res, todo = [], sorted(nodes, key=repr)
            while todo:
                rest = [n for n in todo if any(p in todo and p != n for p in preds.get(n, []))]
                res += [n for n in todo if n not in rest]
                if len(rest) == len(todo):
                    res += rest
                    break
                todo = rest
            return res
        # ---------------- generate
        try:
            with quiet():
                actions = w.m.generate_actions([w.node(t) for t in targets], step_size=size)
        except Exception as e:
            out.fail("generate_actions raised %s on a program whose direct evaluation succeeds" % err_kind(e),
                     hist)
            return
        left = w.calculated()
        bad_left = sorted(node_name(n) for n in left if n not in pre_held or n in need)
        if bad_left:
            fail("generate_actions left calculated values behind", all(n in pre_held for n in left),
                 detail={"left": bad_left})
        now = w.held()
        gen_execs = [n for n in w.log if cells[n[0]]["cached"]]
        if {n: v for n, (v, _) in now.items() if n in inset} != dict(inputs) or \
                any(not now[n][1] for n in inset if n in now):
            out.fail("generate_actions changed user inputs", hist)
        kinds = [a[0] for a in actions]
        if kinds != ["calc", "paste", "clear"] * (len(actions) // 3) or len(actions) % 3:
            out.fail("action list is not a sequence of calc/paste/clear triples", hist, detail={"kinds": kinds})
            return
        acts = [(a, [w.of_item(n) for n in ns]) for a, ns in actions]
        ordered = [n for a, ns in acts if a == "calc" for n in ns]
        # every needed element in exactly one calc step, after what it depends on
        if sorted(ordered, key=repr) != sorted(needed, key=repr):
            fail("calc steps do not contain every needed element exactly once",
                 len(set(ordered)) == len(ordered) and set(ordered) <= set(needed)
                 and set(needed) - set(ordered) <= pre_held,
                 detail={"calc": [node_name(n) for n in ordered],
                         "needed": sorted(node_name(n) for n in needed)})
        pos = {n: k for k, n in enumerate(ordered)}
        for n in ordered:
            for p in preds.get(n, []):
                if p in inset:
                    continue
                if p not in pos or pos[p] >= pos[n]:
                    fail("an element is scheduled before an element it depends on",
                         p not in pos and p in pre_held,
                         detail={"element": node_name(n), "dependency": node_name(p)})
        for a, ns in acts:
            if a == "calc" and (len(ns) > size or not ns):
                out.fail("a calc step is empty or larger than step_size", hist)
        # ---------------- values computed between generate_actions and execute_actions
        for n in mid:
            with quiet():
                w.call(n)
        start_held = w.calculated()
        # ---------------- execute, one action at a time
        ids = Ids(ordered)
        w.log.clear()
        trace = []
        vtrace = []
        try:
            for act in actions:
                with quiet():
                    w.m.execute_actions([act])
                h = w.held()
                trace.append(" ".join(str(i) for i in sorted(ids(n) for n in h)) + "/" +
                             " ".join(str(i) for i in sorted(ids(n) for n, vi in h.items() if vi[1])))
                vtrace.append(" ".join("%d=%s" % (i, v) for i, v in sorted((ids(n), val_str(vi[0]))
                                                                          for n, vi in h.items())))
        except Exception as e:
            out.fail("execute_actions raised %s" % err_kind(e), hist)
            return
        held = w.held()
        for t in targets:
            if t not in held:
                fail("a target holds no value after execute_actions", t in pre_held,
                     detail={"target": node_name(t)})
            elif held[t][0] != vals[t]:
                out.fail("a target holds a value different from direct evaluation", hist,
                         detail={"target": node_name(t), "held": held[t][0], "direct": vals[t]})
            elif not held[t][1]:
                fail("a target is not value-pasted (not marked as input) after execute_actions", t in pre_held,
                     detail={"target": node_name(t)})
        extra = [n for n in held if n not in inset and n not in targets
                 and not (n in start_held and n not in need)]
        if extra:
            fail("values other than the targets are left after execute_actions",
                 all(n in pre_held for n in extra), detail={"left": sorted(node_name(n) for n in extra)})
        if {n: v for n, (v, _) in held.items() if n in inset} != dict(inputs):
            out.fail("execute_actions changed user inputs", hist)
        execs = [n for n in w.log if cells[n[0]]["cached"]]
        twice = sorted(set(node_name(n) for n in execs if execs.count(n) > 1))
        if twice:
            out.fail("an element was computed more than once during execute_actions", hist,
                     detail={"elements": twice})
        try:
            w.m._impl._check_sanity()
        except Exception as e:
            out.fail("model fails its own sanity check after execute_actions: %s" % err_kind(e), hist)
        # ---------------- the model's jobs
        oset = set(ordered)
        edges = ["%d>%d" % (ids(p), ids(n)) for n in ordered for p in preds.get(n, []) if p in oset]
        plan_line = "plan %d ; %s ; %s ; %s" % (
            size, " ".join(str(ids(n)) for n in ordered) or "-",
            " ".join(str(ids(t)) for t in targets if t not in inset) or "-", " ".join(edges) or "-")
        impl_acts = [(a, [ids(n) for n in ns]) for a, ns in acts]
        model_jobs.append((hist, "plan", plan_line,
                           acts_str(impl_acts, "") + " ; pasted= ; topo=1 ; nodup=1"))

        def preds_line(nodes):
            allowed = set(nodes) | inset
            return " ".join("%d:%s" % (ids(n), ",".join(str(ids(p)) for p in preds.get(n, []) if p in allowed))
                            for n in nodes) or "-"
        ins = " ".join(str(ids(n)) for n in sorted(inset, key=repr)) or "-"
        xnodes = list(ordered) + [n for n in order_of(start_held) if n not in oset]
        exec_line = "execfrom %d ; %s ; %s ; %s ; %s" % (
            len(xnodes) + 2, preds_line(xnodes), ins,
            " ".join(str(ids(n)) for n in order_of(start_held)) or "-", acts_str(impl_acts))
        model_jobs.append((hist, "exec", exec_line,
                           "|".join(trace) + " ; log=" + " ".join(str(ids(n)) for n in execs)))
        # the same run on the model WITH values (programs without uncached cells: the formula of an element is
        # then a function of the values of the elements it calls): held values, None included, after every action
        if all(c["cached"] and not c.get("fail") for c in cells) and actions:
            specs = " ".join("%d=%d,%d:%s" % (ids(n), cells[n[0]]["base"], cells[n[0]].get("none") or 0,
                                              ",".join(str(ids(q)) for q in callees(cells, n))) for n in xnodes)
            vins = " ".join("%d=%s" % (ids(n), val_str(v)) for n, v in sorted(inputs, key=repr)) or "-"
            vline = "vexecfrom %d ; %s ; %s ; %s ; %s ; %s" % (
                len(xnodes) + 2, preds_line(xnodes), vins,
                " ".join(str(ids(n)) for n in order_of(start_held)) or "-", specs or "-", acts_str(impl_acts))
            model_jobs.append((hist, "values", vline, "|".join(vtrace)))
            stats["valued_runs"] = stats.get("valued_runs", 0) + 1
        gnodes = list(ordered) + [n for n in order_of(pre_held) if n not in oset]
        gen_line = "gen %d ; %s ; %s ; %s ; %s" % (
            len(gnodes) + 2, preds_line(gnodes), ins,
            " ".join(str(ids(t)) for t in targets) or "-",
            " ".join(str(ids(n)) for n in order_of(pre_held)) or "-")
        model_jobs.append((hist, "gen", gen_line,
                           "calculated=" + " ".join(str(ids(n)) for n in gen_execs) + " ; extra=" +
                           " ".join(str(i) for i in sorted(ids(n) for n in set(ordered) - set(gen_execs))) + " ; " +
                           " ".join(str(i) for i in sorted(ids(n) for n in now)) + "/" +
                           " ".join(str(i) for i in sorted(ids(n) for n, vi in now.items() if vi[1]))))
        # ---------------- coverage
        nblocks = len(actions) // 3
        stats["cases"] += 1
        stats["blocks"][min(nblocks, 6)] = stats["blocks"].get(min(nblocks, 6), 0) + 1
        stats["needed"][min(len(ordered), 12)] = stats["needed"].get(min(len(ordered), 12), 0) + 1
        stats["targets"][len(targets)] = stats["targets"].get(len(targets), 0) + 1
        carried = any(a == "clear" and any(pos[n] < k // 3 * size for n in ns if n in pos)
                      for k, (a, ns) in enumerate(acts))
        nested = any(t in closure(preds, [u], inset) for t in targets for u in targets if u != t)
        if nblocks >= 2 and carried:
            stats["nontrivial"] += 1
        if nested:
            stats["nested_targets"] += 1
        if inset & {p for n in ordered for p in preds.get(n, [])}:
            stats["reads_user_input"] += 1
        if any(not c["cached"] for c in cells):
            stats["with_uncached"] += 1
        nn = [n for n in ordered if vals.get(n, 0) is None]
        if nn:
            stats["none_valued_elements"] = stats.get("none_valued_elements", 0) + 1
            if any(n in targets for n in nn):
                stats["none_valued_target"] = stats.get("none_valued_target", 0) + 1
            kept = {n for k, (a, ns) in enumerate(acts) if a == "paste" for n in ns
                    if n not in targets and preds.get(n)}
            if any(n in kept for n in nn):
                stats["none_valued_kept_across_blocks"] = stats.get("none_valued_kept_across_blocks", 0) + 1
        if any(v is None for _, v in inputs):
            stats["none_valued_user_input"] = stats.get("none_valued_user_input", 0) + 1
        if pre_held:
            stats["start_with_calculated_values"] = stats.get("start_with_calculated_values", 0) + 1
            if pre_dep:
                stats["start_with_needed_values"] = stats.get("start_with_needed_values", 0) + 1
        if mid:
            stats["values_between_generate_and_execute"] = stats.get("values_between_generate_and_execute", 0) + 1
    finally:
        w.close()


def run_failing_case(case, out, stats, vals, preds, failed):
    """malformed stream: a target whose evaluation raises"""
    cells, size = case["cells"], case["size"]
    inputs = [((n[0], n[1]), v) for n, v in case["inputs"]]
    targets = [(t[0], t[1]) for t in case["targets"]]
    w = World(cells, inputs)
    try:
        try:
            with quiet():
                w.m.generate_actions([w.node(t) for t in targets], step_size=size)
            out.fail("generate_actions returned although a target cannot be evaluated", case)
            return
        except Exception as e:
            kind = err_kind(e)
        stats["malformed"][kind] = stats["malformed"].get(kind, 0) + 1
        if kind != "Formula":
            out.fail("generate_actions failed with %s instead of FormulaError" % kind, case)
        left = w.calculated()
        if left:
            out.fail("generate_actions that failed with an error left calculated values behind", case,
                     detail={"left": sorted(node_name(n) for n in left)}, key="C16-failed-generate-leftover")
        if {n: v for n, (v, _) in w.held().items() if n in dict(inputs)} != dict(inputs):
            out.fail("a failed generate_actions changed user inputs", case)
        if type(w.m._impl.system.callstack).__name__ != "CallStack" or w.m._impl.system.callstack:
            out.fail("a failed generate_actions left the stack trace active", case)
    finally:
        w.close()


def run_random_actions(case, out, stats, model_jobs):
    """side stream: an arbitrary action list through execute_actions against the cache model"""
    cells, xmax = case["cells"], case["xmax"]
    inputs = [((n[0], n[1]), v) for n, v in case["inputs"]]
    inset = {n for n, _ in inputs}
    vals, preds, failed = survey(cells, inputs, xmax)
    acts = [(a, [(n[0], n[1]) for n in ns]) for a, ns in case["actions"]]
    nodes = closure(preds, [n for a, ns in acts for n in ns], inset)
    if any(n in failed for n in nodes):
        # not run: the cache model has no failing formulas (counted, not silent)
        stats["random_actions_skipped_failing"] = stats.get("random_actions_skipped_failing", 0) + 1
        return
    ids = Ids(sorted(nodes, key=repr))
    w = World(cells, inputs)
    try:
        trace = []
        try:
            for a, ns in acts:
                with quiet():
                    w.m.execute_actions([[a, [w.node(n) for n in ns]]])
                h = {n: vi for n, vi in w.held().items() if n not in inset}
                trace.append(" ".join(str(i) for i in sorted(ids(n) for n in h)) + "/" +
                             " ".join(str(i) for i in sorted(ids(n) for n, vi in h.items() if vi[1])))
        except Exception as e:
            out.fail("execute_actions raised %s on an arbitrary action list" % err_kind(e), case)
            return
        execs = [n for n in w.log if cells[n[0]]["cached"]]
        oset = set(nodes)
        pl = " ".join("%d:%s" % (ids(n), ",".join(str(ids(p)) for p in preds.get(n, []) if p in oset))
                      for n in nodes)
        line = "exec %d ; %s ; %s" % (len(nodes) + 2, pl or "-",
                                      acts_str([(a, [ids(n) for n in ns]) for a, ns in acts]))
        model_jobs.append((case, "exec", line,
                           "|".join(trace) + " ; log=" + " ".join(str(ids(n)) for n in execs)))
        stats["random_action_lists"] += 1
        if len(execs) != len(set(execs)):
            stats["random_lists_with_recomputation"] += 1
    finally:
        w.close()


def flush_model(model_jobs, out):
    if not model_jobs:
        return
    res = core.run_driver("calcsteps", [j[2] for j in model_jobs])
    for (hist, kind, line, expect), got in zip(model_jobs, res):
        if " ".join(got.split()) != " ".join(expect.split()):
            out.disagree(hist, kind, expect, got, layer="calcsteps")
    del model_jobs[:]


# ----------------------------------------------------------------------------- generation of cases

def gen_config(rng, tier_big, nrng=None):
    cells = gen_program(rng, 7 if tier_big else 6)
    if nrng is not None:
        add_nones(nrng, cells)
    xmax = rng.randint(2, 4)
    uni = universe(cells, xmax)
    inputs = []
    if rng.random() < 0.55:
        for n in rng.sample(uni, min(len(uni), rng.randint(1, 3))):
            inputs.append([list(n), rng.randint(10, 99)])
    if nrng is not None:
        for e in inputs:          # a user may assign None where it is allowed
            if cells[e[0][0]].get("none") and nrng.random() < 0.4:
                e[1] = None
    return cells, xmax, uni, inputs


def gen_targets(rng, uni, preds, inset):
    comp = [n for n in uni if n in preds and n not in inset]
    if not comp:
        return None
    k = rng.choice([1, 1, 2, 2, 3, 4])
    ts = [max(rng.sample(comp, min(len(comp), 2)), key=lambda n: len(closure(preds, [n], inset)))]
    while len(ts) < k:
        r = rng.random()
        if r < 0.08 and inset:
            ts.append(rng.choice(sorted(inset, key=repr)))
            continue
        if r < 0.55:
            below = [n for n in closure(preds, ts, inset) if n not in ts]
            if below:
                ts.append(rng.choice(below))
                continue
        ts.append(rng.choice(comp))
    if rng.random() < 0.05:
        ts.append(ts[0])          # the same target twice
    rng.shuffle(ts)
    return ts


def new_stats():
    return {"cases": 0, "nontrivial": 0, "nested_targets": 0, "reads_user_input": 0, "with_uncached": 0,
            "blocks": {}, "needed": {}, "targets": {}, "malformed": {}, "random_action_lists": 0,
            "random_lists_with_recomputation": 0}


def case_of(cells, xmax, inputs, targets, size, pre=(), mid=()):
    c = {"cells": cells, "xmax": xmax, "inputs": inputs, "targets": [list(t) for t in targets], "size": size}
    if pre:
        c["pre"] = [list(n) for n in pre]
    if mid:
        c["mid"] = [list(n) for n in mid]
    return c


def corpus_cases():
    cdir = os.path.join(core.CORPUS_DIR, "C16")
    res = []
    if os.path.isdir(cdir):
        for f in sorted(os.listdir(cdir)):
            if f.endswith(".json"):
                res.append(json.load(open(os.path.join(cdir, f))))
    return res


def run(ctx, out):
    stats = new_stats()
    jobs = []
    samples = []
    programs = set()
    ncorpus = 0
    for c in corpus_cases():
        ncorpus += 1
        replay_case(c, out, stats, jobs)
    n_cfg = ctx.n(90, 1000)
    for ci in range(n_cfg):
        rng = ctx.rng("cfg", ci)
        cells, xmax, uni, inputs = gen_config(rng, ctx.tier == "thorough", ctx.rng("none", ci))
        programs.add(json.dumps(cells, sort_keys=True))
        vals, preds, failed = survey(cells, [((n[0], n[1]), v) for n, v in inputs], xmax)
        inset = {(n[0], n[1]) for n, _ in inputs}
        for ti in range(ctx.n(2, 3)):
            ts = gen_targets(rng, uni, preds, inset)
            if ts is None:
                break
            n_needed = len(closure(preds, ts, inset))
            sizes = list(range(1, n_needed + 3))
            if len(sizes) > 8 and ctx.tier == "quick":
                sizes = sorted(set(sizes[:4] + rng.sample(sizes[4:], 3) + sizes[-2:]))
            for size in sizes:
                case = case_of(cells, xmax, inputs, ts, size)
                run_case(case, out, stats, jobs)
                # the same request on a model that is not empty: values held before generate_actions / computed
                # between generate_actions and execute_actions (needed by the targets, or unrelated)
                okn = [n for n in uni if n in preds and n not in inset and n not in failed]
                if okn and size in (sizes[0], sizes[len(sizes) // 2]):
                    below = [n for n in closure(preds, ts, inset) if n not in failed]
                    pick = lambda: rng.sample(below if below and rng.random() < 0.6 else okn,
                                              min(rng.randint(1, 2), len(below if below else okn)))
                    r = rng.random()
                    if r < 0.4:
                        run_case(case_of(cells, xmax, inputs, ts, size, pre=pick()), out, stats, jobs)
                    elif r < 0.8:
                        run_case(case_of(cells, xmax, inputs, ts, size, mid=pick()), out, stats, jobs)
                    else:
                        run_case(case_of(cells, xmax, inputs, ts, size, pre=pick(), mid=pick()), out, stats, jobs)
                if len(samples) < 3 and size == 2 and n_needed >= 4:
                    samples.append({"formulas": [render(i, c, none_cells(cells)) for i, c in enumerate(cells)],
                                    "inputs": inputs, "targets": [node_name(t) for t in ts], "step_size": size})
        # side stream: arbitrary action lists
        comp = [n for n in uni if n in preds and n not in inset]
        if comp:
            acts = []
            for _ in range(rng.randint(2, 6)):
                acts.append([rng.choice(["calc", "calc", "paste", "clear"]),
                             [list(n) for n in rng.sample(comp, min(len(comp), rng.randint(1, 3)))]])
            run_random_actions({"cells": cells, "xmax": xmax, "inputs": inputs, "actions": acts}, out, stats, jobs)
        # malformed stream: a failing formula somewhere below (or at) a target
        if ci % 4 == 0 and comp:
            bad = [dict(c) for c in cells]
            k = rng.randrange(len(bad))
            bad[k]["fail"] = rng.choice(["pre", "post", "post"])
            v2, p2, f2 = survey(bad, [((n[0], n[1]), v) for n, v in inputs], xmax)
            ft = [n for n in f2]
            if ft:
                ts = [rng.choice(sorted(ft, key=repr))]
                ok = [n for n in p2 if n not in f2 and n not in inset]
                if ok and rng.random() < 0.5:
                    ts.insert(0, rng.choice(sorted(ok, key=repr)))
                run_case(case_of(bad, xmax, inputs, ts, rng.randint(1, 3)), out, stats, jobs)
        # degenerate request: no target at all -> empty plan, nothing touched
        if ci % 9 == 0:
            run_case(case_of(cells, xmax, inputs, [], rng.randint(1, 3)), out, stats, jobs)
            stats["empty_target_lists"] = stats.get("empty_target_lists", 0) + 1
        if len(jobs) > 400:
            flush_model(jobs, out)
    flush_model(jobs, out)
    out.coverage.update({
        "evaluations": stats["cases"],
        "distinct_nontrivial": stats["nontrivial"],
        "rule": "case = (program, user inputs, target list, step size), step sizes 1..needed+2 "
                "(quick tier: a sample of them when there are more than 8); non-trivial = the plan has at least "
                "two blocks and a clear step releases an element pasted in an earlier block",
        "samples": samples,
        "programs": len(programs),
        "corpus_cases": ncorpus,
        "input_distribution": {k: stats[k] for k in (
            "nested_targets", "reads_user_input", "with_uncached", "blocks", "needed", "targets", "malformed",
            "random_action_lists", "random_lists_with_recomputation", "empty_target_lists",
            "start_with_calculated_values", "start_with_needed_values", "values_between_generate_and_execute",
            "random_actions_skipped_failing", "none_valued_elements", "none_valued_target",
            "none_valued_kept_across_blocks", "none_valued_user_input", "valued_runs") if k in stats},
    })
    out.assumptions.append(
        "the cache model (held set, input marks, trace edges, clear-with-dependents, paste detaches) behind "
        "run_correct is tied to modelx by the per-action correspondence only; the driver runs the value-free cache "
        "(Props/C16.lean, value_agnostic_*: the valued cache over any value domain erases to it, so a held None is a "
        "held value) – that the targets hold the directly evaluated values, None included, is checked by the "
        "implementation-only oracle")
    out.assumptions.append(
        "runs also start from models that hold calculated values (before generate_actions and before "
        "execute_actions); step_size <= 0 is not generated (get_calcsteps does not terminate for it)")


def ladder(height, width, none_at, mods):
    """a family in the shape of the documented use: `height` cells with one parameter, cells k reads cells k-1 at
    the same argument and itself at the argument before; the cells in `none_at` are allowed to return None and do
    (modulus from `mods`)"""
    cells = []
    for k in range(height):
        calls = ([["same", k - 1]] if k else []) + [["dec", k]]
        c = {"name": "c%d" % k, "np": 1, "cached": True, "base": k + 1, "calls": calls, "fail": False}
        if k in none_at:
            c["none"], c["allow"] = mods[k % len(mods)], "cells"
        cells.append(c)
    return cells, width - 1


def search(ctx, out, extra):
    """A theorem or the correspondence no longer stands and no generated case failed: look for an input on which
    modelx itself breaks the statement.  Small scope, exhaustively: ladders of 2-3 cells in which every subset of
    the cells returns None (always / for every second value), every target list of one or two elements, EVERY step
    size 1..needed+1; then generated programs in which every cells may return None, every step size.  Judged by the
    oracle of `run_case` alone (the model's jobs are dropped)."""
    stats = new_stats()

    def found():
        return any(f.get("key") is None for f in extra.failures)
    for height in (2, 3):
        for mask in range(1, 2 ** height):
            none_at = [k for k in range(height) if mask >> k & 1]
            for mods in ([1], [2], [2, 1]):
                cells, xmax = ladder(height, 3, none_at, mods)
                uni = universe(cells, xmax)
                vals, preds, failed = survey(cells, [], xmax)
                tops = [n for n in uni if n[1] == xmax] + [n for n in uni if vals.get(n, 0) is None][:3]
                tlists = [[t] for t in tops] + [[tops[-1], u] for u in tops[:-1]]
                for ts in tlists:
                    needed = len(closure(preds, ts, set()))
                    for size in range(1, needed + 2):
                        run_case(case_of(cells, xmax, [], ts, size), extra, stats, [])
                        if found():
                            return
    for ci in range(ctx.n(60, 600)):
        rng = ctx.rng("search", ci)
        cells, xmax, uni, inputs = gen_config(rng, False)
        add_nones(rng, cells, p_prog=1.0)
        vals, preds, failed = survey(cells, [((n[0], n[1]), v) for n, v in inputs], xmax)
        inset = {(n[0], n[1]) for n, _ in inputs}
        for ti in range(2):
            ts = gen_targets(rng, uni, preds, inset)
            if ts is None or any(t in failed for t in ts):
                break
            for size in range(1, len(closure(preds, ts, inset)) + 2):
                run_case(case_of(cells, xmax, inputs, ts, size), extra, stats, [])
                if found():
                    return


def replay_case(c, out, stats, jobs):
    if "actions" in c:
        run_random_actions(c, out, stats, jobs)
    else:
        run_case(c, out, stats, jobs)


def replay(ctx, payload, out):
    h = payload.get("history")
    if not h:
        un = payload.get("unexplained") or []
        for u in un:
            if u.get("kind") == "correspondence":
                h = u["detail"]["history"]
    if not h:
        return
    stats = new_stats()
    jobs = []
    replay_case(h, out, stats, jobs)
    flush_model(jobs, out)
