"""C05 – a failed evaluation leaves a consistent, retryable state.

Correspondence: eval results (error kind included), held values, trace graph and stack
emptiness against the Lean mechanism model after every op.
Oracle (implementation only, own replay): after every failing top-level call – the error is
a FormulaError carrying the original exception; call stack, index stack and reference stack
are empty and nothing is marked executing; no element of the chain that was executing (taken
from the Python traceback of the original exception, not from modelx's bookkeeping) holds a
value; everything held before is still held with the same value; and every later
evaluation returns what it returns in a run of the same history with the failing calls
left out.
"""
import re

from .. import exec_props as X
from ..execworld import ExecImpl, node_s, val_s
from ..impl import mx, quiet, err_kind
from ..shadow import real_chain
from modelx.core.errors import FormulaError

CFG = {
    "weights": {"eval": 9, "reeval": 2, "set": 0.5, "clearat": 0.6, "clear": 0.3, "clearall": 0.1},
    "compare": ["values", "graph", "quiescent"],
    "maxdepths": [None, None, 5, 8, 12],
    "raise_p": 0.10, "none_p": 0.08, "catch_all_p": 0.0,
    "rule": "random programs with raise / None / wrong-arity / depth-limit failure points (kinds Value, Key, "
            "ZeroDiv, Type, KeyboardInterrupt, NoneReturned, Deep) at any depth, try/except of specific kinds; "
            "histories of 8-16 queries and value edits; non-trivial = a failure of chain length >= 2 followed "
            "by a successful evaluation",
}


documented_allow_none = X.documented_allow_none


def none_rule(case, impl, out, stats, hist):
    """'returning None where it is not allowed' is a failure: no cached cells may hold a computed None unless the
    nearest allow_none setting allows it"""
    for x in impl.observe("values").split()[1:]:
        node, v = x.split("=")
        if v == "NC":
            cid = int(node.split("[")[0])
            stats["oracle_computed_none_held"] += 1
            if not documented_allow_none(case, cid):
                out.fail("%s holds a computed None although None is not allowed there (allow_none cells/space/model = "
                         "%s/%s/%s)" % (node, next(c for c in case["cells"] if c["id"] == cid).get("allow_none"),
                                        case["cells"][0].get("an_space"), case["cells"][0].get("an_model", False)), hist)
                return


def oracle(case, recs, out, stats):
    impl = ExecImpl(case["cells"], case["refs"], case["n_rn"], case["maxdepth"], log=False)
    nontrivial = False
    chain_failed = False
    try:
        ex = impl.ex
        for k, op in enumerate(case["ops"]):
            if op[0] != "eval":
                impl.apply(op)
                continue
            before = impl.observe("values").split()[1:]
            c = impl.cells[int(op[1])]
            args = [None if a == "N" else int(a) for a in op[2:]]
            hist = X.case_json(dict(case, ops=case["ops"][:k + 1]))
            with quiet():
                try:
                    c(*args)
                    if chain_failed:
                        nontrivial = True
                    none_rule(case, impl, out, stats, hist)
                    continue
                except FormulaError:
                    orig = mx.get_error()
                    if type(orig).__name__ == "NoneReturnedError":
                        stats["oracle_none_returned_errors"] += 1
                        # the failure point is named by the error itself (the formula frame of the element that
                        # returned None is gone when _store_value raises, so the traceback does not show it)
                        mm = re.search(r"\.c(\d+)\(", str(orig))
                        if mm and documented_allow_none(case, int(mm.group(1))):
                            out.fail("NoneReturnedError for %s although the nearest allow_none setting allows None"
                                     % str(orig), hist)
                except TypeError:
                    continue       # wrong arity at top level: rejected before anything runs
                except BaseException as e:
                    out.fail("top-level call raised %s instead of FormulaError" % type(e).__name__, hist)
                    continue
            stats["oracle_failures_examined"] += 1
            if orig is None:
                out.fail("FormulaError without an original exception (get_error() is None)", hist)
                continue
            if len(ex.callstack) or len(ex.callstack.idxstack) or ex.callstack.counter or len(ex.refstack):
                out.fail("executor not quiescent after a failure: stack=%d idx=%d counter=%d refstack=%d" % (
                    len(ex.callstack), len(ex.callstack.idxstack), ex.callstack.counter, len(ex.refstack)), hist)
            if ex.is_executing:
                out.fail("is_executing still set after a failure", hist)
            chain = real_chain(orig)
            if len(chain) >= 2:
                chain_failed = True
            after = impl.observe("values").split()[1:]
            held = {x.split("=")[0] for x in after}
            for cid, key, _ in chain:
                if impl.cells[cid]._impl.is_cached and node_s(cid, key) in held and not any(
                        x.startswith(node_s(cid, key) + "=") and x.endswith("I") for x in after):
                    out.fail("element %s of the failing chain holds a value after the failure" % node_s(cid, key), hist)
            missing = [x for x in before if x not in after]
            if missing:
                out.fail("values held before the failed call are gone or changed: %s" % missing[:3], hist)
    finally:
        impl.close()
    # later evaluations as if the failure had not happened
    failing = {k for k, r in enumerate(recs) if r["op"][0] == "eval" and r["impl"].startswith("err Formula")}
    if failing and len(failing) < len(recs):
        keep = [k for k in range(len(recs)) if k not in failing]
        impl2 = ExecImpl(case["cells"], case["refs"], case["n_rn"], case["maxdepth"], log=False)
        try:
            for k in keep:
                r = impl2.apply(case["ops"][k])
                if recs[k]["op"][0] == "eval" and r != recs[k]["impl"]:
                    # a shorter history can only differ through the recursion limit (chains
                    # shortened by values cached during the removed, partially successful calls)
                    if "Deep" in r or "Deep" in recs[k]["impl"]:
                        continue
                    out.fail("eval %s returns %s after earlier failures but %s when they never happened" % (
                        " ".join(recs[k]["op"][1:]), recs[k]["impl"], r),
                        X.case_json(dict(case, ops=case["ops"][:k + 1])))
        finally:
            impl2.close()
    return nontrivial


def run(ctx, out):
    X.run_family(ctx, out, CFG, oracle, 150, 2500)
    out.assumptions.append("'does not crash the interpreter' is a CPython C-stack fact: exercised (depth-limit cases), not proved")


def replay(ctx, payload, out):
    X.replay_family(ctx, payload, out, CFG, oracle)
