"""C05 – a failed evaluation leaves a consistent, retryable state.

Correspondence: eval results (error kind included), held values, trace graph and stack
emptiness against the Lean mechanism model after every op.
The recursion limit is an observable (`mx.get_recursion()` against the model's `Env.maxdepth` after every op);
histories change it (`maxdepth n`) and interleave administrative calls (`admin …`, see execworld) that the model
treats as the identity.
Oracle (implementation only, own replay): the limit in force is the one configured last (the harness' own
record of the history); formulas never nest deeper than limit + 1, and a DeepReferenceError arises exactly at
that depth; every evaluation returns what it returns in a run of the same history WITHOUT the administrative
calls.  After every failing top-level call – the error is
a FormulaError carrying the original exception; call stack, index stack and reference stack
are empty and nothing is marked executing; no element of the chain that was executing (taken
from the Python traceback of the original exception, not from modelx's bookkeeping) holds a
value; everything held before is still held with the same value; and every later
evaluation returns what it returns in a run of the same history with the failing calls
left out.
"""
import re

from .. import exec_props as X
from ..execworld import ExecImpl, node_s, val_s
from ..impl import mx, quiet, err_kind
from ..shadow import real_chain
from .. import c05_argfail
from modelx.core.errors import FormulaError

CFG = {
    "weights": {"eval": 9, "reeval": 2, "set": 0.6, "clearat": 0.6, "clear": 0.3, "clearall": 0.15,
                "admin": 1.6, "maxdepth": 0.7, "setformula": 0.4},
    "compare": ["values", "graph", "quiescent", "maxdepth"],
    "maxdepths": [None, None, 5, 8, 12, 4, 6],
    "raise_p": 0.10, "none_p": 0.08, "catch_all_p": 0.0,
    # cells that fail whatever the arguments / for some arguments, most of them AFTER having obtained the value of a lower
    # cells; callers that handle the failure of a callee: with a default, or by TRANSLATING it (a new exception object)
    "fail_cell_p": 0.2, "after_call_p": 0.6, "handled_seq_p": 0.3, "trx_p": 0.4,
    "rule": "random programs with raise / None / wrong-arity / depth-limit failure points (kinds Value, Key, "
            "ZeroDiv, Type, KeyboardInterrupt, NoneReturned, Deep) at any depth, try/except of specific kinds; "
            "histories of 8-16 queries and value edits, interleaved with changes of the recursion limit "
            "(mx.set_recursion, raised and lowered between evaluations) and administrative calls that must leave "
            "evaluation alone (stack-trace sessions, get_recursion / get_error / get_traceback, setting the limit "
            "to the value it has); scenario families: limit x chain just below / at / above it x administrative call "
            "sequence; every assignment of allow_none to cells / space / model x a formula returning None; non-trivial = a failure of chain length >= 2 followed by a successful evaluation",
}


documented_allow_none = X.documented_allow_none


def none_rule(case, impl, out, stats, hist):
    """'returning None where it is not allowed' is a failure: no cached cells may hold a computed None unless the
    nearest allow_none setting allows it"""
    for x in impl.observe("values").split()[1:]:
        node, v = x.split("=")
        if v == "NC":
            cid = int(node.split("[")[0])
            stats["oracle_computed_none_held"] += 1
            if not documented_allow_none(case, cid):
                out.fail("%s holds a computed None although None is not allowed there (allow_none cells/space/model = "
                         "%s/%s/%s)" % (node, next(c for c in case["cells"] if c["id"] == cid).get("allow_none"),
                                        case["cells"][0].get("an_space"), case["cells"][0].get("an_model", False)), hist)
                return


REPAIRS = ("set", "clearat", "clear", "clearall", "setformula", "setcached")


def graph_rule(impl, out, stats, hist):
    """whatever failed before: the element nodes of the dependency graph are exactly the elements holding a value (a
    failed element has neither), object nodes belong to uncached cells"""
    stats["oracle_graph_checks"] += 1
    held = {x.split("=")[0] for x in impl.observe("values").split()[1:]}
    g = impl.observe("graph")
    nodes = set(g[len("graph nodes "):].split(" edges")[0].split())
    elems = {n for n in nodes if not n.endswith("*")}
    if elems != held:
        out.fail("graph element nodes differ from the elements holding a value: only in the graph %s, only held %s" % (
            sorted(elems - held)[:3], sorted(held - elems)[:3]), hist)
        return False
    return True


def depth_rule(impl, limit, out, stats, hist, deep_chain):
    """the configured limit is enforced, and only it: formulas never nest deeper than limit + 1 (CallStack.append
    refuses a push when more than `limit` formulas are executing), and a DeepReferenceError arises exactly there"""
    stats["oracle_depth_checks"] += 1
    if impl.maxnest > limit + 1:
        out.fail("formulas were nested %d deep although the recursion limit is configured to %d" % (
            impl.maxnest, limit), hist)
    if deep_chain is not None and deep_chain != limit + 1:
        out.fail("DeepReferenceError with %d formulas executing although the recursion limit is configured to %d" % (
            deep_chain, limit), hist)


def without_admin(case, recs, out, stats):
    """administrative calls are no-ops for evaluation: the same history without them gives the same results"""
    idx = [k for k, op in enumerate(case["ops"]) if op[0] != "admin"]
    if len(idx) == len(case["ops"]):
        return
    impl = ExecImpl(case["cells"], case["refs"], case["n_rn"], case["maxdepth"], log=False)
    try:
        for k in idx:
            r = impl.apply(case["ops"][k])
            stats["oracle_admin_free_ops"] += 1
            if k < len(recs) and r != recs[k]["impl"]:
                out.fail("%s returns %s in the history with administrative calls (stack-trace sessions, read-backs) "
                         "but %s without them" % (" ".join(case["ops"][k]), recs[k]["impl"], r),
                         X.case_json(dict(case, ops=case["ops"][:k + 1])))
                return
        if idx and idx[-1] < len(recs):
            a, b = impl.observe("values"), recs[-1]["obs"]["values"][0]
            if a != b:
                out.fail("held values differ from the history without administrative calls: %s vs %s" % (b, a),
                         X.case_json(case))
    finally:
        impl.close()


def oracle(case, recs, out, stats):
    # log=True: the harness function every formula calls first measures how deep the formulas are nested
    impl = ExecImpl(case["cells"], case["refs"], case["n_rn"], case["maxdepth"], log=True)
    nontrivial = False
    chain_failed = False
    graph_ok = True
    limit = case["maxdepth"] if case["maxdepth"] else 100000     # the limit as the history configured it
    try:
        ex = impl.ex
        for k, op in enumerate(case["ops"]):
            if k and graph_ok:
                graph_ok = graph_rule(impl, out, stats, X.case_json(dict(case, ops=case["ops"][:k])))
            if op[0] != "eval":
                r = impl.apply(op)
                if op[0] in REPAIRS and r.split()[:2] in (["err", "Key"], ["err", "Index"], ["err", "Assertion"]):
                    out.fail("%s raised %s out of the library after earlier failed evaluations" % (" ".join(op), r.split()[1]),
                             X.case_json(dict(case, ops=case["ops"][:k + 1])))
                if op[0] == "maxdepth":
                    limit = int(op[1])
                if op[0] in ("maxdepth", "admin"):
                    stats["oracle_limit_checks"] += 1
                    if mx.get_recursion() != limit:
                        out.fail("the recursion limit was configured to %d but get_recursion() reports %d after %s" % (
                            limit, mx.get_recursion(), " ".join(op)), X.case_json(dict(case, ops=case["ops"][:k + 1])))
                        limit = mx.get_recursion()      # report once, then follow the implementation
                continue
            before = impl.observe("values").split()[1:]
            impl.maxnest = 0
            c = impl.cells[int(op[1])]
            args = [None if a == "N" else int(a) for a in op[2:]]
            hist = X.case_json(dict(case, ops=case["ops"][:k + 1]))
            with quiet():
                try:
                    c(*args)
                    if chain_failed:
                        nontrivial = True
                    none_rule(case, impl, out, stats, hist)
                    depth_rule(impl, limit, out, stats, hist, None)
                    continue
                except FormulaError:
                    orig = mx.get_error()
                    if type(orig).__name__ == "NoneReturnedError":
                        stats["oracle_none_returned_errors"] += 1
                        # the failure point is named by the error itself (the formula frame of the element that
                        # returned None is gone when _store_value raises, so the traceback does not show it)
                        mm = re.search(r"\.c(\d+)\(", str(orig))
                        if mm and documented_allow_none(case, int(mm.group(1))):
                            out.fail("NoneReturnedError for %s although the nearest allow_none setting allows None"
                                     % str(orig), hist)
                except TypeError:
                    continue       # wrong arity at top level: rejected before anything runs
                except BaseException as e:
                    out.fail("top-level call raised %s instead of FormulaError" % type(e).__name__, hist)
                    continue
            stats["oracle_failures_examined"] += 1
            if orig is None:
                out.fail("FormulaError without an original exception (get_error() is None)", hist)
                continue
            if len(ex.callstack) or len(ex.callstack.idxstack) or ex.callstack.counter or len(ex.refstack):
                out.fail("executor not quiescent after a failure: stack=%d idx=%d counter=%d refstack=%d" % (
                    len(ex.callstack), len(ex.callstack.idxstack), ex.callstack.counter, len(ex.refstack)), hist)
            if ex.is_executing:
                out.fail("is_executing still set after a failure", hist)
            chain = real_chain(orig)
            if len(chain) >= 2:
                chain_failed = True
            depth_rule(impl, limit, out, stats, hist, len(chain) if err_kind(orig) == "Deep" else None)
            after = impl.observe("values").split()[1:]
            held = {x.split("=")[0] for x in after}
            for cid, key, _ in chain:
                if impl.cells[cid]._impl.is_cached and node_s(cid, key) in held and not any(
                        x.startswith(node_s(cid, key) + "=") and x.endswith("I") for x in after):
                    out.fail("element %s of the failing chain holds a value after the failure" % node_s(cid, key), hist)
            missing = [x for x in before if x not in after]
            if missing:
                out.fail("values held before the failed call are gone or changed: %s" % missing[:3], hist)
        if graph_ok:
            graph_rule(impl, out, stats, X.case_json(case))
    finally:
        impl.close()
    without_admin(case, recs, out, stats)
    # later evaluations as if the failure had not happened
    failing = {k for k, r in enumerate(recs) if r["op"][0] == "eval" and r["impl"].startswith("err Formula")}
    if failing and len(failing) < len(recs):
        keep = [k for k in range(len(recs)) if k not in failing]
        impl2 = ExecImpl(case["cells"], case["refs"], case["n_rn"], case["maxdepth"], log=False)
        try:
            for k in keep:
                r = impl2.apply(case["ops"][k])
                if recs[k]["op"][0] in REPAIRS and r != recs[k]["impl"] and not ("Deep" in r or "Deep" in recs[k]["impl"]):
                    out.fail("%s answers %s after earlier failed evaluations but %s when they never happened" % (
                        " ".join(recs[k]["op"]), recs[k]["impl"], r), X.case_json(dict(case, ops=case["ops"][:k + 1])))
                if recs[k]["op"][0] == "eval" and r != recs[k]["impl"]:
                    # a shorter history can only differ through the recursion limit (chains
                    # shortened by values cached during the removed, partially successful calls)
                    if "Deep" in r or "Deep" in recs[k]["impl"]:
                        continue
                    out.fail("eval %s returns %s after earlier failures but %s when they never happened" % (
                        " ".join(recs[k]["op"][1:]), recs[k]["impl"], r),
                        X.case_json(dict(case, ops=case["ops"][:k + 1])),
                        key=KNOWN_CAUGHT if _default_after_edit(case, k) else None)
        finally:
            impl2.close()
    return nontrivial


def scenarios():
    """limit L x a recursion of depth L-1 / L / L+1 / L+4 (the last two exceed it: chain(x) needs x+1 nested
    formulas) x what happens between configuring the limit and the evaluation: nothing, each administrative call,
    a whole stack-trace session, the evaluation INSIDE a session, the limit lowered / raised / set again."""
    P0 = ("p", 0)
    chain = ("if", ("lt", ("lit", 0), P0), ("add", ("call", 0, [("sub", P0, ("lit", 1))]), ("lit", 1)), ("lit", 0))
    flavours = {"c": [True, True], "u": [False, True]}
    between = {
        "none": [],
        "session": [["admin", "start"], ["admin", "stop"]],
        "inside": [["admin", "start"]],
        "inside-get-clear": [["admin", "start"], ["admin", "get"], ["admin", "clear"]],
        "tracestack": [["admin", "tracestack"]],
        "stop-only": [["admin", "stop"]],
        "twice": [["admin", "start"], ["admin", "start"], ["admin", "stop"], ["admin", "stop"]],
        "reads": [["admin", "getrecursion"], ["admin", "geterror"], ["admin", "gettraceback"]],
        "setsame": [["admin", "setsame"]],
        "get-refused": [["admin", "get"], ["admin", "clear"]],
    }
    out = []
    for L in (4, 7):
        for fl, (c0, c1) in flavours.items():
            cells = [{"id": 0, "nparams": 1, "cached": c0, "allow_none": False, "body": chain},
                     {"id": 1, "nparams": 1, "cached": c1, "allow_none": False,
                      "body": ("add", ("call", 0, [P0]), ("lit", 100))}]
            for name, mid in between.items():
                ops = [["maxdepth", str(L)]] + [list(o) for o in mid]
                for x in (L + 1, L - 1, L, L + 4):
                    ops += [["eval", "0", str(x)], ["clear", "0"]]
                # through a second cells (one more frame), after another administrative round, and after the limit moved
                ops += [["eval", "1", str(L - 1)], ["admin", "stop"], ["eval", "0", str(L + 2)], ["eval", "0", str(L - 2)],
                        ["maxdepth", str(L + 3)]] + [list(o) for o in mid] + [
                        ["eval", "0", str(L + 2)], ["eval", "0", str(L + 3)], ["clearall", "0"],
                        ["maxdepth", str(L - 2)], ["admin", "tracestack"], ["eval", "0", str(L - 2)],
                        ["eval", "0", str(L - 3)], ["admin", "stop"]]
                out.append({"cells": [dict(c) for c in cells], "refs": {0: 1, 1: 2, 2: 3, 3: 4}, "n_rn": 2,
                            "maxdepth": None, "ops": ops, "label": "limit/L=%d %s %s" % (L, fl, name)})
    # "returning None where it is not allowed": every assignment of allow_none to the three levels of the look-up
    # (cells -> space -> model; None = not set at that level) x a formula returning None below a caller
    for an_c in (None, True, False):
        for an_s in (None, True, False):
            for an_m in (False, True):
                cells = [{"id": 0, "nparams": 1, "cached": True, "allow_none": an_c, "body": ("none",),
                          "an_space": an_s, "an_model": an_m},
                         {"id": 1, "nparams": 1, "cached": True, "allow_none": None,
                          "body": ("if", ("call", 0, [P0]), ("lit", 1), ("lit", 2))},
                         {"id": 2, "nparams": 1, "cached": True, "allow_none": an_c,
                          "body": ("if", ("lt", ("lit", 0), P0), ("none",), ("call", 1, [P0]))}]
                ops = [["eval", "1", "1"], ["eval", "0", "1"], ["set", "0", "2", "=", "N"], ["eval", "1", "2"],
                       ["eval", "2", "0"], ["eval", "2", "3"], ["eval", "1", "1"]]
                out.append({"cells": cells, "refs": {0: 1, 1: 2, 2: 3, 3: 4}, "n_rn": 2, "maxdepth": None,
                            "ops": ops, "label": "allownone/cells=%s space=%s model=%s" % (an_c, an_s, an_m)})
    return out


def translation_scenarios():
    """Scenario family "a failure that a caller handles": base c0(x) = 3x, C = c1(x) = c0(x) + 1, B = c2 obtains C(x) and
    then raises (for every argument, or only when C(x) > 5: x >= 2), A = c3 calls B and lets the exception pass /
    re-raises it after a block (`except K: c0(x); raise`) / TRANSLATES it (`except K: raise K2(..)`, with and without
    `from e`: a new exception object leaves A) / swallows it (a default); T = c4 calls A and C.  B and A cached or
    uncached.  History: the failing request (twice: retry = the same), a request that succeeds, then a REPAIR - the
    input below the failed element changed, the failing formula replaced, values cleared - and everything asked again;
    then the failure provoked once more.  After every step: no failed element holds a value, graph nodes = held
    values, every edit goes through, re-evaluation = a run in which the failures never happened."""
    P0, L = ("p", 0), (lambda i: ("lit", i))
    callB, callC = ("call", 2, [P0]), ("call", 1, [P0])
    handlers = {
        "pass": callB,
        "reraise": ("tryre", callB, "k0", ("call", 0, [P0])),
        "translate": ("trx", callB, "k0", 1, 0),
        "translate-from": ("trx", callB, "k0", 3, 1),
        "translate-all-kinds": ("trx", ("trx", callB, "k0", 2, 1), "k2", 1, 0),
        "swallow": ("try", callB, "k0", L(-1)),
        "swallow-then-fail": ("add", ("try", callB, "k0", L(-1)), ("if", ("lt", L(2), P0), ("raise", 1), L(0))),
    }
    bodies_b = {"always": ("add", callC, ("raise", 0)),
                "some": ("if", ("lt", L(5), callC), ("raise", 0), ("add", callC, L(1)))}
    repairs = {
        "input": [["set", "0", "2", "=", "0"]],
        "input-above": [["set", "1", "2", "=", "1"]],
        "formula": [["setformula", "2", "(add (call 1 (p 0)) (lit 1000))"]],
        "clearall": [["clearall", "1"]],
        "clearat-base": [["clearat", "0", "2"]],
        "clear": [["clear", "1"], ["clear", "0"]],
    }
    out = []
    for hname, ha in handlers.items():
        for bname, bb in bodies_b.items():
            for (cb, ca) in ((True, True), (False, True), (True, False)):
                for rname, rep in repairs.items():
                    if bname == "always" and rname in ("input", "input-above") and hname not in ("translate", "swallow"):
                        continue        # nothing to repair by an input when B fails whatever C returns
                    cells = [
                        {"id": 0, "nparams": 1, "cached": True, "body": ("mul", P0, L(3))},
                        {"id": 1, "nparams": 1, "cached": True, "body": ("add", ("call", 0, [P0]), L(1))},
                        {"id": 2, "nparams": 1, "cached": cb, "body": bb},
                        {"id": 3, "nparams": 1, "cached": ca, "body": ha},
                        {"id": 4, "nparams": 1, "cached": True, "body": ("add", ("call", 3, [P0]), callC)},
                    ]
                    for c in cells:
                        c["allow_none"] = False
                    ask = [["eval", "4", "2"], ["eval", "3", "2"], ["eval", "2", "2"], ["eval", "1", "2"]]
                    ops = ([["eval", "4", "2"], ["eval", "4", "2"], ["eval", "4", "1"], ["eval", "3", "3"]] + rep + ask
                           + [["set", "0", "2", "=", "9"]] + ask + [["clearall", "0"]] + ask[:2])
                    out.append({"cells": cells, "refs": {0: 1, 1: 2, 2: 3, 3: 4}, "n_rn": 2, "maxdepth": None,
                                "ops": [list(o) for o in ops],
                                "label": "handled-failure/%s/B fails %s/B %s A %s/repair %s" % (
                                    hname, bname, "cached" if cb else "uncached", "cached" if ca else "uncached", rname)})
    return out


def python_level(out, stats):
    """Two histories outside the formula grammar (plain modelx): the SAME exception object raised by two successive
    evaluations; a formula that assigns its own element (`_space.w[x] = v`) and raises afterwards."""
    from ..impl import close_all
    close_all()
    with quiet():
        m = mx.new_model("P")
        s = m.new_space("S")
        m.E = ValueError("one exception object")
        s.new_cells("a", formula="def a(x):\n    raise E")
        s.new_cells("b", formula="def b(x):\n    return a(x) + 1")
        for i in (1, 2, 3):
            stats["python_level_scenarios"] += 1
            try:
                s.b(i)
                got = "no error"
            except FormulaError:
                got = "FormulaError" if mx.get_error() is m.E else "FormulaError carrying %r" % (mx.get_error(),)
            except BaseException as e:      # noqa: BLE001
                got = type(e).__name__
            if got != "FormulaError":
                out.fail("evaluation %d of a formula that raises one and the same exception object ended in %s instead of "
                         "FormulaError carrying it" % (i, got), {"scenario": "python-level"}, key=KNOWN_SHARED_EXC)
                break
        s.new_cells("w", formula="def w(x):\n    _space.w[x] = 42\n    raise ValueError('after assigning its own value')")
        try:
            s.w(1)
        except BaseException:               # noqa: BLE001
            pass
        stats["python_level_scenarios"] += 1
        if dict(s.w):
            out.fail("the element w(1) failed (its formula raised after `_space.w[x] = 42`) and holds the value %r; graph nodes: "
                     "%d" % (dict(s.w), len(m._impl.tracegraph.nodes)), {"scenario": "python-level"}, key=KNOWN_SELF_ASSIGN)
    close_all()


KNOWN_CAUGHT = "C05-caught-failure-untracked"


def _default_after_edit(case, k):
    """the trigger of C02-caught-failure-untracked seen from here: some formula handles a failure with a DEFAULT
    (`try: ... except K: <value>`: the value it then stores records no dependency on the callee that failed), a removed
    evaluation failed at the top but left such an element behind, and an edit before op k changed what the callee does"""
    from ..expr import subexprs, parse_sexp
    bodies = [c["body"] for c in case["cells"]]
    bodies += [parse_sexp(" ".join(op[2:])) for op in case["ops"][:k] if op[0] == "setformula"]
    has_default = any(e[0] == "try" and e[3][0] != "raise" for b in bodies for e in subexprs(b))
    return has_default and any(op[0] in REPAIRS for op in case["ops"][:k])


KNOWN_SHARED_EXC = "C05-shared-exception-object"
KNOWN_SELF_ASSIGN = "C05-own-assignment-then-failure"


ARGFAIL_ASPECTS = ("carry", "traceback", "state", "retry")
ARGFAIL_RULE = ("; family arg-failure (plain modelx, harness/mxh/c05_argfail.py): a callee, cached or uncached, called with an "
                "int / str / tuple / list / dict / set (unhashable kinds: uncached callee) fails itself or through 1-3 cells below "
                "it (every cached/uncached assignment), called directly, by a cached and by an uncached caller that builds the "
                "argument, with eight exception kinds; histories of failing calls, the same calls with arguments that do not "
                "fail, retries; oracle from the definitions alone: FormulaError carrying the original exception, a usable "
                "traceback listing the executing chain, quiescent executor, no failed element held, held values and graph "
                "nodes right, results equal to a fresh model's")


def run(ctx, out):
    sc = translation_scenarios()
    if ctx.tier != "thorough":
        # quick: every handler x B x flags with a rotating third of the repairs (which: by the seed)
        sc = [c for i, c in enumerate(sc) if (i + ctx.seed) % 3 == 0]
    stats = X.run_family(ctx, out, CFG, oracle, 150, 2500, structured=scenarios() + sc)
    python_level(out, stats)
    out.coverage["input_distribution"]["python_level_scenarios"] = stats["python_level_scenarios"]
    # failures below arguments of every kind: callee cached / uncached x int, str, tuple, list, dict, set x failure 0..3
    # cells below x every cached/uncached assignment there x direct call / cached caller / uncached caller x exception kinds
    c05_argfail.run_all(ctx, out, stats, "C05", ARGFAIL_ASPECTS, n_random=ctx.n(30, 600))
    for k in sorted(stats):
        if k.startswith("argfail"):
            out.coverage["input_distribution"][k] = stats[k]
    out.coverage["rule"] += ARGFAIL_RULE
    out.assumptions.append("'does not crash the interpreter' is a CPython C-stack fact: exercised (depth-limit cases), not proved")


def replay(ctx, payload, out):
    import collections
    h = payload.get("history") or {}
    if isinstance(h, dict) and h.get("scenario") == "python-level":
        python_level(out, collections.Counter())
        return
    if isinstance(h, dict) and h.get("scenario") == c05_argfail.SCENARIO:
        c05_argfail.replay(h, out, "C05", ARGFAIL_ASPECTS)
        return
    X.replay_family(ctx, payload, out, CFG, oracle)
