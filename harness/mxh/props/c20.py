"""C20 - formula capture is faithful and idempotent; rename and doc edits are inert.

Generator: a grammar of definition layouts (structures, not texts): indentation (spaces, tabs),
leading comment/blank lines, decorators (one-line, multi-line, with comments and blank lines
between them), gap lines, `def` spacing, signatures with annotations/defaults over one or
several lines, block and one-line bodies, docstrings in every quote style over one or several
lines, bodies built from nested defs (plain and decorated), nested classes with @property /
@staticmethod, lambdas, comprehensions, multi-line expressions, backslash continuations,
multi-line strings, control flow, comments at odd columns, trailing and last-line comments; and
lambda expressions embedded in assignments, calls and containers, over one or several lines.

Correspondence: the structure is sent to the Lean model `MxModel.Capture` (theorems in
Props/C20.lean); the model renders the text (that text is what modelx is given), predicts the
token layout (compared with what CPython/asttokens report - the only thing the theorems
assume about the parser), `cells.formula.source`, `cells.parameters`, `cells.doc` after
creation, rename, set_doc (with and without insert_indents), formula override, along an
inheritance chain Base <- Sub <- SubSub.  The same for function and lambda OBJECTS imported
from generated module files.

Oracle (implementation only): source is a fixed point of re-creation; the cells' values equal
the plain Python function's on sample arguments; exec(source) defines a function of the cells'
name with those values; rename changes nothing but the name token (also for cells that
override an inherited cells when the base cells is renamed); set_doc changes nothing but the
docstring statement and the docstring reads back as given - for every text (quotes, backslashes, control
characters, line boundaries), every body layout (block, one-line, docstrings of several tokens).
`quote_docstring` itself is compared with the model's `quoteDocstring` character by character on generated
strings, and the literal it returns is evaluated by CPython (must be the string) and by the model's lexer.
"""
import ast
import importlib.util
import inspect
import io
import os
import shutil
import sys
import tempfile
import textwrap
import token as token_mod
import tokenize

from .. import core
from ..impl import mx, close_all, quiet, err_kind

import asttokens

G_VALUE = 10
NS_PRELUDE = (
    "G = %d\n"
    "deco = lambda f: f\n"
    "def deco2(*a, **k):\n    return lambda f: f\n"
    "class mod:\n    deco = staticmethod(lambda *a, **k: (lambda f: f))\n"
    "def wrap(*a, **k):\n    return [v for v in list(a) + list(k.values()) if callable(v)][0]\n" % G_VALUE)



# ----------------------------------------------------------------------------- protocol

def _needs_u(ch):
    o = ord(ch)
    return o < 32 or 127 <= o < 160 or o in (0x2028, 0x2029)


def esc(s):
    s = s.replace("\\", "\\\\").replace("\n", "\\n").replace("\t", "\\t").replace("\r", "\\r")
    if any(_needs_u(ch) for ch in s):
        s = "".join("\\u%04x" % ord(ch) if _needs_u(ch) else ch for ch in s)
    return s


def unesc(s):
    out, i = [], 0
    while i < len(s):
        c = s[i]
        if c == "\\" and i + 1 < len(s):
            n = s[i + 1]
            if n == "u" and i + 5 < len(s) + 0 and all(h in "0123456789abcdefABCDEF" for h in s[i + 2:i + 6]) \
                    and len(s[i + 2:i + 6]) == 4:
                out.append(chr(int(s[i + 2:i + 6], 16)))
                i += 6
                continue
            out.append({"n": "\n", "t": "\t", "r": "\r", "\\": "\\"}.get(n, n))
            i += 2
        else:
            out.append(c)
            i += 1
    return "".join(out)


def ftext(lines):
    return esc("".join(l + "\n" for l in lines))


# ----------------------------------------------------------------------------- structures

class DefCase:
    kind = "def"

    def __init__(self):
        self.pre = ""
        self.lead = []
        self.decos = []
        self.gap = []
        self.defkw = "def "
        self.name = "foo"
        self.sig = "(x):"
        self.body = "block"
        self.sm = []
        self.cmts = []
        self.ind = "    "
        self.doc = None          # (opn, [content lines], cls)
        self.after = ""
        self.rest = []
        self.trail = []
        self.pnames = ["x"]
        self.features = set()
        self.string_sensitive = False   # a string literal (not the docstring) spans lines

    def fields(self):
        d = self.doc
        return [esc(self.pre), ftext(self.lead), ftext(self.decos), ftext(self.gap), esc(self.defkw),
                esc(self.name), esc(self.sig), self.body, ftext(self.sm), ftext(self.cmts), esc(self.ind),
                "1" if d else "0", esc(d[0]) if d else "", ftext(d[1]) if d else "", esc(d[2]) if d else "",
                esc(self.after), ftext(self.rest), ftext(self.trail), ftext(self.pnames)]

    def op(self, *head):
        return "\t".join(list(head) + self.fields())

    def to_json(self):
        d = dict(self.__dict__)
        d["features"] = sorted(self.features)
        d["kind"] = "def"
        return d

    @staticmethod
    def from_json(d):
        c = DefCase()
        for k, v in d.items():
            if k == "features":
                c.features = set(v)
            elif k == "doc" and v is not None:
                c.doc = (v[0], list(v[1]), v[2])
            elif k != "kind":
                setattr(c, k, v)
        return c


class LamCase:
    kind = "lam"

    def __init__(self):
        self.pre = ""
        self.lead = []
        self.pfx = ""
        self.lam = ["lambda x: x"]
        self.sfx = ""
        self.trail = []
        self.pnames = ["x"]
        self.features = set()
        self.string_sensitive = False
        self.name = "lam"

    def fields(self):
        return [esc(self.pre), ftext(self.lead), esc(self.pfx), ftext(self.lam), esc(self.sfx),
                ftext(self.trail), ftext(self.pnames)]

    def op(self, *head):
        return "\t".join(list(head) + self.fields())

    def to_json(self):
        d = dict(self.__dict__)
        d["features"] = sorted(self.features)
        d["kind"] = "lam"
        return d

    @staticmethod
    def from_json(d):
        c = LamCase()
        for k, v in d.items():
            if k == "features":
                c.features = set(v)
            elif k != "kind":
                setattr(c, k, v)
        return c


class RawCase:
    """a literal text outside the model's grammar (implementation-only oracle)"""
    kind = "raw"

    def __init__(self, text, name, pnames):
        self.text = text
        self.name = name
        self.pnames = list(pnames)
        first = [l for l in text.split("\n") if l.strip()][0]
        self.pre = first[:len(first) - len(first.lstrip(" \t"))]
        self.features = {"raw_text"}
        self.string_sensitive = False

    def to_json(self):
        return {"kind": "raw", "text": self.text, "name": self.name, "pnames": self.pnames}


def case_from_json(d):
    if d.get("kind") == "raw":
        return RawCase(d["text"], d["name"], d["pnames"])
    return DefCase.from_json(d) if d.get("kind") == "def" else LamCase.from_json(d)


# ----------------------------------------------------------------------------- generator

NAMES = ["foo", "f", "calc_1", "Bar", "qux"]
NEWNAMES = ["bar", "renamed_2", "g", "Foo", "zeta"]


def gen_sig(rng, c, block):
    """signature text after the name; sets pnames; returns (sig, sigMore)"""
    has_y = rng.random() < 0.6
    has_z = rng.random() < 0.2
    ps = [rng.choice(["x", "x", "x: int", "x :int"])]
    names = ["x"]
    if has_y:
        ps.append(rng.choice(["y=2", "y = 2", "y: int = 2", "y: 'int'=2", "y=(1, 2)[1]", "y=len('ab')"]))
        names.append("y")
    if has_z:
        ps.append(rng.choice(["z='s'", 'z: str = "a, b)"', "z=None", "z=('k', 1)"]))
        names.append("z")
    c.pnames = names
    ret = rng.choice(["", "", "", " -> int", " ->int", "->'r'"])
    space = rng.choice(["", "", "", " "])
    if block and len(ps) > 1 and rng.random() < 0.3:
        c.features.add("multiline_sig")
        style = rng.randrange(4)
        if style == 0:
            return space + "(" + ps[0] + ",", ["        " + ", ".join(ps[1:]) + ")" + ret + ":"]
        if style == 1:
            return space + "(", ["    " + p + "," for p in ps] + [")" + ret + ":  # sig end"]
        if style == 2:   # continuation at the column of `def`
            return space + "(" + ps[0] + ",  # first", [", ".join(ps[1:]), ")" + ret + ":"]
        return space + "(" + ps[0] + ",", ["", "      # comment in signature", "  " + ", ".join(ps[1:]) + ")" + ret + ":"]
    sep = rng.choice([", ", ",", " , "])
    inner = sep.join(ps)
    if rng.random() < 0.15:
        inner = " " + inner + " "
    return space + "(" + inner + ")" + ret + ":", []


DOC_WORDS = ["Summary line", "Compute it's value", 'say "hi"', "a # b @c def lambda", "caf\u00e9", "x" * 3, ""]


def gen_doc(rng, c, block):
    """(opn, content lines, cls)"""
    style = rng.randrange(9)
    first = rng.choice(DOC_WORDS)
    if rng.random() < 0.15:
        # a docstring of several tokens: implicit concatenation, parentheses, over one or several lines
        # (structure: opn = up to and including the first quote, cls = from the last quote on)
        c.features.add("doc_compound")
        k = rng.randrange(5 if block else 3)
        a, b = first.replace("'", "").replace('"', ""), rng.choice(DOC_WORDS).replace("'", "").replace('"', "")
        if k == 0:
            return ("'", [a + "' " + rng.choice(["", " ", "r"]) + '"' + b], '"')
        if k == 1:
            return ("('", [a], "')")
        if k == 2:
            return ("( '", [a + "' '" + b], "' )")
        if k == 3:
            return ("('", [a + "'", "", "# comment inside", "  '" + b], "')")
        return ('"', [a + '" \\', c.ind + "  '" + b], "'")
    if not block or style < 3:
        q, pfx = rng.choice([('"', ""), ("'", ""), ("'", "u"), ('"', "r"), ('"""', ""), ("'''", ""), ('"""', "R")])
        txt = first.replace(q[0], "")
        if pfx in ("r", "R") and rng.random() < 0.5:
            txt += " \\d raw"
        c.features.add("doc_" + pfx + q)
        return (pfx + q, [txt], q)
    q = rng.choice(['"""', "'''"])
    pfx = rng.choice(["", "", "", "r", "U"])
    txt = first.replace(q[0] * 3, "")
    lines = [txt]
    n = rng.randrange(1, 4)
    for _ in range(n):
        k = rng.randrange(6)
        if k == 0:
            lines.append("")
        elif k == 1:
            lines.append(rng.choice(["   ", "\t", " "]))
            c.features.add("doc_wsonly_line")
        elif k == 2:
            lines.append("at def level " + rng.choice(DOC_WORDS).replace(q[0] * 3, ""))
        else:
            lines.append(c.ind + rng.choice(["", "  ", "    "]) + rng.choice(DOC_WORDS).replace(q[0] * 3, "").strip())
    last = rng.choice([c.ind, c.ind, "", c.ind + "end.", "end"])
    lines.append(last)
    c.features.add("doc_multiline")
    return (pfx + q, lines, q)


def body_templates(rng, c, U, has_y):
    """list of (name, lines); a line is (text, raw) - raw lines are relative to `def`, the others
    to the body indentation.  Every template assigns `r`."""
    T = []

    def L(*xs):
        return [(x, False) for x in xs]

    T.append(("simple", L("r = x * 2 + G")))
    T.append(("nested_def", L("def inner(a):", U + "return a + 1", "r = inner(x)")))
    T.append(("nested_def_doc", L("def inner(a):", U + "'''inner doc'''", U + "def deeper(b): return b * 2",
                                  U + "return deeper(a) + 1", "r = inner(x)")))
    T.append(("nested_decorated_def", L("def twice(f):", U + "return lambda v: 2 * f(v)", "", "@twice",
                                        "def g(v):", U + "return v + 1", "r = g(x)")))
    T.append(("nested_decorated_multiline", L("def add(n,", U + U + "m=0):", U + "return lambda f: (lambda v: f(v) + n + m)",
                                              "@add(1,", "     m=2)", "# comment between", "@add(3)",
                                              "def g(v): return v", "r = g(x)")))
    T.append(("nested_class", L("class Rect:", U + "'''class doc'''", U + "def __init__(self, w):", U + U + "self.w = w", "",
                                U + "@property", U + "def area(self):", U + U + "return self.w * 3", U + "@staticmethod",
                                U + "def unit():", U + U + "return 1", "r = Rect(x).area + Rect.unit()")))
    T.append(("lambda", L("h = lambda a, b=2: a * b", "r = h(x) + (lambda: 1)()")))
    T.append(("comprehensions", L("r = sum([i * x for i in range(3) if i != 1])", "r += len({i: i for i in range(x)})",
                                  "r += sum(i for i in (1, 2))", "r += len({i % 2 for i in range(x)})")))
    T.append(("multiline_expr", L("r = (x +") + [("      1 +", True), ("  2)", True)]))
    T.append(("multiline_col0", L("r = sum([") + [("x,", True), ("1,", True), ("# comment inside", True)] + L("])")))
    T.append(("multiline_call", L("r = max(x,", U + U + "1,", "    *[2, 3],", ")")))
    T.append(("backslash", L("r = x + \\", U + "1")))
    T.append(("control", L("if x > 1:", U + "r = x", "elif x == 1:", U + "r = 7", "else:", U + "r = -x",
                           "for i in range(2):", U + "r += i", "while r < 0:", U + "r += 5")))
    T.append(("try", L("try:", U + "r = 10 // x", "except ZeroDivisionError:", U + "r = -1", "finally:", U + "pass")))
    T.append(("with_comments", L("# a comment", "r = x") + [("# comment at def level", True), ("", True)]
              + L("r += 1  # trailing")))
    T.append(("blank_lines", L("r = x", "", "r += 2") + [("   ", True)] + L("r += 3")))
    T.append(("fstring", L("r = len(f\"{x}:{x + 1!r}\") + x")))
    T.append(("keywords_in_string", L("t = \"@deco def lambda ''' #\"", "r = len(t) + x")))
    T.append(("walrus_ternary", L("r = (w := x + 1) if x else 0", "r += w if x else 0")))
    T.append(("oneline_inner_def", L("def k(a): return a * 2", "r = k(x)")))
    T.append(("global_and_builtin", L("r = G + len(str(x)) + abs(-x)")))
    T.append(("dict_literal", L("d = {", U + "'a': x,", U + "'b': [1,", U + U + "2],", "}", "r = d['a'] + d['b'][1]")))
    if rng.random() < 0.3:
        # string literals that span lines: their text is what `dedent` reaches into
        k = rng.randrange(3)
        if k == 0:
            T.append(("multiline_string", L("t = '''a") + [("  b", True), ("      c'''", True)] + L("r = len(t) + x")))
        elif k == 1:
            T.append(("multiline_string_wsonly", L("t = \"\"\"a") + [("   ", True), ("b\"\"\"", True)] + L("r = len(t) + x")))
        else:
            T.append(("fake_def_in_string", L("t = '''") + [("@fake", True), ("def fake(): pass", True), ("'''", True)]
                      + L("r = x + len(t)")))
    return T


def gen_body(rng, c, has_y, min_templates=1):
    U = rng.choice(["    ", "  ", "\t", " "]) if "\t" not in c.ind else "\t"
    T = body_templates(rng, c, U, has_y)
    n = rng.choice([1, 1, 2, 2, 3])
    picks = [rng.choice(T) for _ in range(max(n, min_templates))]
    strings = [t for t in T if t[0].startswith("multiline_string") or t[0] == "fake_def_in_string"]
    if strings and rng.random() < 0.5:
        picks[rng.randrange(len(picks))] = strings[0]
    lines = []
    start_acc = rng.random() < 0.8 or picks[0][1][0][0].startswith("#")
    if start_acc:
        lines.append(("acc = 0", False))
    for i, (nm, ls) in enumerate(picks):
        c.features.add(nm)
        if nm.startswith("multiline_string") or nm == "fake_def_in_string":
            c.string_sensitive = True
        lines.extend(ls)
        if start_acc or i > 0:
            lines.append(("acc += r", False))
        else:
            lines.append(("acc = r", False))
        if rng.random() < 0.2:
            lines.append(rng.choice([("", True), ("# between", False), ("  ", True)]))
    ret = "return (acc, y)" if has_y and rng.random() < 0.7 else "return acc"
    if rng.random() < 0.3:
        ret += "  # done"
        c.features.add("last_line_comment")
    lines.append((ret, False))
    return [(t if raw else (c.ind + t if t.strip() else t)) for t, raw in lines]


def gen_def(rng, name=None, allow_string=True, force=None):
    c = DefCase()
    force = force or {}
    c.pre = force.get("pre", rng.choice(["", "", "", "    ", "  ", "\t", "        ", " "]))
    if c.pre:
        c.features.add("indented")
    c.name = name or rng.choice(NAMES)
    c.defkw = rng.choice(["def ", "def ", "def ", "def  ", "def\t"])
    if rng.random() < 0.4:
        c.lead = rng.choice([["# lead"], ["", "# lead comment", "   "], [""], ["# a", "# b"], ["#!x", ""]])
        c.features.add("lead")
    if rng.random() < 0.45:
        k = rng.randrange(7)
        c.decos = [["@deco"], ["@deco  # why"], ["@mod.deco(1, 'a')"], ["@deco2(1,", "       2)"],
                   ["@deco", "", "# between decorators", "@deco2()"], ["@deco2(", "x=1", ")  # end", "@deco"],
                   ["@ deco", "@deco2 (1)"]][k]
        c.features.add("decorators" + ("_multiline" if k in (3, 5) else ""))
        if rng.random() < 0.4:
            c.gap = rng.choice([[""], ["# gap"], ["", "   ", "# gap"]])
            c.features.add("gap")
    block = force.get("block", rng.random() < 0.8)
    c.body = "block" if block else "inline"
    sig, sm = gen_sig(rng, c, block)
    has_y = "y" in c.pnames
    if block:
        c.sig = sig + rng.choice(["", "", "  # sig comment", " "])
        c.sm = sm
        if sm:
            c.sig = sig
        tab = c.pre == "\t" or rng.random() < 0.08
        c.ind = "\t" if tab else rng.choice(["    ", "    ", "  ", " ", "        "])
        if rng.random() < 0.3:
            c.cmts = rng.choice([[c.ind + "# before first statement"], ["# at def level"], ["", c.ind + "# c"], ["  "]])
            c.features.add("comments_before_body")
        body = gen_body(rng, c, has_y)
        if not allow_string and c.string_sensitive:
            return gen_def(rng, name, allow_string, force)
        if rng.random() < 0.55:
            c.doc = gen_doc(rng, c, True)
            c.after = rng.choice(["", "", "", "  # after doc", " ;pass"])
            c.rest = body
            c.features.add("docstring")
        else:
            c.after = body[0][len(c.ind):]
            c.rest = body[1:]
        if rng.random() < 0.4:
            c.trail = rng.choice([[c.ind + "# trailing comment in body"], ["# trailing at def level"], ["", ""],
                                  ["", c.ind + "# t1", "# t2", "   "]])
            c.features.add("trailing")
    else:
        c.features.add("one_line_body")
        c.sig = sig + rng.choice([" ", " ", "", "  "])
        stmts = rng.choice(["return x + 1", "return (x, G)", "a = x; return a + G", "return (lambda a: a + 1)(x)",
                            "return [i for i in range(x)]", "return x  # comment"])
        if has_y:
            stmts = rng.choice(["return x + y", "return (x, y)", stmts])
        if rng.random() < 0.45:
            c.doc = gen_doc(rng, c, False)
            c.after = rng.choice(["; ", " ; ", ";"]) + stmts
            c.features.add("docstring")
        else:
            c.after = stmts
        if rng.random() < 0.3:
            c.trail = rng.choice([["# trailing at def level"], ["", ""]])
            c.features.add("trailing")
    return c


LAM_FORMS = [
    # (pfx, lam lines, sfx, pnames, expected-callable-args)
    ("", ["lambda x: x + 1"], "", ["x"]),
    ("f = ", ["lambda x, y=2: x * y + G"], "", ["x", "y"]),
    ("f = ", ["lambda x: x"], "  # comment", ["x"]),
    ("foo(1, ", ["lambda x: (x,", "   2)"], ", 3)", ["x"]),
    ("d = {'k': ", ["lambda x: [i for i in range(x)]"], "}", ["x"]),
    ("z = (", ["lambda x: x * 2"], ")(3)", ["x"]),
    ("t = (1, ", ["lambda x: (lambda y: y + x)(1)"], ")", ["x"]),
    ("y = [", ["lambda x: x - 1"], ", lambda b: b]", ["x"]),
    ("g = wrap(", ["lambda x, y=(1,", "", "      2): (x +", "  y[1] +", "        G)"], ")", ["x", "y"]),
    ("h = ", ["lambda x: {'a': x,", "    'b': 2}['a']"], "", ["x"]),
    ("return ", ["lambda x: x if x else -1"], "", ["x"]),
    ("obj.attr = wrap(0, key=", ["lambda x: 'x' * x"], ")", ["x"]),
    ("v = ", ["lambda x: '''a", "  b''' + str(x)"], "", ["x"]),
    ("f = ", ["lambda: 7"], "", []),
]


def gen_lam(rng, name=None):
    c = LamCase()
    c.name = name or rng.choice(NAMES)
    c.pre = rng.choice(["", "", "    ", "  ", "\t", "        "])
    pfx, lam, sfx, pn = rng.choice(LAM_FORMS)
    c.pfx, c.lam, c.sfx, c.pnames = pfx, list(lam), sfx, list(pn)
    if pfx.startswith("return"):
        c.pfx = pfx  # only parsed, never executed
    if rng.random() < 0.3:
        c.lead = rng.choice([["# a comment"], ["", "# c"], [""]])
    if rng.random() < 0.2:
        c.trail = rng.choice([["# after"], [""]])
    c.features.add("lambda_" + (pfx.split("(")[0].split("=")[0].strip() or "bare"))
    if len(lam) > 1:
        c.features.add("lambda_multiline")
    if pfx == "v = ":
        c.string_sensitive = True
    if c.pre:
        c.features.add("indented")
    return c


DOCS_PLAIN = ["new doc", "", "Summary.\n\nDetails follow\n    indented\n", "it's \"quoted\" inside", "a # b",
              "multi\nline", "\n  leading newline\n  ", "caf\u00e9 \u4e2d", "ends with '", "x = '''y'''"]
DOCS_WSLINE = ["a\n   \nb", "t\n\t\nq"]
# texts that need escaping: every one of them failed before quote_docstring (2b72506)
DOCS_ESCAPED = ['ends with "', 'has """ inside', "back\\nslash", "back\\qslash", "trailing\\", "cr\rhere", "ff\x0chere",
                "ls\u2028here", "nul\x00here", '"""', '""""""" seven', 'a\n"', "crlf\r\nline", "\\", '\\"', "a\\\nb",
                "\x0b\x1c\x1d\x1e\x85\u2029", "\\x41\\u0041\\N{DASH}\\101", '"',
                "a\n\xa0\nb", "a\n\x1f\u3000\nb\n \x0c\n"]
DOC_ALPHABET = ['"', '"', '"', "\\", "\\", "\n", "\n", " ", "\t", "a", "b", "x", "u", "0", "4", "1", "'", "\r", "\x00",
                "\x0b", "\x0c", "\x1c", "\x1d", "\x1e", "\x1f", "\x85", "\xa0", "\u2028", "\u2029", "\u3000", "\u00e9",
                "\U0001f600", "#", ";", "n", "r", "N", "{", "}"]


def gen_doc_text(rng):
    """a documentation text biased to what quote_docstring must handle: runs of quotes, backslashes before
    quotes / newlines / escape letters, every line boundary, a quote or backslash at the very end"""
    n = rng.choice([0, 1, 2, 3, 5, 8, 13, 21])
    out = []
    for _ in range(n):
        k = rng.random()
        if k < 0.25:
            out.append('"' * rng.randrange(1, 8))
        elif k < 0.35:
            out.append("\\" * rng.randrange(1, 4))
        else:
            out.append(rng.choice(DOC_ALPHABET))
    return "".join(out)


def has_ws_only_middle_line(doc):
    ls = doc.split("\n")
    return any(l != "" and l.strip(" \t") == "" for l in ls[1:-1])


def gen_history(rng, index):
    """one history: a base case, optional sub spaces, a list of edit ops"""
    r = rng.random()
    h = {"via": "text", "subs": [], "ops": []}
    if r < 0.70:
        base = gen_def(rng)
    else:
        base = gen_lam(rng)
    h["base"] = base.to_json()
    h["name"] = rng.choice([None, None, base.name, rng.choice(NEWNAMES)]) if base.kind == "def" else rng.choice(NAMES)
    if rng.random() < 0.35:
        for _ in range(rng.choice([1, 1, 2])):
            k = rng.random()
            if k < 0.4:
                h["subs"].append({"how": "derived"})
            elif k < 0.85:
                h["subs"].append({"how": "override", "case": gen_def(rng).to_json()})
            else:
                h["subs"].append({"how": "override", "case": gen_lam(rng).to_json()})
    nlev = 1 + len(h["subs"])
    names = [n for n in NEWNAMES if n != h["name"]]
    rng.shuffle(names)
    for _ in range(rng.choice([1, 2, 2, 3, 4])):
        k = rng.random()
        if k < 0.4:
            h["ops"].append(["rename", names.pop() if names else "again"])
        elif k < 0.85:
            p = rng.random()
            if p < 0.45:
                doc = rng.choice(DOCS_PLAIN)
            elif p < 0.53:
                doc = rng.choice(DOCS_WSLINE)
            elif p < 0.75:
                doc = rng.choice(DOCS_ESCAPED)
            else:
                doc = gen_doc_text(rng)
            h["ops"].append(["setdoc", rng.randrange(nlev), 1 if rng.random() < 0.3 else 0, doc])
        else:
            h["ops"].append(["recreate", rng.randrange(nlev)])
    return h


# ----------------------------------------------------------------------------- reference semantics

def sample_args(pnames):
    if not pnames:
        return [()]
    if "y" in pnames:
        return [(0,), (1,), (3,), (2, 5)]
    return [(0,), (1,), (3,)]


def reference_namespace():
    ns = {}
    exec(NS_PRELUDE, ns)
    return ns


def reference_function(case, text):
    """the plain Python function the text defines where it stands (inside a block if indented)"""
    ns = reference_namespace()
    if case.kind in ("def", "raw"):
        src = text
        if case.pre:
            src = "if 1:\n" + text
        exec(compile(src, "<reference>", "exec"), ns)
        return ns[case.name]
    lam = "\n".join(([case.lam[0]] + [case.pre + l if l.strip(" \t") else l for l in case.lam[1:]]))
    return eval(compile("(" + lam + "\n)", "<reference>", "eval"), ns)


def call_all(fn, argsets):
    out = []
    for a in argsets:
        try:
            out.append(("ok", repr(fn(*a))))
        except Exception as e:   # noqa
            # modelx wraps the formula's own exception in FormulaError: only "it raised" is compared
            out.append(("err", ""))
    return out


# ----------------------------------------------------------------------------- layout as asttokens sees it

def impl_layout_def(text):
    src = textwrap.dedent(text)
    atok = asttokens.ASTTokens(src, parse=True)
    node = None
    for n in ast.walk(atok.tree):
        if isinstance(n, ast.FunctionDef):
            node = n
            break
    if node.decorator_list:
        lf = atok.tokens[node.decorator_list[0].first_token.index - 1].start[0]
        ll = atok.tokens[node.decorator_list[-1].last_token.index + 1].start[0]
        decos = "%d,%d" % (lf, ll)
    else:
        decos = "-"
    i = node.first_token.index
    for i in range(node.first_token.index, node.last_token.index):
        if atok.tokens[i].type == token_mod.NAME and atok.tokens[i].string == "def":
            break
    nt = atok.tokens[i + 1]
    first = node.body[0]
    prev = atok.tokens[first.first_token.index - 1]
    compound = prev.type == token_mod.INDENT
    has_doc = isinstance(first, ast.Expr) and isinstance(first.value, ast.Constant) and isinstance(first.value.value, str)
    if compound:
        s = prev.start
        indent = prev.string
    else:
        s = first.first_token.start
        indent = ""
    e = first.last_token.end if has_doc else s    # the whole docstring statement is replaced
    return "decos=%s name=%d,%d,%d doc=%s,%s,%d,%d,%d,%d indent=%s" % (
        decos, nt.start[0], nt.start[1], nt.end[1], str(compound).lower(), str(has_doc).lower(),
        s[0], s[1], e[0], e[1], esc(indent))


def impl_layout_lam(text, dedent=True, row=None, shift=0):
    src = textwrap.dedent(text) if dedent else text
    atok = asttokens.ASTTokens(src, parse=True)
    node = None
    for n in ast.walk(atok.tree):
        if isinstance(n, ast.Lambda) and (row is None or n.lineno == row):
            node = n
            break
    (sl, sc), (el, ec) = node.first_token.start, node.last_token.end
    return "lam=%d,%d,%d,%d" % (sl - shift, sc, el - shift, ec)


# ----------------------------------------------------------------------------- oracle helpers

def def_name_token(src):
    """(start offset, end offset) of the name token after the first `def` keyword"""
    toks = list(tokenize.generate_tokens(io.StringIO(src).readline))
    lines = src.split("\n")
    offs = [0]
    for l in lines:
        offs.append(offs[-1] + len(l) + 1)
    for i, t in enumerate(toks):
        if t.type == tokenize.NAME and t.string == "def":
            n = toks[i + 1]
            return offs[n.start[0] - 1] + n.start[1], offs[n.end[0] - 1] + n.end[1]
    return None


def same_but_name(before, after, old, new):
    a, b = def_name_token(before), def_name_token(after)
    if a is None or b is None:
        return False
    return (before[:a[0]] == after[:b[0]] and before[a[1]:] == after[b[1]:]
            and before[a[0]:a[1]] == old and after[b[0]:b[1]] == new)


def tok_end(t):
    """the true end (row, column in characters) of a token, from its start and its text - CPython 3.12.1
    reports a wrong end column for a token that spans lines when non-ASCII characters are involved"""
    n = t.string.count("\n")
    if n == 0:
        return (t.start[0], t.start[1] + len(t.string))
    return (t.start[0] + n, len(t.string) - t.string.rfind("\n") - 1)


def docstring_end_misreported(src):
    """the tokenizer of this interpreter reports another end for the last token of the def's docstring
    statement than the token's text has (the trigger of finding C20-multiline-token-endcol)"""
    try:
        atok = asttokens.ASTTokens(src, parse=True)
        node = None
        for n in ast.walk(atok.tree):
            if isinstance(n, ast.FunctionDef):
                node = n
                break
        first = node.body[0]
        if not (isinstance(first, ast.Expr) and isinstance(first.value, ast.Constant)
                and isinstance(first.value.value, str)):
            return False
        t = first.last_token
        return tuple(t.end) != tok_end(t)
    except Exception:   # noqa
        return False


def code_tokens(src):
    """tokens of a def without its docstring statement: every token of the statement (a docstring may be
    several tokens: implicit concatenation, parentheses) and the NEWLINE or `;` that ends the statement"""
    tree = ast.parse(src)
    fn = tree.body[0]
    first = fn.body[0]
    doc = (isinstance(first, ast.Expr) and isinstance(first.value, ast.Constant)
           and isinstance(first.value.value, str))
    toks = [t for t in tokenize.generate_tokens(io.StringIO(src).readline)]
    out = []
    srclines = src.split("\n")

    def char_col(lineno, byte_col):     # ast columns count UTF-8 bytes, tokenize columns count characters
        return len(srclines[lineno - 1].encode("utf-8")[:byte_col].decode("utf-8"))

    lo = (first.lineno, char_col(first.lineno, first.col_offset))
    hi = (first.end_lineno, char_col(first.end_lineno, first.end_col_offset))
    skip_terminator = False
    for t in toks:
        if doc and lo <= tuple(t.start) and tok_end(t) <= hi and t.type not in (tokenize.INDENT, tokenize.DEDENT):
            skip_terminator = True
            continue
        if skip_terminator:
            skip_terminator = False
            if t.type == tokenize.NEWLINE or (t.type == tokenize.OP and t.string == ";"):
                continue
        if t.type in (tokenize.INDENT, tokenize.DEDENT, tokenize.ENDMARKER):
            out.append((t.type, ""))
        else:
            out.append((t.type, t.string))
    return out


def norm_doc(d):
    """a docstring modulo indentation and trailing blanks of its lines (capture removes the definition's
    indentation from the continuation lines, as inspect.cleandoc would)"""
    if d is None:
        return None
    return [l.strip() for l in d.split("\n")]


# ----------------------------------------------------------------------------- running one history

class Stats:
    def __init__(self):
        self.features = {}
        self.ops = {}
        self.nontrivial = set()
        self.samples = []
        self.evals = 0
        self.layouts = 0
        self.rejected = {}
        self.doc_kinds = {}
        self.quoted = 0

    def feat(self, fs):
        for f in fs:
            self.features[f] = self.features.get(f, 0) + 1

    def op(self, k):
        self.ops[k] = self.ops.get(k, 0) + 1


def observe_entry(cells):
    src = cells.formula.source
    doc = cells.doc
    return "src=%s\tparams=%s\tdoc%s\tderived=%d" % (
        esc(src), esc("".join(p + "," for p in cells.parameters)),
        "%none" if doc is None else "=" + esc(doc), 1 if cells._is_derived() else 0)


def split_obs(line):
    return [] if line == "" else line.split(" ;; ")


RENDER = {}


def prerender(cases):
    """render many structures with one call of the driver"""
    ops = []
    for c in cases:
        if c.kind == "raw":
            continue
        k = c.op("render", c.kind)
        if k not in RENDER and k not in ops:
            ops.append(k)
    if not ops:
        return
    for k, line in zip(ops, core.run_driver("capture", ops)):
        parts = line.split("\t")
        if parts[0] != "text":
            raise core.Infra("driver could not render: %r" % line)
        RENDER[k] = (unesc(parts[1]), parts[2] == "wf=true")


def render_case(case):
    if case.kind == "raw":
        return case.text, True
    k = case.op("render", case.kind)
    if k not in RENDER:
        prerender([case])
    return RENDER[k]


def cases_of(hist):
    cs = [case_from_json(hist["base"])]
    for sub in hist["subs"]:
        if sub["how"] == "override":
            cs.append(case_from_json(sub["case"]))
    return cs


class Run:
    """one history on the implementation, with the ops for the model collected alongside"""

    def __init__(self, hist, out, stats, func_obj=None):
        self.h = hist
        self.func_obj = func_obj
        self.out = out
        self.stats = stats
        self.model_ops = ["reset"]
        self.impl_lines = ["ok"]
        self.tags = ["reset"]
        self.cells = []       # per level: cells interface
        self.spaces = []
        self.refs = []        # per level: list of (status, repr) reference values on the samples
        self.argsets = []
        self.sensitive = []   # per level: string-sensitive case
        self.dedent_refs = []  # per level: values of the function `textwrap.dedent(text)` defines
        self.split_refs = []   # per level: values of the function that the text cut by str.splitlines() and
        #                        re-joined with line feeds defines (None unless the text has such a boundary)
        self.stop = False

    # -- model-rendered text of a structure
    def render(self, case):
        return render_case(case)

    def fail(self, what, detail=None, key=None):
        self.out.fail(what, self.h, detail=detail, key=key)

    def expect(self, op, impl_line, tag):
        if self.h.get("via") == "rawtext":
            return
        self.model_ops.append(op)
        self.impl_lines.append(impl_line)
        self.tags.append(tag)

    def obs_all(self, tag):
        line = " ;; ".join(observe_entry(c) for c in self.cells)
        self.expect("obs", line, tag)

    def values(self, lvl):
        return call_all(self.cells[lvl], self.argsets[lvl])

    def finding_key_for_values(self, lvl, got):
        """the known finding: the layout has a string literal that spans lines, and the values are those of
        the function that the DEDENTED text defines"""
        if self.sensitive[lvl] and got == self.dedent_refs[lvl]:
            return "C20-dedent-in-string"
        if self.split_refs[lvl] is not None and got == self.split_refs[lvl]:
            return "C20-splitlines-in-body"
        return None

    def check_values(self, lvl, when):
        got = self.values(lvl)
        self.stats.evals += len(got)
        if got != self.refs[lvl]:
            self.fail("cells values differ from the plain Python function %s" % when,
                      detail={"level": lvl, "cells": got, "function": self.refs[lvl],
                              "source": self.cells[lvl].formula.source},
                      key=self.finding_key_for_values(lvl, got))

    def check_exec_source(self, lvl, when):
        c = self.cells[lvl]
        src = c.formula.source
        ns = reference_namespace()
        try:
            if c._impl.formula._is_lambda:
                fn = eval(compile("(" + src + "\n)", "<source>", "eval"), ns)
            else:
                exec(compile(src, "<source>", "exec"), ns)
                fn = ns.get(c.name)
            got = call_all(fn, self.argsets[lvl])
        except Exception as e:   # noqa
            got = [("exec-failed", type(e).__name__)]
        if got != self.refs[lvl]:
            self.fail("formula.source, executed on its own, is not the same function %s" % when,
                      detail={"level": lvl, "source": src, "got": got, "function": self.refs[lvl]},
                      key=self.finding_key_for_values(lvl, got))

    def check_fixed_point(self, lvl, when):
        c = self.cells[lvl]
        src = c.formula.source
        from modelx.core.formula import Formula
        try:
            again = Formula(src, name=None if c._impl.formula._is_lambda else c.name).source
        except Exception as e:   # noqa
            again = "<%s>" % type(e).__name__
        if again != src:
            self.fail("formula.source is not a fixed point of capture %s" % when,
                      detail={"source": src, "again": again})
        scratch = self.scratch
        try:
            with quiet():
                c2 = scratch.new_cells(name=c.name, formula=src)
            if c2.formula.source != src:
                self.fail("a cells created from formula.source has another source %s" % when,
                          detail={"source": src, "again": c2.formula.source})
            got = call_all(c2, self.argsets[lvl])
            if got != self.refs[lvl]:
                self.fail("a cells created from formula.source behaves differently %s" % when,
                          detail={"source": src, "got": got, "function": self.refs[lvl]},
                          key=self.finding_key_for_values(lvl, got))
        except Exception as e:   # noqa
            self.fail("a cells cannot be created from formula.source %s (%s)" % (when, type(e).__name__),
                      detail={"source": src})
        finally:
            if c.name in scratch.cells:
                del scratch.cells[c.name]

    # -- creation
    def create(self, lvl, case, via_name, func_obj=None, modtext=None):
        text, wf = self.render(case)
        if not wf:
            raise core.Infra("the generator produced a structure outside the theorems' domain (wf = false): %r" % text)
        space = self.spaces[lvl]
        self.stats.feat(case.features)
        self.stats.feat(["kind_" + case.kind, "via_" + ("object" if func_obj is not None else "text")])
        # what the parser reports vs what the model says it reports
        try:
            if case.kind == "raw":
                pass
            elif case.kind == "def":
                lay_impl = impl_layout_def(text)
                if docstring_end_misreported(textwrap.dedent(text)):
                    # this interpreter's tokenizer misreports the end of the docstring token: the
                    # positions are not those of the text; what modelx makes of them is the oracle's business
                    self.stats.feat(["tokenizer_misreports_docstring_end"])
                else:
                    self.expect(case.op("layout", "def"), lay_impl, "layout")
            elif func_obj is None:
                self.expect(case.op("layout", "lam", "text"), impl_layout_lam(text), "layout")
            else:
                # extract_lambda_from_func: the whole module text, not dedented, the lambda on the code's line
                row = func_obj.__code__.co_firstlineno
                self.expect(case.op("layout", "lam", "obj"),
                            impl_layout_lam(self.h["module"], dedent=False, row=row, shift=row - len(case.lead) - 1),
                            "layout")
            self.stats.layouts += 1
        except SyntaxError:
            raise core.Infra("generated text does not parse: %r" % text)
        # reference
        if func_obj is not None:
            ref = func_obj
        else:
            ref = reference_function(case, text)
        argsets = sample_args(case.pnames)
        refvals = call_all(ref, argsets)
        dedent_vals = None
        if case.string_sensitive:
            try:
                if case.kind == "def":
                    ns = reference_namespace()
                    exec(compile(textwrap.dedent(text), "<dedented>", "exec"), ns)
                    dedent_vals = call_all(ns[case.name], argsets)
                else:
                    lam = "\n".join(l if l.strip(" \t") else "" for l in case.lam)
                    dedent_vals = call_all(eval(compile("(" + lam + "\n)", "<dedented>", "eval"),
                                                reference_namespace()), argsets)
            except Exception:   # noqa
                dedent_vals = None
        split_vals = None
        if has_other_line_boundary(text) and case.kind in ("def", "raw"):
            try:
                ns = reference_namespace()
                exec(compile("\n".join(textwrap.dedent(text).splitlines()) + "\n", "<splitlines>", "exec"), ns)
                split_vals = call_all(ns[case.name], argsets)
            except Exception:   # noqa
                split_vals = [("does-not-compile", "")]
        # creation on the implementation
        formula = func_obj if func_obj is not None else text
        try:
            with quiet():
                if lvl == 0:
                    c = space.new_cells(name=via_name, formula=formula)
                else:
                    c = space.cells[self.cells[0].name]
                    c.formula = formula
        except Exception as e:   # noqa
            self.fail("a definition of the grammar was refused (%s)" % type(e).__name__,
                      detail={"text": text, "error": err_kind(e)},
                      key=("C20-underindented-continuation" if (isinstance(e, SyntaxError) and underindented(text))
                           else "C20-splitlines-in-body" if (isinstance(e, SyntaxError) and split_vals is not None)
                           else None))
            self.stop = True
            return None
        if case.kind == "raw":
            pass
        elif case.kind == "def":
            if lvl == 0:
                mode_name = "%none" if via_name is None else esc(via_name)
                self.model_ops.append(case.op("new", "def", mode_name))
            else:
                self.model_ops.append(case.op("sub", "override", "def"))
        else:
            mode = "obj" if func_obj is not None else "text"
            if lvl == 0:
                self.model_ops.append(case.op("new", "lam", mode, esc(via_name or "lam")))
            else:
                self.model_ops.append(case.op("sub", "override", "lam"))
        if case.kind != "raw":
            self.impl_lines.append("ok")
            self.tags.append("create")
        if lvl < len(self.cells):
            self.cells[lvl] = c
            self.refs[lvl] = refvals
            self.argsets[lvl] = argsets
            self.sensitive[lvl] = case.string_sensitive
            self.dedent_refs[lvl] = dedent_vals
            self.split_refs[lvl] = split_vals
        else:
            self.cells.append(c)
            self.refs.append(refvals)
            self.argsets.append(argsets)
            self.sensitive.append(case.string_sensitive)
            self.dedent_refs.append(dedent_vals)
            self.split_refs.append(split_vals)
        # doc of the original function (robust to indentation)
        try:
            ref_doc = ref.__doc__
        except Exception:   # noqa
            ref_doc = None
        if case.kind in ("def", "raw") and norm_doc(c.doc) != norm_doc(ref_doc):
            self.fail("cells.doc differs from the function's docstring", detail={"cells": c.doc, "function": ref_doc},
                      key=("C20-splitlines-in-body" if (split_vals is not None and ref_doc is not None and c.doc is not None
                                                        and norm_doc(c.doc) == norm_doc("\n".join(ref_doc.splitlines())))
                           else None))
        if tuple(c.parameters) != tuple(inspect.signature(ref).parameters):
            self.fail("cells.parameters differ from the function's parameters",
                      detail={"cells": list(c.parameters), "function": list(inspect.signature(ref).parameters)})
        return c

    def run(self):
        h = self.h
        base = case_from_json(h["base"])
        with quiet():
            self.model = mx.new_model()
        m = self.model
        with quiet():
            self.scratch = m.new_space("Scratch")
            self.scratch.G = G_VALUE
        n_levels = 1 + len(h["subs"])
        for i in range(n_levels):
            with quiet():
                sp = m.new_space("S%d" % i, bases=(self.spaces[i - 1] if i else None))
                sp.G = G_VALUE
            self.spaces.append(sp)
            if i == 0:
                self.create(0, base, h.get("name"), func_obj=self.func_obj)
                if self.stop:
                    return
            else:
                # the sub space has inherited the cells
                sub = h["subs"][i - 1]
                derived = sp.cells[self.cells[0].name]
                self.cells.append(derived)
                self.refs.append(self.refs[i - 1])
                self.argsets.append(self.argsets[i - 1])
                self.sensitive.append(self.sensitive[i - 1])
                self.dedent_refs.append(self.dedent_refs[i - 1])
                self.split_refs.append(self.split_refs[i - 1])
                if sub["how"] == "derived":
                    self.expect("sub\tderived", "ok", "sub")
                    self.stats.feat(["sub_derived"])
                else:
                    self.create(i, case_from_json(sub["case"]), None)
                    self.stats.feat(["sub_override"])
                    if self.stop:
                        return
        self.obs_all("after creation")
        for lvl in range(n_levels):
            self.check_values(lvl, "after creation")
            self.check_exec_source(lvl, "after creation")
        self.check_fixed_point(0, "after creation")
        for op in h["ops"]:
            if self.stop:
                break
            self.stats.op(op[0])
            getattr(self, "op_" + op[0])(*op[1:])

    # -- ops
    def op_recreate(self, lvl):
        lvl = min(lvl, len(self.cells) - 1)
        self.check_fixed_point(lvl, "after edits")

    def op_rename(self, new):
        c0 = self.cells[0]
        old = c0.name
        before = [(c.formula.source, c.doc, tuple(c.parameters), c._is_derived()) for c in self.cells]
        try:
            with quiet():
                c0.rename(new)
        except Exception as e:   # noqa
            self.fail("rename raised %s" % type(e).__name__, detail={"error": err_kind(e)})
            self.stop = True
            return
        self.expect("rename\t" + esc(new), "ok", "rename")
        self.cells = [sp.cells[new] for sp in self.spaces]
        self.obs_all("after rename")
        for lvl, c in enumerate(self.cells):
            src0, doc0, par0, der0 = before[lvl]
            src1 = c.formula.source
            if c._impl.formula._is_lambda:
                ok = src1 == src0
            else:
                ok = same_but_name(src0, src1, old, new)
            if not ok:
                self.fail("rename changed more than the name in formula.source",
                          detail={"level": lvl, "before": src0, "after": src1, "old": old, "new": new})
            if c.doc != doc0 or tuple(c.parameters) != par0 or c._is_derived() != der0:
                self.fail("rename changed doc, parameters or the derived flag",
                          detail={"level": lvl, "before": [doc0, par0, der0],
                                  "after": [c.doc, tuple(c.parameters), c._is_derived()]})
            self.check_values(lvl, "after rename")
        self.check_exec_source(0, "after rename")
        self.stats.nontrivial.add(("rename", len(self.cells) > 1))

    def op_setdoc(self, lvl, ii, doc):
        lvl = min(lvl, len(self.cells) - 1)
        c = self.cells[lvl]
        is_lam = c._impl.formula._is_lambda
        src0 = c.formula.source
        others = [(x.formula.source, x.doc) for x in self.cells]
        misreported = (not is_lam) and docstring_end_misreported(src0)
        err = None
        try:
            with quiet():
                c.set_doc(doc, insert_indents=bool(ii))
        except Exception as e:   # noqa
            err = e
        if misreported:
            # outside the model (layoutOf states what a correct tokenizer reports): the oracle decides, then
            # the history ends
            self.stats.feat(["tokenizer_misreports_docstring_end"])
            bad = (err is not None or (not ii and c.doc != doc and c.doc != emptied_ws_lines(doc))
                   or code_tokens_or_none(c.formula.source) != code_tokens_or_none(src0))
            if bad:
                self.fail("set_doc on a docstring whose end the tokenizer misreports: %s"
                          % ("raised " + type(err).__name__ if err else "the source or the docstring is damaged"),
                          detail={"doc": doc, "before": src0, "after": c.formula.source,
                                  "python": sys.version.split()[0]},
                          key="C20-multiline-token-endcol")
            self.stop = True
            return
        self.expect("setdoc\t%d\t%d\t%s" % (lvl, ii, esc(doc)), "ok" if err is None else "err " + err_kind(err),
                    "setdoc")
        if err is not None:
            # every text can be a docstring of every definition: a refusal is a violation
            self.fail("set_doc raised %s" % type(err).__name__,
                      detail={"doc": doc, "source": src0, "error": err_kind(err)})
            self.stop = True
            return
        self.obs_all("after set_doc")
        # -- oracle: nothing but the docstring changed, and the docstring is the text
        if not ii:
            if c.doc != doc:
                # the only tolerated deviation: whitespace-only lines inside the text emptied by the dedent of
                # the re-capture (known finding), and nothing else changed
                key = None
                if has_ws_only_middle_line(doc) and not is_lam and c.doc == emptied_ws_lines(doc):
                    key = "C20-dedent-in-string"
                self.fail("the docstring does not read back as the text that was set",
                          detail={"doc": doc, "read_back": c.doc}, key=key)
        else:
            if not is_lam and unindented(c.doc) != unindented(doc):
                # with insert_indents the text is re-indented; compare modulo leading blanks of the lines
                self.fail("insert_indents changed more than indentation of the docstring",
                          detail={"doc": doc, "read_back": c.doc})
        if is_lam:
            if c.formula.source != src0:
                self.fail("set_doc changed the source of a lambda cells", detail={"before": src0, "after": c.formula.source})
        else:
            try:
                same = code_tokens(c.formula.source) == code_tokens(src0)
            except Exception:   # noqa
                same = False
            if not same:
                self.fail("set_doc changed more than the docstring in formula.source",
                          detail={"before": src0, "after": c.formula.source, "doc": doc})
        for k, x in enumerate(self.cells):
            if k < lvl and (x.formula.source, x.doc) != others[k]:
                self.fail("set_doc on a sub space's cells changed the base cells", detail={"level": k})
        self.check_values(lvl, "after set_doc")
        self.check_exec_source(lvl, "after set_doc")
        self.stats.nontrivial.add(("setdoc", bool(ii), is_lam))
        self.stats.doc_kinds[doc_kind(doc)] = self.stats.doc_kinds.get(doc_kind(doc), 0) + 1


OTHER_BOUNDARIES = "\x0b\x0c\x1c\x1d\x1e\x85\u2028\u2029"


def has_other_line_boundary(text):
    """a character at which str.splitlines() cuts and the tokenizer does not"""
    return any(ch in text for ch in OTHER_BOUNDARIES)


def underindented(text):
    """some non-blank line is indented less than the first non-blank line (the decorator or `def`)"""
    ls = [l for l in text.split("\n") if l.strip(" \t")]
    if not ls:
        return False
    n0 = len(ls[0]) - len(ls[0].lstrip(" \t"))
    return any(len(l) - len(l.lstrip(" \t")) < n0 for l in ls[1:])


def code_tokens_or_none(src):
    try:
        return code_tokens(src)
    except Exception:   # noqa
        return None


def unindented(d):
    return None if d is None else [l.lstrip(" \t") for l in d.split("\n")]


def emptied_ws_lines(doc):
    """the text with the whitespace-only lines strictly inside it emptied (what textwrap.dedent does to them)"""
    ls = doc.split("\n")
    return "\n".join([ls[0]] + [("" if l.strip(" \t") == "" else l) for l in ls[1:-1]] + ls[-1:]) if len(ls) > 1 else doc


def doc_kind(doc):
    ks = []
    if '"""' in doc:
        ks.append("triple")
    if doc.endswith('"'):
        ks.append("final-quote")
    if "\\" in doc:
        ks.append("backslash")
    if any(ch in doc for ch in "\r\x0b\x0c\x1c\x1d\x1e\x85\u2028\u2029\x00"):
        ks.append("escaped-char")
    if has_ws_only_middle_line(doc):
        ks.append("ws-only-line")
    return "+".join(ks) or "plain"


def model_doc_values(line):
    """the model reports a docstring literal that `replace_docstring` did not write by its source text
    (`doc~<literal>`): its value is CPython's business - evaluate it here, as the interpreter would"""
    if "\tdoc~" not in line:
        return line
    out = []
    for entry in line.split(" ;; "):
        fs = entry.split("\t")
        for i, f in enumerate(fs):
            if f.startswith("doc~"):
                try:
                    fs[i] = "doc=" + esc(ast.literal_eval(unesc(f[4:])))
                except Exception:   # noqa
                    pass
        out.append("\t".join(fs))
    return " ;; ".join(out)


def compare_lines(run, model_lines, out, layer="capture"):
    for j, (a, b) in enumerate(zip(run.impl_lines, model_lines)):
        if run.tags[j] in ("reset", "create", "sub", "rename") and b == "ok":
            continue
        b = model_doc_values(b)
        if a != b:
            if run.tags[j].startswith("after") or run.tags[j] == "obs":
                ea, eb = split_obs(a), split_obs(b)
                for k in range(max(len(ea), len(eb))):
                    xa = ea[k] if k < len(ea) else "<missing>"
                    xb = eb[k] if k < len(eb) else "<missing>"
                    if xa != xb:
                        out.disagree(run.h, j, "level %d %s: %s" % (k, run.tags[j], xa),
                                     "level %d %s: %s" % (k, run.tags[j], xb), layer=layer)
                        break
            else:
                out.disagree(run.h, j, "%s: %s" % (run.tags[j], a), "%s: %s" % (run.tags[j], b), layer=layer)
            return False
    return True


def run_impl(hist, out, stats, func_obj=None):
    close_all()
    run = Run(hist, out, stats, func_obj=func_obj)
    try:
        run.run()
    finally:
        close_all()
    return run


def compare_batch(runs, out):
    """one call of the driver for many histories"""
    ops = []
    for r in runs:
        ops.extend(r.model_ops)
    lines = core.run_driver("capture", ops) if ops else []
    k = 0
    for r in runs:
        n = len(r.model_ops)
        compare_lines(r, lines[k:k + n], out)
        k += n


def run_history(hist, out, stats):
    prerender(cases_of(hist))
    run = run_impl(hist, out, stats)
    compare_batch([run], out)
    return run


# ----------------------------------------------------------------------------- formulas set from OBJECTS
#
# The formula of a cells can be set from an OBJECT that already is a formula somewhere else: the `Formula` object of
# another cells (of another name, of the same name in another space, of a derived cells, of a cells in another model,
# of a cells that was renamed), the `formula` of a parametrised SPACE, a function object whose `__name__` is not the
# cells' name, a bound method (not a supported form: refused) - through every way a formula gets into a cells:
# `cells.formula = obj`, `cells.set_formula(obj)`, `defcells(space=, name=)(obj)` onto an existing cells,
# `new_cells(name, formula=obj)`, `new_cells(formula=obj)` (the name comes from the object), `Cells.copy(space, name)`.
# C20 says the same thing for all of them: the cells behaves like the function, its source is a self-contained
# definition of it under the cells' OWN name (so `formula.name` is that name), creating a cells from the source
# reproduces it, and rename / doc edits afterwards change nothing else.  The model is asked what it is asked for a
# cells created from the TEXT under that name (capture of a captured text under another name = capture of the text
# under that name: `capture_idempotent_text`, `rename_round_trip_text`).

SETOBJ_WHAT = ["formula", "formula-same-name", "formula-derived", "formula-other-model", "formula-renamed",
               "space-formula", "function", "bound-method"]
SETOBJ_SETTERS = ["attr", "set_formula", "defcells", "new_cells", "new_cells_noname", "copy"]
SETOBJ_PRE = {"def": "def %s(x):\n    'old doc'\n    return -1\n", "lam": "lambda x: -1"}
BOUND_METHOD_MODULE = "class Holder:\n    def %s(self, x):\n        return x + 1\n\nbm = Holder().%s\n"


def setobj_applicable(what, setter):
    if setter == "copy":
        return what.startswith("formula")       # Cells.copy copies a cells
    return True


def def_name_of(src):
    """the name after the first `def` of the text (None: no def)"""
    try:
        span = def_name_token(src)
    except Exception:   # noqa
        return None
    return None if span is None else src[span[0]:span[1]]


class SetObjRun(Run):
    """one `via: setobj` history on the implementation"""

    no_model = False

    def expect(self, op, impl_line, tag):
        if self.no_model:
            return
        Run.expect(self, op, impl_line, tag)

    def references(self, case, text, ref):
        argsets = sample_args(case.pnames)
        refvals = call_all(ref, argsets)
        dedent_vals = None
        if case.string_sensitive:
            try:
                if case.kind == "def":
                    ns = reference_namespace()
                    exec(compile(textwrap.dedent(text), "<dedented>", "exec"), ns)
                    dedent_vals = call_all(ns[case.name], argsets)
                else:
                    lam = "\n".join(l if l.strip(" \t") else "" for l in case.lam)
                    dedent_vals = call_all(eval(compile("(" + lam + "\n)", "<dedented>", "eval"),
                                                reference_namespace()), argsets)
            except Exception:   # noqa
                dedent_vals = None
        split_vals = None
        if has_other_line_boundary(text) and case.kind in ("def", "raw"):
            try:
                ns = reference_namespace()
                exec(compile("\n".join(textwrap.dedent(text).splitlines()) + "\n", "<splitlines>", "exec"), ns)
                split_vals = call_all(ns[case.name], argsets)
            except Exception:   # noqa
                split_vals = [("does-not-compile", "")]
        return argsets, refvals, dedent_vals, split_vals

    def push(self, c, argsets, refvals, sensitive, dedent_vals, split_vals):
        self.cells.append(c)
        self.refs.append(refvals)
        self.argsets.append(argsets)
        self.sensitive.append(sensitive)
        self.dedent_refs.append(dedent_vals)
        self.split_refs.append(split_vals)

    def own_formula(self, when, what, setter):
        """the formula of every cells of the chain is a definition under the cells' own name"""
        for lvl, c in enumerate(self.cells):
            f = c._impl.formula
            if f._is_lambda:
                continue
            if f.name != c.name:
                self.fail("the formula of cells %r is named %r %s" % (c.name, f.name, when),
                          detail={"what": what, "setter": setter, "level": lvl, "source": f.source})
            elif def_name_of(f.source) != c.name:
                self.fail("formula.source of cells %r is a definition under the name %r %s" % (
                    c.name, def_name_of(f.source), when),
                    detail={"what": what, "setter": setter, "level": lvl, "source": f.source})

    def run(self):
        h = self.h
        case = case_from_json(h["base"])
        what, setter, dstname, srcname = h["what"], h["setter"], h["dst"], h["src"]
        self.no_model = case.kind == "raw" or bool(h.get("no_model"))
        text, wf = self.render(case)
        if not wf:
            raise core.Infra("the generator produced a structure outside the theorems' domain (wf = false): %r" % text)
        self.stats.feat(["setobj_what_" + what, "setobj_setter_" + setter, "setobj_kind_" + case.kind])
        with quiet():
            m = self.model = mx.new_model()
            self.scratch = m.new_space("Scratch")
            self.scratch.G = G_VALUE
            S0 = m.new_space("S0")
            S0.G = G_VALUE
            T = m.new_space("T")
            T.G = G_VALUE
        self.spaces.append(S0)
        ref = self.func_obj if what in ("function", "bound-method") else reference_function(case, text)
        argsets, refvals, dedent_vals, split_vals = self.references(case, text, ref)

        # ---- the object
        srccells, obj = None, self.func_obj
        try:
            with quiet():
                if what in ("formula", "formula-renamed"):
                    home = T if setter == "new_cells_noname" else S0
                    if what == "formula-renamed":
                        srccells = home.new_cells(name="before_rename", formula=text)
                        srccells.rename(srcname)
                    else:
                        srccells = home.new_cells(name=srcname, formula=text)
                elif what == "formula-same-name":
                    srccells = T.new_cells(name=dstname, formula=text)
                elif what == "formula-derived":
                    T.new_cells(name=srcname, formula=text)
                    T1 = m.new_space("T1", bases=T)
                    srccells = T1.cells[srcname]
                elif what == "formula-other-model":
                    m2 = mx.new_model()
                    U = m2.new_space("U")
                    U.G = G_VALUE
                    srccells = U.new_cells(name=srcname, formula=text)
                elif what == "space-formula":
                    obj = m.new_space("P", formula=text).formula
                if srccells is not None:
                    obj = srccells.formula
        except Exception as e:   # noqa
            # the TEXT itself is refused by capture (known findings about layouts): not this family's subject
            self.fail("a definition of the grammar was refused (%s)" % type(e).__name__,
                      detail={"text": text, "error": err_kind(e)},
                      key=("C20-underindented-continuation" if (isinstance(e, SyntaxError) and underindented(text))
                           else "C20-splitlines-in-body" if (isinstance(e, SyntaxError) and split_vals is not None)
                           else None))
            self.stop = True
            return
        src_before = (srccells.name, srccells.formula.source, srccells.formula.name) if srccells is not None else None

        # ---- the cells that gets it
        pre = None
        with quiet():
            if setter in ("attr", "set_formula", "defcells"):
                pre_text = SETOBJ_PRE["def"] % dstname if h.get("pre", "def") == "def" else SETOBJ_PRE["lam"]
                pre = S0.new_cells(name=dstname, formula=pre_text)
            if h.get("sub"):
                self.spaces.append(m.new_space("S1", bases=S0))
        before_names = set(S0.cells)
        pre_obs = (pre.formula.source, pre.doc, tuple(pre.parameters), call_all(pre, [(0,), (1,)])) \
            if pre is not None else None
        err = None
        try:
            with quiet():
                if setter == "attr":
                    pre.formula = obj
                elif setter == "set_formula":
                    pre.set_formula(obj)
                elif setter == "defcells":
                    mx.defcells(space=S0, name=dstname)(obj)
                elif setter == "new_cells":
                    S0.new_cells(name=dstname, formula=obj)
                elif setter == "new_cells_noname":
                    S0.new_cells(formula=obj)
                elif setter == "copy":
                    srccells.copy(S0, dstname)
        except Exception as e:   # noqa
            err = e
        if err is not None:
            if what == "bound-method":
                # not a supported form of definition: refused, and nothing may have changed
                self.stats.feat(["setobj_refused_unsupported"])
                if set(S0.cells) != before_names:
                    self.fail("a refused formula object left a cells behind", detail={"cells": sorted(S0.cells)})
                if pre is not None and (pre.formula.source, pre.doc, tuple(pre.parameters),
                                        call_all(pre, [(0,), (1,)])) != pre_obs:
                    self.fail("a refused formula object changed the cells it was offered to",
                              detail={"before": pre_obs[0], "after": pre.formula.source})
            else:
                self.fail("setting a formula from an object (%s) through %s raised %s" % (
                    what, setter, type(err).__name__), detail={"error": err_kind(err), "text": text})
            self.stop = True
            return
        if setter == "new_cells_noname":
            new = sorted(set(S0.cells) - before_names)
            if len(new) != 1:
                self.fail("new_cells(formula=<object>) did not create exactly one cells", detail={"new": new})
                self.stop = True
                return
            dstname = new[0]
        dst = S0.cells[dstname]
        if not self.no_model:
            if case.kind == "def":
                self.model_ops.append(case.op("new", "def", esc(dstname)))
            else:
                self.model_ops.append(case.op("new", "lam", "text", esc(dstname)))
            self.impl_lines.append("ok")
            self.tags.append("create")
        self.push(dst, argsets, refvals, case.string_sensitive, dedent_vals, split_vals)
        if h.get("sub"):
            self.push(self.spaces[1].cells[dstname], argsets, refvals, case.string_sensitive, dedent_vals, split_vals)
            self.expect("sub\tderived", "ok", "sub")
        self.obs_all("after the formula was set from an object")

        # ---- the clauses
        self.own_formula("after it was set from an object (%s, %s)" % (what, setter), what, setter)
        for lvl in range(len(self.cells)):
            self.check_values(lvl, "after its formula was set from an object")
            self.check_exec_source(lvl, "after its formula was set from an object")
        # the same source as a cells of that name made from the TEXT
        try:
            with quiet():
                twin = self.scratch.new_cells(name=dst.name, formula=text)
            if twin.formula.source != dst.formula.source or tuple(twin.parameters) != tuple(dst.parameters) \
                    or norm_doc(twin.doc) != norm_doc(dst.doc):
                self.fail("a formula set from an object differs from the same definition given as text",
                          detail={"what": what, "setter": setter, "from_object": dst.formula.source,
                                  "from_text": twin.formula.source})
        except Exception:   # noqa
            pass
        finally:
            if dst.name in self.scratch.cells:
                del self.scratch.cells[dst.name]
        self.check_fixed_point(0, "after its formula was set from an object")
        if src_before is not None and srccells._is_valid() and \
                (srccells.name, srccells.formula.source, srccells.formula.name) != src_before:
            self.fail("setting a formula from the Formula object of another cells changed that cells",
                      detail={"before": list(src_before),
                              "after": [srccells.name, srccells.formula.source, srccells.formula.name]})
        # ... and the other way round: the Formula object of a cells as the parameter formula of a SPACE is a
        # definition under the name a space formula has, with the same parameters
        if srccells is not None:
            try:
                with quiet():
                    Q = m.new_space("Q")
                    Q.formula = obj
                qf = Q.formula
            except Exception:   # noqa
                qf = None
            if qf is not None:
                self.stats.feat(["setobj_cells_formula_to_space"])
                if tuple(qf.parameters) != tuple(dst.parameters) or \
                        (not qf._is_lambda and (qf.name != "_formula" or def_name_of(qf.source) != "_formula")):
                    self.fail("the formula of a space set from the Formula object of a cells is not that definition "
                              "under the name `_formula`", detail={"source": qf.source, "cells": dst.formula.source})
                if (srccells.name, srccells.formula.source, srccells.formula.name) != src_before:
                    self.fail("setting a space formula from the Formula object of a cells changed that cells",
                              detail={"before": list(src_before), "after": [srccells.name, srccells.formula.source]})
        for op in h["ops"]:
            if self.stop:
                break
            self.stats.op(op[0])
            getattr(self, "op_" + op[0])(*op[1:])
        if not self.stop:
            self.own_formula("after the rename / doc edits that followed", what, setter)


def setobj_module(h, tmp):
    """the function object / bound method of a `setobj` history: defined in a module file of its own"""
    if "module" not in h:
        return None
    _STAMP[0] += 1
    name = "c20mod_setobj_%d" % _STAMP[0]
    path = os.path.join(tmp, name + ".py")
    with open(path, "w", encoding="utf-8") as f:
        f.write(h["module"])
    spec = importlib.util.spec_from_file_location(name, path)
    mod = importlib.util.module_from_spec(spec)
    try:
        spec.loader.exec_module(mod)
    except Exception as e:   # noqa
        raise core.Infra("generated module does not import: %s\n%s" % (e, h["module"][:2000]))
    return getattr(mod, h["accessor"])


def run_setobj(h, out, stats, tmp):
    close_all()
    fobj = setobj_module(h, tmp)
    run = SetObjRun(h, out, stats, func_obj=fobj)
    try:
        run.run()
    finally:
        close_all()
    return run


def gen_setobj(rng, what, setter, case=None):
    """one history of the family (None when the combination does not exist)"""
    if not setobj_applicable(what, setter):
        return None
    if case is None:
        if what in ("function", "bound-method") or rng.random() < 0.7:
            case = gen_def(rng)
        else:
            case = gen_lam(rng)
    srcname = case.name if case.kind == "def" and rng.random() < 0.5 else rng.choice(NAMES)
    dst = rng.choice([n for n in NEWNAMES if n != srcname])
    h = {"via": "setobj", "base": None, "what": what, "setter": setter, "src": srcname, "dst": dst,
         "pre": rng.choice(["def", "def", "lam"]), "sub": rng.random() < 0.35, "ops": []}
    if what == "function":
        # what modelx is given is inspect.getsource(func): the definition lines only
        case = DefCase.from_json(case.to_json())
        case.lead, case.trail = [], []
        case.name = "fn_" + srcname
        prerender([case])
        text = core_render(case)
        h["module"] = NS_PRELUDE + "\n" + (("if True:\n" + text) if case.pre else text) + \
            (case.pre + "fobj = %s\n" % case.name)
        h["accessor"] = "fobj"
    elif what == "bound-method":
        case = DefCase()
        case.name, case.sig, case.pnames, case.after = srcname, "(x):", ["x"], "return x + 1"
        h["module"] = BOUND_METHOD_MODULE % (srcname, srcname)
        h["accessor"] = "bm"
        h["no_model"] = True
    h["base"] = case.to_json()
    names = [n for n in NEWNAMES if n not in (dst, srcname)]
    rng.shuffle(names)
    for _ in range(rng.choice([1, 2, 2, 3])):
        k = rng.random()
        if k < 0.45:
            h["ops"].append(["rename", names.pop() if names else "again"])
        elif k < 0.85:
            h["ops"].append(["setdoc", rng.randrange(2), 1 if rng.random() < 0.3 else 0,
                             rng.choice(DOCS_PLAIN + DOCS_ESCAPED[:6])])
        else:
            h["ops"].append(["recreate", 0])
    return h


def setobj_histories(ctx):
    """every (object, setter) combination with a plain def and with a lambda; generated layouts on top"""
    hs = []
    plain = DefCase()
    plain.name, plain.sig, plain.pnames = "foo", "(x, y=2):", ["x", "y"]
    plain.doc = ('"""', ["Doc of foo."], '"""')
    plain.rest = ["    return x * y + G"]
    lam = LamCase()
    lam.lam, lam.pnames, lam.pfx = ["lambda x, y=2: x * y + G"], ["x", "y"], "f = "
    for what in SETOBJ_WHAT:
        for setter in SETOBJ_SETTERS:
            for ci, case in enumerate((plain, lam)):
                if ci == 1 and what in ("function", "bound-method"):
                    continue
                h = gen_setobj(ctx.rng("setobj-fixed", what, setter, ci), what, setter,
                               case=case_from_json(case.to_json()))
                if h is not None:
                    hs.append(h)
    for i in range(ctx.n(70, 2500)):
        rng = ctx.rng("setobj", i)
        h = None
        while h is None:
            h = gen_setobj(rng, rng.choice(SETOBJ_WHAT[:-1]), rng.choice(SETOBJ_SETTERS))
        hs.append(h)
    return hs


def run_setobj_stream(ctx, out, stats, tmp, first=()):
    hs = list(first) + setobj_histories(ctx)
    CH = 60
    for k in range(0, len(hs), CH):
        chunk = hs[k:k + CH]
        prerender([case_from_json(h["base"]) for h in chunk])
        runs = [run_setobj(h, out, stats, tmp) for h in chunk]
        compare_batch(runs, out)
        RENDER.clear()
    return len(hs)


# ----------------------------------------------------------------------------- function / lambda objects

def build_module(cases, path):
    """write the definitions into a module file, each where its indentation puts it; returns
    the module text and, per case, the accessor name"""
    parts = [NS_PRELUDE, "\n"]
    names = []
    for i, c in enumerate(cases):
        text = core_render(c)
        if c.kind == "def":
            nm = "fn%d" % i
            if c.pre:
                parts.append("if True:\n" + text + c.pre + "%s = %s\n" % (nm, c.name))
            else:
                parts.append(text + "%s = %s\n" % (nm, c.name))
        else:
            nm = "lm%d" % i
            if c.pre:
                parts.append("if True:\n" + text)
            else:
                parts.append(text)
        parts.append("\n")
        names.append(nm)
    src = "".join(parts)
    with open(path, "w", encoding="utf-8") as f:
        f.write(src)
    return src, names


def core_render(case):
    return render_case(case)[0]


def gen_object_cases(rng, n):
    cases = []
    for i in range(n):
        if rng.random() < 0.7:
            c = gen_def(rng)
            c.name = "obj_%d" % i
            # decorators must exist and be identities; leading lines are not part of getsource
        else:
            c = gen_lam(rng)
            ok = [f for f in LAM_FORMS if f[0] in ("f = ", "g = wrap(", "h = ", "v = ", "obj.attr = wrap(0, key=")]
            pfx, lam, sfx, pn = rng.choice(ok)
            nm = "lm%d" % i
            if pfx.startswith("obj.attr"):
                pfx = nm + " = wrap(0, key="
            else:
                pfx = nm + " = " + pfx.split("= ", 1)[1] if "= " in pfx else nm + " = "
            c.pfx, c.lam, c.sfx, c.pnames = pfx, list(lam), sfx, list(pn)
            c.string_sensitive = lam[0].endswith("'''a")
            c.lead, c.trail = [], []
            c.pre = rng.choice(["", "    ", "  ", "\t"])
        cases.append(c)
    return cases


def run_object_batch(rng, n, out, stats, tmp, batch_id):
    cases = gen_object_cases(rng, n)
    prerender(cases)
    path = os.path.join(tmp, "c20mod_%d.py" % batch_id)
    src, names = build_module(cases, path)
    spec = importlib.util.spec_from_file_location("c20mod_%d" % batch_id, path)
    mod = importlib.util.module_from_spec(spec)
    try:
        spec.loader.exec_module(mod)
    except Exception as e:   # noqa
        raise core.Infra("generated module does not import: %s\n%s" % (e, src[:2000]))
    runs = []
    for c, nm in zip(cases, names):
        fobj = getattr(mod, nm)
        if c.kind == "def":
            # what modelx is given is inspect.getsource(func): from the first decorator (or def) on
            gs = inspect.getsource(fobj)
            full = core_render(c).split("\n")[:-1]
            skip = len(c.lead)
            got = gs.split("\n")[:-1]
            if full[skip:skip + len(got)] != got:
                raise core.Infra("inspect.getsource returned something else than the definition lines")
            n_tail = len(full) - skip - len(got)
            c2 = DefCase.from_json(c.to_json())
            c2.lead = []
            c2.trail = c.trail[:len(c.trail) - n_tail] if n_tail <= len(c.trail) else None
            if c2.trail is None:
                raise core.Infra("inspect.getsource cut into the body")
            case = c2
        else:
            case = c
        hist = {"via": "object", "base": case.to_json(), "name": ("o_" + nm), "subs": [],
                "ops": [["rename", "o2_" + nm], ["setdoc", 0, 0, "doc for " + nm], ["recreate", 0]],
                "module": src, "accessor": nm}
        prerender([case])
        runs.append(run_impl(hist, out, stats, func_obj=fobj))
    compare_batch(runs, out)


# ----------------------------------------------------------------------------- objects of a file that changes

PRELUDE_MODULE = "c20prelude"
_STAMP = [1000000000]

# lambda expressions of a module that is edited: (text after `name = `, lambda lines, suffix, parameter names);
# `%d` is a constant that differs between the versions of the file
RELOAD_LAMS = [
    ("", ["lambda x: x + %d"], "", ["x"]),
    ("", ["lambda x, y=%d: x * y + G"], "", ["x", "y"]),
    ("", ["lambda x, y=%d: (x -", "   y)"], "  # two lines", ["x", "y"]),
    ("wrap(", ["lambda x, y=(%d,", "", "      2): (x +", "  y[0] +", "        G)"], ")", ["x", "y"]),
    ("", ["lambda x: {'a': x,", "    'b': %d}['b'] + x"], "", ["x"]),
    ("wrap(0, key=", ["lambda x: 'x' * (x + %d)"], ")", ["x"]),
    ("", ["lambda: %d"], "", []),
    ("", ["lambda x: [i for i in range(x + %d)]"], "  # comment", ["x"]),
]


def write_module_file(path, text):
    """write the file and give it a modification time of its own (linecache, importlib and every cache keyed by
    the file's name or stat must see an edit)"""
    with open(path, "w", encoding="utf-8") as f:
        f.write(text)
    _STAMP[0] += 100
    os.utime(path, (_STAMP[0], _STAMP[0]))


def gen_reload_lam(rng, nm):
    c = LamCase()
    c.name = nm
    head, lam, sfx, pn = rng.choice(RELOAD_LAMS)
    k = rng.randrange(2, 90)
    c.pfx = nm + " = " + head
    c.lam = [l.replace("%d", str(k)) for l in lam]
    c.sfx, c.pnames = sfx, list(pn)
    c.pre = rng.choice(["", "", "", "    ", "\t"])
    c.features.add("reload_lambda")
    if len(lam) > 1:
        c.features.add("lambda_multiline")
    return c


def gen_reload_def(rng, nm):
    c = gen_def(rng, name=nm, allow_string=False)
    c.name = nm
    c.lead = []
    c.features.add("reload_def")
    return c


def gen_reload_scenario(rng, idx):
    """a module file in 3-4 versions: definitions (defs and lambdas of the grammar) under stable names, replaced by
    other definitions of the same name on the same or on shifted lines, added and removed; captured from the
    function OBJECTS after every edit, and reloaded into a space made from the module"""
    defs_only = rng.random() < 0.4
    n = rng.randrange(2, 5)
    kinds = ["def" if (defs_only or rng.random() < 0.45) else "lam" for _ in range(n)]
    if not defs_only and "lam" not in kinds:
        kinds[0] = "lam"
    if rng.random() < 0.5:
        kinds.sort(key=lambda k: k != "lam")       # lambdas first: they stay on their lines when defs change
    names = ["%s%d_%d" % ("d" if k == "def" else "l", idx, i) for i, k in enumerate(kinds)]

    def fresh(i):
        return gen_reload_def(rng, names[i]) if kinds[i] == "def" else gen_reload_lam(rng, names[i])

    cur = [fresh(i) for i in range(n)]
    extra = gen_reload_def(rng, "x%d" % idx)
    has_extra = rng.random() < 0.3
    toggled = False
    head = []
    versions = []
    for v in range(rng.choice([3, 3, 4])):
        if v > 0:
            changed = False
            for i in range(n):
                if rng.random() < 0.6:
                    cur[i] = fresh(i)
                    changed = True
            if not changed:
                cur[0] = fresh(0)
            if rng.random() < 0.35:
                head = head + rng.choice([["# edited"], ["", "# a note", ""], ["import math"]])
            elif head and rng.random() < 0.2:
                head = head[1:]
            if not toggled and rng.random() < 0.3:
                # a function appears or disappears - once (a name that comes back after it was removed makes
                # Space.reload() fail with ValueError: the bookkeeping of reload, not the capture of formulas)
                has_extra = not has_extra
                toggled = True
        items = [{"name": names[i], "case": cur[i].to_json()} for i in range(n)]
        if has_extra:
            items.append({"name": extra.name, "case": extra.to_json()})
        versions.append({"head": list(head), "items": items})
    return {"via": "reload", "module_name": "c20reload_%d" % idx, "versions": versions,
            "evaluate_first": rng.random() < 0.5,
            "import_with": rng.choice(["import_module", "new_space_from_module"])}


def module_text(version):
    parts = ["from %s import *\n" % PRELUDE_MODULE] + [l + "\n" for l in version["head"]]
    for it in version["items"]:
        c = case_from_json(it["case"])
        text = core_render(c)
        parts.append(("if True:\n" + text) if c.pre else text)
        parts.append("\n")
    return "".join(parts)


def object_view(c, fobj):
    """the structure modelx is given for a def OBJECT: inspect.getsource(func), i.e. from the first decorator (or
    `def`) to the end of the block"""
    if c.kind != "def":
        return c
    gs = inspect.getsource(fobj)
    full = core_render(c).split("\n")[:-1]
    skip = len(c.lead)
    got = gs.split("\n")[:-1]
    if full[skip:skip + len(got)] != got:
        return None     # the object is not the definition of the file's current text
    n_tail = len(full) - skip - len(got)
    c2 = DefCase.from_json(c.to_json())
    c2.lead = []
    if n_tail > len(c.trail):
        raise core.Infra("inspect.getsource cut into the body")
    c2.trail = c.trail[:len(c.trail) - n_tail]
    return c2


class OuterOut:
    """reports of the single captures go to the history of the whole scenario"""

    def __init__(self, out, outer, where):
        self.out, self.outer, self.where = out, outer, where

    def fail(self, what, history, detail=None, key=None):
        d = dict(detail or {})
        d["at"] = self.where
        self.out.fail(what, self.outer, detail=d, key=key)

    def disagree(self, history, index, impl, model, layer=None):
        self.out.disagree(self.outer, index, "%s: %s" % (self.where, impl), "%s: %s" % (self.where, model), layer=layer)


def load_version(h, k, tmp):
    """write version k of the scenario's file and import or reload the module"""
    name = h["module_name"]
    path = os.path.join(tmp, name + ".py")
    text = module_text(h["versions"][k])
    write_module_file(path, text)
    try:
        if name in sys.modules:
            mod = importlib.reload(sys.modules[name])
        else:
            importlib.invalidate_caches()
            mod = importlib.import_module(name)
    except Exception as e:   # noqa
        raise core.Infra("generated module does not import: %s\n%s" % (e, text[:2000]))
    return mod, text


def model_capture_ops(case, name):
    if case.kind == "def":
        return ["reset", case.op("new", "def", "%none" if name is None else esc(name)), "obs"]
    return ["reset", case.op("new", "lam", "obj", esc(name or "lam")), "obs"]


def run_reload_history(h, out, stats, tmp):
    """(1) after every edit of the file: cells from the function objects of the re-imported module, each checked as
    every object capture is (source against the model, values against the object, fixed point, rename, set_doc);
    (2) a space made from the module, reloaded by modelx after every edit: every cells must compute what the
    module's function of that name computes now, and show its text"""
    cases = [case_from_json(it["case"]) for v in h["versions"] for it in v["items"]]
    prerender(cases)
    stats.feat(["reload_scenario"])
    # ---- (1) direct capture from the objects
    for k in range(len(h["versions"])):
        mod, text = load_version(h, k, tmp)
        proxy = OuterOut(out, h, "version %d, new_cells(formula=<object>)" % k)
        runs = []
        for it in h["versions"][k]["items"]:
            nm = it["name"]
            fobj = getattr(mod, nm)
            case = object_view(case_from_json(it["case"]), fobj)
            if case is None:
                raise core.Infra("inspect.getsource returned something else than the definition lines")
            prerender([case])
            ops = [["recreate", 0]] if k % 2 else [["rename", "r_" + nm], ["setdoc", 0, 0, "doc %d" % k], ["recreate", 0]]
            sub = {"via": "object", "base": case.to_json(), "name": "c_" + nm, "subs": [], "ops": ops,
                   "module": text, "accessor": nm}
            runs.append(run_impl(sub, proxy, stats, func_obj=fobj))
            stats.feat(["reload_capture_v%d" % min(k, 1)])
        compare_batch(runs, proxy)
    # ---- (2) modelx's own reload of a space made from the module
    close_all()
    try:
        # a fresh import: importlib.reload() keeps the names of earlier versions in the module's namespace
        sys.modules.pop(h["module_name"], None)
        mod, text = load_version(h, 0, tmp)
        with quiet():
            m = mx.new_model()
            sp = getattr(m, h["import_with"])(module=mod, name="Imported")
            sp.G = G_VALUE
        evaluated = set()          # cells evaluated since the namespace of the space last changed
        stale_risk = set()         # cells whose formula was replaced by a reload while in `evaluated`
        reloaded_lambda = False
        prev_names = None
        for k in range(len(h["versions"])):
            ver = h["versions"][k]
            names = [it["name"] for it in ver["items"]]
            where = "version %d, Space.reload()" % k if k else "version 0, %s" % h["import_with"]
            if k:
                mod, text = load_version(h, k, tmp)
                prev = {it["name"]: it["case"] for it in h["versions"][k - 1]["items"]}
                before = set(sp.cells)
                try:
                    with quiet():
                        sp.reload()
                except Exception as e:   # noqa
                    key = None
                    if isinstance(e, KeyError) and e.args == ("<lambda>",) and reloaded_lambda:
                        key = "C20-reload-lambda-name"
                    out.fail("Space.reload() raised %s" % type(e).__name__, h,
                             detail={"at": where, "error": err_kind(e)}, key=key)
                    return
                mod = sys.modules[h["module_name"]]
                # a cells created by the reload changes the namespace of the space, which makes every cells bind
                # its formula's code again; nothing else does
                same_names = not (set(sp.cells) - before)
                if not same_names:
                    evaluated.clear()
                    stale_risk.clear()
                else:
                    for it in ver["items"]:
                        if it["name"] in evaluated and it["case"] != prev.get(it["name"]):
                            stale_risk.add(it["name"])
                if any(case_from_json(it["case"]).kind == "lam" and it["name"] in prev for it in ver["items"]):
                    reloaded_lambda = True
                stats.feat(["space_reload", "space_reload_" + ("same_names" if same_names else "names_changed")])
            prev_names = names
            ops, impl_lines, tags = [], [], []
            for it in ver["items"]:
                nm = it["name"]
                fobj = getattr(mod, nm)
                case = object_view(case_from_json(it["case"]), fobj)
                if case is None:
                    raise core.Infra("the reloaded module does not hold the definitions of the file")
                if nm not in sp.cells:
                    out.fail("a function of the module has no cells after %s" % ("reload" if k else "import"), h,
                             detail={"at": where, "name": nm})
                    continue
                c = sp.cells[nm]
                ops.extend(model_capture_ops(case, None if case.kind == "def" else nm))
                impl_lines.extend(["ok", "ok", observe_entry(c)])
                tags.append(nm)
                if k == 0 and not h["evaluate_first"]:
                    continue
                argsets = sample_args(case.pnames)
                want = call_all(fobj, argsets)
                got = call_all(c, argsets)
                stats.evals += len(got)
                evaluated.add(nm)
                if got != want:
                    out.fail("a cells of a space made from a module does not compute what the module's function "
                             "computes %s" % ("after the module was edited and the space reloaded" if k else "after import"),
                             h, detail={"at": where, "name": nm, "cells": got, "function": want,
                                        "source": c.formula.source},
                             key="C20-reload-stale-code" if nm in stale_risk else None)
                src = c.formula.source
                try:
                    ns = reference_namespace()
                    if c._impl.formula._is_lambda:
                        fn = eval(compile("(" + src + "\n)", "<source>", "eval"), ns)
                    else:
                        exec(compile(src, "<source>", "exec"), ns)
                        fn = ns.get(nm)
                    again = call_all(fn, argsets)
                except Exception as e:   # noqa
                    again = [("exec-failed", type(e).__name__)]
                if again != want:
                    out.fail("formula.source of a cells of a space made from a module is not the module's function", h,
                             detail={"at": where, "name": nm, "source": src, "got": again, "function": want})
                if tuple(c.parameters) != tuple(inspect.signature(fobj).parameters):
                    out.fail("cells.parameters differ from the function's parameters", h,
                             detail={"at": where, "name": nm, "cells": list(c.parameters)})
            if ops:
                lines = core.run_driver("capture", ops)
                for j, nm in enumerate(tags):
                    a, b = impl_lines[3 * j + 2], model_doc_values(lines[3 * j + 2])
                    if a != b:
                        out.disagree(h, k, "%s %s: %s" % (where, nm, a), "%s %s: %s" % (where, nm, b), layer="capture")
    finally:
        close_all()


def reload_motifs():
    """scenario families that are run first on every run: the same file written, imported, captured, rewritten"""
    def lam(nm, text, pn, pre="", sfx=""):
        c = LamCase()
        c.name, c.pfx, c.lam, c.sfx, c.pnames, c.pre = nm, nm + " = ", text if isinstance(text, list) else [text], sfx, pn, pre
        c.features = {"reload_lambda"}
        return c.to_json()

    def fn(nm, sig, pn, body, doc=None):
        c = DefCase()
        c.name, c.sig, c.pnames = nm, sig, pn
        if doc:
            c.doc, c.after, c.rest = ('"""', [doc], '"""'), "", ["    " + b for b in body]
        else:
            c.after, c.rest = body[0], ["    " + b for b in body[1:]]
        c.features = {"reload_def"}
        return c.to_json()

    def scen(tag, versions, evaluate_first, how="import_module"):
        return {"via": "reload", "module_name": "c20reload_" + tag, "evaluate_first": evaluate_first, "import_with": how,
                "versions": [{"head": hd, "items": [{"name": c["name"], "case": c} for c in items]} for hd, items in versions]}

    ms = []
    # lambdas stay on their lines; bodies and defaults change; a def below them changes too
    ms.append(scen("m1", [
        ([], [lam("foo", "lambda x: x + 1", ["x"]), lam("bar", ["lambda x, y=2: (x *", "      y)"], ["x", "y"]),
              fn("baz", "(x):", ["x"], ["return 3 * x"], doc="the def")]),
        ([], [lam("foo", "lambda x: x * 100", ["x"]), lam("bar", ["lambda x, y=5: (x -", "      y)"], ["x", "y"]),
              fn("baz", "(x):", ["x"], ["return 4 * x"], doc="the def")]),
        ([], [lam("foo", "lambda x, y=3: x - y", ["x", "y"]), lam("bar", ["lambda x: (x,", "      G)"], ["x"]),
              fn("baz", "(x, y=1):", ["x", "y"], ["return 5 * x + y"], doc="the def")])], False))
    # the same, every cells evaluated before each reload; another way of making the space
    ms.append(scen("m2", [(v["head"], [it["case"] for it in v["items"]]) for v in ms[0]["versions"]],
                   True, "new_space_from_module"))
    # the lambdas move to other lines (lines inserted above, a def above grows), then back
    ms.append(scen("m3", [
        ([], [fn("top", "(x):", ["x"], ["return x"]), lam("foo", "lambda x: x + 1", ["x"]), lam("lst", "lambda x: [x, 1]", ["x"])]),
        (["# inserted", ""], [fn("top", "(x):", ["x"], ["a = x", "return a + 1"]), lam("foo", "lambda x: x + 2", ["x"]),
                              lam("lst", "lambda x: [x, 2]", ["x"])]),
        ([], [fn("top", "(x):", ["x"], ["return x"]), lam("foo", "lambda x: x + 3", ["x"]), lam("lst", "lambda x: [x, 3]", ["x"])])],
        False))
    # a line holds a def in one version and a lambda in the next, and the other way round
    ms.append(scen("m4", [
        ([], [_oneline("one", "return x + 1"), lam("two", "lambda x: x * 2", ["x"])]),
        ([], [lam("one", "lambda x: x + 10", ["x"]), _oneline("two", "return x * 20")]),
        ([], [_oneline("one", "return x + 100"), lam("two", "lambda x: x * 200", ["x"])])], False))
    # defs only: evaluated, edited (nothing added or removed), reloaded twice; then a function is added
    ms.append(scen("m5", [
        ([], [fn("baz", "(x):", ["x"], ["return 3 * x"]), fn("qux", "(x, y=2):", ["x", "y"], ["return x + y"])]),
        ([], [fn("baz", "(x):", ["x"], ["return 4 * x"]), fn("qux", "(x, y=2):", ["x", "y"], ["return x + y"])]),
        ([], [fn("baz", "(x, y=2):", ["x", "y"], ["return 5 * x + y"]), fn("qux", "(x, y=3):", ["x", "y"], ["return x - y"])]),
        ([], [fn("baz", "(x, y=2):", ["x", "y"], ["return 6 * x + y"]), fn("qux", "(x, y=3):", ["x", "y"], ["return x - y"]),
              fn("added", "(x):", ["x"], ["return x"])])], True))
    # indented lambdas (inside an `if` block of the module), multi-line, decorated defs
    ms.append(scen("m6", [
        ([], [lam("ind", ["lambda x, y=(1,", "      2): x + y[0]"], ["x", "y"], pre="    "), lam("z", "lambda: 7", [])]),
        (["import math"], [lam("ind", ["lambda x, y=(4,", "      2): x - y[0]"], ["x", "y"], pre="    "), lam("z", "lambda: 8", [])])],
        True))
    return ms


def _oneline(nm, stmt):
    c = DefCase()
    c.name, c.sig, c.pnames, c.body, c.after = nm, "(x): ", ["x"], "inline", stmt
    c.features = {"reload_def", "one_line_body"}
    return c.to_json()


def run_reload_stream(ctx, n, out, stats, tmp, first=()):
    with open(os.path.join(tmp, PRELUDE_MODULE + ".py"), "w") as f:
        f.write(NS_PRELUDE)
    if tmp not in sys.path:
        sys.path.insert(0, tmp)
    try:
        for h in list(first) + reload_motifs():
            run_reload_history(h, out, stats, tmp)
            RENDER.clear()
        for i in range(n):
            run_reload_history(gen_reload_scenario(ctx.rng("reload", i), i), out, stats, tmp)
            RENDER.clear()
    finally:
        if tmp in sys.path:
            sys.path.remove(tmp)
        for k in [k for k in sys.modules if k.startswith("c20reload_") or k == PRELUDE_MODULE]:
            del sys.modules[k]


# ----------------------------------------------------------------------------- quote_docstring

def run_quote_docs(docs, out, stats):
    """`quote_docstring` against the model's `quoteDocstring`, character by character; the literal evaluated
    by CPython (implementation-only oracle: its value is the text; it holds no line boundary other than the
    line feed, so that the line-based rewriting leaves it alone) and by the model's lexer"""
    from modelx.core.formula import quote_docstring
    lines = core.run_driver("capture", ["quote\t" + esc(d) for d in docs]) if docs else []
    for d, line in zip(docs, lines):
        h = {"quote": d}
        q = quote_docstring(d)
        try:
            v = ast.literal_eval(q)
        except Exception as e:   # noqa
            v = None
            out.fail("quote_docstring(d) is not a Python literal (%s)" % type(e).__name__, h, detail={"quoted": q})
        if v is not None and v != d:
            out.fail("the value of the literal quote_docstring(d) is not d", h, detail={"quoted": q, "value": v})
        if "\n".join(q.splitlines()) != q or "\x00" in q:
            out.fail("quote_docstring(d) holds a line boundary other than the line feed, or NUL", h, detail={"quoted": q})
        try:
            ns = {}
            exec(compile("def f():\n    " + q + "\n", "<quoted>", "exec"), ns)
            if ns["f"].__doc__ != d:
                out.fail("quote_docstring(d) as the docstring of a def is not d", h,
                         detail={"quoted": q, "doc": ns["f"].__doc__})
        except Exception as e:   # noqa
            out.fail("quote_docstring(d) does not compile as a docstring (%s)" % type(e).__name__, h, detail={"quoted": q})
        impl = "quoted=%s\tback%s\tclean=%s" % (esc(q), "%none" if v is None else "=" + esc(v),
                                               str(not has_ws_only_middle_line(d)).lower())
        if impl != line:
            out.disagree(h, 0, impl, line, layer="capture")
        stats.quoted += 1
        stats.doc_kinds[doc_kind(d)] = stats.doc_kinds.get(doc_kind(d), 0) + 1


def run_quote_stream(rng, n, out, stats):
    docs = DOCS_PLAIN + DOCS_WSLINE + DOCS_ESCAPED + ['"' * k for k in range(1, 9)] + [gen_doc_text(rng) for _ in range(n)]
    run_quote_docs(docs, out, stats)


# ----------------------------------------------------------------------------- malformed stream

MALFORMED = [
    "class A:\n    pass\n", "async def f(x):\n    return x\n", "def f(x): return x\ndef g(x): return x\n",
    "x = 1\n", "", "def f(x:\n", "def f(x):\nreturn x\n", "    def f(x):\n        return [\n  x]\n",
    "import os\n", "f(x)\n", "def f(x): return x\nx = 1\n", "@deco\nclass A: pass\n",
]


def run_malformed(out, stats):
    close_all()
    with quiet():
        m = mx.new_model()
        s = m.new_space()
    for text in MALFORMED:
        n0 = len(s.cells)
        try:
            with quiet():
                s.new_cells(name="bad", formula=text)
            out.fail("a text that is neither a def nor contains a lambda was accepted", {"malformed": text})
            del s.cells["bad"]
        except (ValueError, SyntaxError) as e:
            k = "rejected:" + err_kind(e)
            stats.rejected[k] = stats.rejected.get(k, 0) + 1
        except Exception as e:   # noqa
            out.fail("malformed text raised %s" % type(e).__name__, {"malformed": text})
        if len(s.cells) != n0:
            out.fail("a refused definition left a cells behind", {"malformed": text})
    close_all()


# ----------------------------------------------------------------------------- corpus

def corpus_histories():
    res = []
    d = os.path.join(core.CORPUS_DIR, "C20")
    if os.path.isdir(d):
        import json
        for fn in sorted(os.listdir(d)):
            if fn.endswith(".json"):
                res.append(json.load(open(os.path.join(d, fn)))["history"])
    return res


def fixed_histories():
    """layouts named in the property's rationale, always run"""
    hs = []

    def mk(case, name=None, subs=(), ops=()):
        return {"via": "text", "base": case.to_json(), "name": name, "subs": list(subs), "ops": [list(o) for o in ops]}

    # decorated nested def / nested class with @property under an undecorated outer def
    c = DefCase()
    c.after = "def twice(f):"
    c.rest = ["        return lambda v: 2 * f(v)", "", "    @twice", "    def g(v):", "        return v + 1", "",
              "    return g(x)"]
    c.features = {"nested_decorated_def"}
    hs.append(mk(c, ops=[["rename", "bar"], ["setdoc", 0, 0, "doc"], ["recreate", 0]]))
    c = DefCase()
    c.name, c.sig, c.pnames = "area", "(x, y=3):", ["x", "y"]
    c.after = "class Rect:"
    c.rest = ["        def __init__(self, w, h):", "            self.w, self.h = w, h", "", "        @property",
              "        def area(self):", "            return self.w * self.h", "", "    return Rect(x, y).area"]
    c.features = {"nested_class"}
    hs.append(mk(c, ops=[["rename", "bar"], ["recreate", 0]]))
    # Base.foo, Sub overrides foo, SubSub derived; rename through the base; doc edits at each level
    b = DefCase()
    b.sig, b.pnames = "(x, y=10):", ["x", "y"]
    b.doc = ('"""', ["base doc"], '"""')
    b.rest = ["    return x + y"]
    o = DefCase()
    o.sig, o.pnames = "(x, y=10):", ["x", "y"]
    o.doc = ('"""', ["override doc"], '"""')
    o.rest = ["    # the sub space scales instead of shifting", "    return x * y * G"]
    hs.append(mk(b, subs=[{"how": "override", "case": o.to_json()}, {"how": "derived"}],
                 ops=[["rename", "bar"], ["setdoc", 0, 0, "new base doc"], ["rename", "baz"], ["setdoc", 2, 1, "a\nb"]]))
    hs.append(mk(b, subs=[{"how": "derived"}, {"how": "override", "case": o.to_json()}],
                 ops=[["rename", "bar"], ["setdoc", 1, 0, "sub doc"], ["rename", "foo"]]))
    # texts outside the model's grammar (implementation-only oracle)
    def raw(text, name, pnames, ops):
        return {"via": "rawtext", "base": RawCase(text, name, pnames).to_json(), "name": None, "subs": [],
                "ops": [list(o) for o in ops]}

    hs.append(raw("def foo(x):\n    'a' 'b'\n    return x\n", "foo", ["x"], [["setdoc", 0, 0, "doc"]]))
    hs.append(raw("def foo(x):\n    ('a')\n    return x\n", "foo", ["x"], [["setdoc", 0, 0, "doc"]]))
    hs.append(raw("    def foo(x):\n        return [\n  x,\n  1]\n", "foo", ["x"], [["rename", "bar"]]))
    # line boundaries other than the line feed inside the definition (known finding C20-splitlines-in-body)
    hs.append(raw("def foo(x):\n    t = '''a\x0cb'''\n    return t + str(x)\n", "foo", ["x"], [["rename", "bar"]]))
    hs.append(raw("def foo(x):\n    return 'a\u2028b' + str(x)  # one line for Python\n", "foo", ["x"], []))
    hs.append(raw("def foo(x):\n    # page\x0cbreak\n    return x\n", "foo", ["x"], []))
    hs.append(raw("def foo(x):\n    '''a\x85b'''\n    return x\n", "foo", ["x"], []))
    hs.append(raw("def foo(x, y=2):\n    return x + y  # plain\n", "foo", ["x", "y"],
                  [["rename", "bar"], ["setdoc", 0, 0, "doc"], ["recreate", 0]]))
    return hs


# ----------------------------------------------------------------------------- entry points

def run(ctx, out):
    stats = Stats()
    n_hist = ctx.n(260, 6000)
    n_obj_batches = ctx.n(4, 60)
    corpus = corpus_histories()
    reload_corpus = [h for h in corpus if h.get("via") == "reload"]
    setobj_corpus = [h for h in corpus if h.get("via") == "setobj"]
    hists = [h for h in corpus if h.get("via") not in ("reload", "setobj")] + fixed_histories()
    n_fixed = len(hists)
    for i in range(n_hist):
        hists.append(gen_history(ctx.rng("hist", i), i))
    seen = set()
    CH = 100
    for k in range(0, len(hists), CH):
        chunk = hists[k:k + CH]
        prerender([c for h in chunk for c in cases_of(h)])
        runs = [run_impl(h, out, stats) for h in chunk]
        compare_batch(runs, out)
        RENDER.clear()
    for i, h in enumerate(hists):
        seen.add(repr(h))
        if i in (n_fixed, n_fixed + 1, n_fixed + 2):
            stats.samples.append({"base": h["base"], "subs": [s["how"] for s in h["subs"]], "ops": h["ops"]})
    tmp = tempfile.mkdtemp(prefix="mxh_c20_")
    try:
        for b in range(n_obj_batches):
            run_object_batch(ctx.rng("objects", b), 8, out, stats, tmp, b)
        run_reload_stream(ctx, ctx.n(10, 150), out, stats, tmp, first=reload_corpus)
        n_setobj = run_setobj_stream(ctx, out, stats, tmp, first=setobj_corpus)
    finally:
        shutil.rmtree(tmp, ignore_errors=True)
        for k in [k for k in sys.modules if k.startswith("c20mod_")]:
            del sys.modules[k]
    run_malformed(out, stats)
    run_quote_stream(ctx.rng("quote"), ctx.n(400, 20000), out, stats)
    nontrivial = sum(1 for h in hists if h["ops"] and (case_from_json(h["base"]).features))
    out.coverage.update({
        "evaluations": stats.evals,
        "distinct_nontrivial": nontrivial,
        "rule": "histories = one generated definition layout (def or lambda, text) + optional sub spaces that derive or "
                "override + 1-4 edits (rename / set_doc with plain, escaped-character and generated texts / "
                "re-creation); plus formulas set from OBJECTS (Formula objects of other cells - other name, same name in "
                "another space, derived, other model, renamed -, the formula of a parametrised space, function objects of "
                "another name, bound methods) through every setter (formula =, set_formula, defcells onto an existing cells, "
                "new_cells with and without a name, Cells.copy), followed by rename / set_doc; non-trivial = the layout has at least one "
                "grammar feature beyond a plain def and at least one edit; evaluations = calls of cells compared with the "
                "plain Python function",
        "samples": stats.samples,
        "programs": len(seen) + n_obj_batches * 8 + n_setobj,
        "formulas_set_from_objects": n_setobj,
        "input_distribution": {"features": dict(sorted(stats.features.items())), "ops": stats.ops,
                               "edit_kinds_seen": sorted(map(str, stats.nontrivial)),
                               "layouts_compared_with_asttokens": stats.layouts,
                               "object_cases": n_obj_batches * 8, "malformed": stats.rejected,
                               "docstring_texts_by_kind": dict(sorted(stats.doc_kinds.items())),
                               "quote_docstring_strings": stats.quoted},
    })
    out.assumptions.append(
        "that the captured text behaves like the original function is Python's semantics: sampled on 3-4 argument "
        "tuples per cells, not proved; the token positions reported by CPython/asttokens are compared with the "
        "model's layoutOf on every generated case, not proved")


def replay(ctx, payload, out):
    stats = Stats()
    h = payload.get("history") or (payload.get("unexplained") or [{}])[-1].get("detail", {}).get("history")
    if not h:
        return
    if "malformed" in h:
        run_malformed(out, stats)
        return
    if "quote" in h:
        run_quote_docs([h["quote"]], out, stats)
        return
    if h.get("via") == "reload":
        tmp = tempfile.mkdtemp(prefix="mxh_c20_")
        try:
            with open(os.path.join(tmp, PRELUDE_MODULE + ".py"), "w") as f:
                f.write(NS_PRELUDE)
            sys.path.insert(0, tmp)
            run_reload_history(h, out, stats, tmp)
        finally:
            sys.path.remove(tmp)
            shutil.rmtree(tmp, ignore_errors=True)
            for k in [k for k in sys.modules if k.startswith("c20reload_") or k == PRELUDE_MODULE]:
                del sys.modules[k]
        return
    if h.get("via") == "setobj":
        tmp = tempfile.mkdtemp(prefix="mxh_c20_")
        try:
            prerender([case_from_json(h["base"])])
            compare_batch([run_setobj(h, out, stats, tmp)], out)
        finally:
            shutil.rmtree(tmp, ignore_errors=True)
        return
    if h.get("via") == "object":
        tmp = tempfile.mkdtemp(prefix="mxh_c20_")
        try:
            path = os.path.join(tmp, "c20mod_replay.py")
            open(path, "w", encoding="utf-8").write(h["module"])
            spec = importlib.util.spec_from_file_location("c20mod_replay", path)
            mod = importlib.util.module_from_spec(spec)
            spec.loader.exec_module(mod)
            prerender(cases_of(h))
            run = run_impl(h, out, stats, func_obj=getattr(mod, h["accessor"]))
            compare_batch([run], out)
        finally:
            shutil.rmtree(tmp, ignore_errors=True)
        return
    run_history(h, out, stats)
