"""C09 – the cached flag never changes any result.

Oracle (implementation only): a random history of edits and evaluations is generated once
and then replayed under several assignments of the cached flag to the cells names
(quick: all-cached, all-uncached and 4 random ones, every third history all 2^4; thorough: all 2^4) – the flag is forced
right after every creation / formula change, flag changes inside the history are kept – and
the sequence of evaluation results must be identical under every assignment; uncached cells
hold no values; an uncached cells accepts unhashable arguments and is re-executed on every
call.  The Lean side (Props/C09.lean) states what the mechanism model proves about uncached
cells (they hold nothing; values computed through them are the specification's).
"""
import collections
import itertools
import re

from .. import core
from .. import structworld as W
from .. import struct_props as S
from ..impl import mx, close_all, quiet
from ..execworld import deep_counter

CFG = {
    "weights": {"new_space": 1.0, "del_space": 0.3, "new_cells": 2.0, "set_formula": 3.5, "set_cached": 0.0,
                "del_cells": 0.8, "add_bases": 1.2, "remove_bases": 0.6, "set_ref": 3.0, "del_ref": 0.8,
                "set_mref": 0.8, "set_value": 0.0, "clear": 0.0, "eval": 7.0, "evalall": 1.0, "bad": 0.1,
                "set_param": 0.3, "eval_item": 0.6},
    # extended vocabulary of struct_props / structworld (call-and-read formulas, space formulas that read
    # references, the extended motif programs)
    "ext": True,
    # the enumerations also start from the programs in which a cells' VALUE depends on the NAME of its space
    "enum_motifs": [S.MOTIFS_NAME[0]],
}
# weights of the motif programs for the random histories: motif 8 assigns a value (uncached cells refuse that),
# the last extended motif switches flags itself
# (the extended motif with inputs gets no weight either; the one with a cells shared by several callers a high one)
MOTIF_WEIGHTS = [1, 1, 4, 3, 1, 2, 1, 1, 0, 1, 1] + [1] * (len(S.MOTIFS) - 11) + [1, 1, 1, 1, 3, 0, 0, 3]
RULE = ("one history of 14-28 edits/evaluations replayed under k assignments of the cached flag to the cells names "
        "{f,g,h,k} (flag forced after each creation and formula change; `flip` ops switch a name's flag at that point of the history, "
        "half of them followed by an edit of a reference of a space that has such a cells; after every motif program: every cells name switched "
        "in mid-history x every edit of an existing reference; a cells shared by several callers: one caller invalidated on its own, then an "
        "edit through the shared cells; spaces that hold cells renamed, also after a program whose cells return a value "
        "that depends on the NAME of their space and are called from elsewhere); non-trivial = the assignments produced at "
        "least one evaluation through an uncached cells whose value later changed after an edit")


def replay_with_flags(ops, flags, base=False, meta=None):
    """-> list of eval results; flags: name -> bool.  `flip name` ops change the assignment at
    that point of the history (the flag of every *defined* cells of that name is switched); the
    all-cached base run ignores them.  meta (a list): per `eval` result (name, cached flag, formula source of the
    cells asked), and at the end a dict query-prefix "S.c" -> the same (what `classify` reads)"""
    close_all()
    live = W.Live("M")
    res = []
    flags = dict(flags)

    def about(path, cn):
        try:
            c = live.space(path).cells[cn]
            return (cn, bool(c.is_cached), c.formula.source)
        except Exception:
            return (cn, None, None)
    try:
        for op in ops:
            if op[0] == "evalall":
                S.eval_everything(live)
                continue
            if op[0] == "flip":
                if not base:
                    flags[op[1]] = not flags[op[1]]
                    for path, s in W.all_spaces(live.m):
                        if op[1] in s.cells and not s.cells[op[1]]._is_derived():
                            live.apply(["set_cached", path, op[1], int(flags[op[1]])])
                continue
            if op[0] == "eval" and meta is not None:
                meta.append(about(op[1], op[2]))
            r = live.apply(op)
            if op[0] in ("new_cells", "set_formula") and r == "ok":
                live.apply(["set_cached", op[1], op[2], int(flags.get(op[2], True))])
            if op[0] == "rename_cells" and r == "ok":
                live.apply(["set_cached", op[1], op[3], int(flags.get(op[3], True))])
            if op[0] == "eval":
                res.append(r)
            # uncached cells hold nothing
            for path, s in W.all_spaces(live.m):
                for cn, c in s.cells.items():
                    if not c.is_cached and len(c):
                        res.append("UNCACHED-HOLDS %s.%s" % (path, cn))
        if meta is not None:
            meta.append({"%s.%s" % (path, cn): about(path, cn) for path, sp in W.all_spaces(live.m) for cn in list(sp.cells)})
        res.append(("final", tuple(sorted(S.eval_everything(live).items()))))
    finally:
        live.close()
        close_all()
    return res


def gen_ops(rng):
    close_all()
    live = W.Live("M")
    ops = [["set_mref", "u", 11], ["set_mref", "r", 12]] + S.motif(rng, MOTIF_WEIGHTS, pool=S.motifs_for(CFG))
    focus = 2 if rng.random() < 0.6 else None
    try:
        for op in ops:
            live.apply(op)
        follow = None
        for _ in range(rng.randint(14, 28)):
            if follow:
                op, follow = follow, None
            elif rng.random() > 0.08:
                op = S.gen_next(rng, live, CFG, ops, focus=focus)
            else:
                op = ["flip", rng.choice(W.CELLS)]
                # a flag switch in mid-history is most interesting when a definition the switched cells
                # reads changes next: half of the switches are followed by an edit of an existing reference
                # of a space that has a cells of that name
                holders = [(p, sp) for p, sp in W.all_spaces(live.m) if op[1] in sp.cells
                           and [r for r in sp._own_refs if not hasattr(sp.refs.get(r), "_impl")]]
                if holders and rng.random() < 0.5:
                    p, sp = rng.choice(holders)
                    rn = rng.choice([r for r in sp._own_refs if not hasattr(sp.refs.get(r), "_impl")])
                    follow = ["set_ref", p, rn, rng.randint(0, 9)]
            ops.append(op)
            if op[0] == "flip":
                continue
            if op[0] == "evalall":
                S.eval_everything(live)
            else:
                live.apply(op)
    finally:
        live.close()
        close_all()
    return ops


KNOWN_DELSPACE = "C09-deleted-space-uncached-cells"


KNOWN_CAUGHT = "C09-caught-failure-untracked"
CATCH_RE = re.compile(r"except \(NameError, AttributeError, TypeError\):\s+return (-\d+)")


def classify(ops, flags, pairs, asked=None):
    """known findings are recognised by their specific trigger.  pairs: the differing observations
    (under the assignment, all cached); asked: for each of them (name, cached flag under the assignment,
    formula source) of the cells that was asked"""
    if pairs and asked and len(asked) == len(pairs) and all(
            who[1] is False and who[2] and CATCH_RE.search(who[2]) and str(b) == "ok " + CATCH_RE.search(who[2]).group(1)
            and str(a) != str(b) for (a, b), who in zip(pairs, asked)):
        # every differing observation is the answer of an UNCACHED cells whose formula catches the failure of a callee,
        # where the all-cached run returns the default of the `except` branch: that run holds the default computed
        # while the callee failed - modelx records no dependency on a callee that failed (C02-caught-failure-untracked),
        # so the edit that made the callee succeed did not clear it - and the uncached cells simply ran again
        return KNOWN_CAUGHT
    if pairs and all(str(b).startswith("err Formula Deleted") and str(a).startswith("ok") for a, b in pairs):
        # a space holding an uncached cells was deleted: BaseSpaceImpl.on_delete clears the values the cells of
        # the space hold, an uncached cells holds none, and its object node - with the values cached callers
        # elsewhere computed through it (reached by an object-valued reference) - stays
        names = {n for n, c in flags.items() if not c} | {o[1] for o in ops if o[0] == "flip"}
        if S.deleted_space_held_uncached(ops, names):
            return KNOWN_DELSPACE
    return None


def check_history(ops, out, stats, assignments):
    deep_counter.install()
    d0 = deep_counter.count
    base = replay_with_flags(ops, {n: True for n in W.CELLS}, base=True)
    changed = len(set(r for r in base if isinstance(r, str))) > 2
    nontrivial = False
    # the replay applies the assignment by NAME, at the operations that mention the name (creation, formula change,
    # rename target, flip): two assignments that agree on the names the history mentions are the same run, and one
    # that caches all of them (in a history without flips) is the all-cached run
    used = ({o[2] for o in ops if o[0] in ("new_cells", "set_formula")} | {o[3] for o in ops if o[0] == "rename_cells"}
            | {o[1] for o in ops if o[0] == "flip"})
    has_flip = any(o[0] == "flip" for o in ops)
    seen = set()
    for fl in assignments:
        flags = dict(zip(W.CELLS, fl))
        proj = tuple(flags[n] for n in W.CELLS if n in used)
        if proj in seen or (all(proj) and not has_flip):
            stats["replays_skipped_same_run"] += 1
            continue
        seen.add(proj)
        meta = []
        got = replay_with_flags(ops, flags, meta=meta)
        stats["replays"] += 1
        if any(isinstance(r, str) and r.startswith("UNCACHED-HOLDS") for r in got):
            out.fail("an uncached cells holds values (%s)" % [r for r in got if str(r).startswith("UNCACHED")][0],
                     dict(S.hist_json(ops), flags=flags))
        got = [r for r in got if not (isinstance(r, str) and r.startswith("UNCACHED-HOLDS"))]
        if got != base:
            deep = deep_counter.count > d0
            # first difference
            idx = next((i for i, (a, b) in enumerate(zip(got, base)) if a != b), None)
            a, b = (got[idx], base[idx]) if idx is not None else (len(got), len(base))
            pairs = [(a, b)]
            asked = [meta[idx]] if idx is not None and idx < len(meta) - 1 else None
            if isinstance(a, tuple):
                da, db = dict(a[1]), dict(b[1])
                diff = {q: (da[q], db.get(q)) for q in da if da[q] != db.get(q)}
                a, b = "final " + str(list(diff.items())[:2]), ""
                if all("Deep" in str(v) for v in diff.values()):
                    continue
                pairs = list(diff.values())
                asked = [meta[-1].get(q.split("(")[0].split("[")[0] if "[" not in q else "", (None, None, None))
                         for q in diff] if meta and isinstance(meta[-1], dict) else None
            if "Deep" in str(a) or "Deep" in str(b):
                continue
            out.fail("results differ between the cached-flag assignment %s and all-cached: %s vs %s" % (flags, a, b),
                     dict(S.hist_json(ops), flags=flags), key=classify(ops, flags, pairs, asked))
        if not all(fl) and changed:
            nontrivial = True
    return nontrivial


def enumerate_single_edits(ctx, out, stats, allassign):
    """small-scope exhaustive part: every motif program x every applicable single edit x flag
    assignments: evaluate everything, edit, evaluate everything; results must not depend on flags"""
    for mi, motif in enumerate(S.motifs_for(CFG) + [list(m) for m in CFG["enum_motifs"]]):
        if not motif or any(o[0] in ("set_value", "set_cached") for o in motif):
            continue        # inputs need a cached cells; the flags are the assignment's
        prefix = [["set_mref", "u", 11], ["set_mref", "r", 12]] + [list(o) for o in motif]
        close_all()
        live = W.Live("M")
        try:
            for op in prefix:
                live.apply(op)
            edits = [e for e in S.single_edits(live) if e[0] != "set_value"]   # inputs need a cached cells
            refed = [e for e in S.ref_edits_existing(live, edits) if e[0] != "del_mref"]
            # every space that holds cells (or whose descendants do) renamed: what was computed elsewhere through an
            # uncached cells of the renamed tree must follow (the quick sample of the other edits does not move)
            renames = S.rename_space_edits(live)
            S.eval_everything(live)
            shared = S.shared_callee_sequences(live, edits, with_names=True)
        finally:
            live.close()
            close_all()
        rng = ctx.rng("enum", mi)
        # the motifs about FORMULAS OF SPACES (no flag of their own; they are C02's subject) run lighter in the quick
        # tier: half the sample of single edits, four (seeded) of the edits of existing references in the flip family
        light = ctx.tier == "quick" and any(o[0] == "set_param" and o[2] != 1 for o in motif)
        if light:
            refed = ctx.rng("enum-light", mi).sample(refed, min(len(refed), 4))
        enumerate_flips(ctx, out, stats, allassign, mi, motif, prefix, refed)
        if len([f for f in out.failures if not f.get("key")]) >= 4:
            return
        enumerate_shared(ctx, out, stats, allassign, mi, prefix, shared)
        if len([f for f in out.failures if not f.get("key")]) >= 4:
            return
        if ctx.tier == "quick":
            # a seeded sample, plus every edit that changes what a sub space derives from
            always = [e for e in edits if e[0] in ("remove_bases", "del_cells") or (e[0] == "set_formula" and e[3][0] == 0)
                      or (e[0] == "add_bases" and len(e[2]) == 1)]
            edits = rng.sample(edits, min(len(edits), 3 if light else 6))
            edits += [e for e in always if e not in edits]
            # renames: all of them after the programs about names, one (seeded) after each of the others
            if mi < len(S.motifs_for(CFG)) and renames:
                renames = [ctx.rng("enum-rename", mi).choice(renames)]
        edits = edits + renames
        stats["enumerated_space_renames"] += len(renames)
        single = [a for a in allassign if sum(1 for x in a if not x) == 1]
        double = [a for a in allassign if sum(1 for x in a if not x) == 2]
        for e in edits:
            ops = prefix + [["evalall"], e, ["evalall"]]
            # quick: nothing cached, every single cells uncached, and three (seeded) of the six pairs
            assignments = allassign[1:] if ctx.tier == "thorough" else [allassign[-1]] + single + rng.sample(double, 3)
            stats["enumerated_scenarios"] += 1
            check_history(ops, out, stats, assignments)
            if len([f for f in out.failures if not f.get("key")]) >= 4:
                return


def enumerate_shared(ctx, out, stats, allassign, mi, prefix, shared, cap=12):
    """a cells shared by several callers (struct_props.shared_callee_sequences, read off the dependency graph of the
    all-cached model): everything evaluated; ONE caller is invalidated on its own (cleared, one element cleared, a
    reference only it reads by attribute path changed); then an edit that must reach what the OTHER callers hold
    through the shared cells (its formula, its name, its deletion, a reference it reads); everything evaluated again.
    Assignments: the shared cells alone uncached, with one other name, nothing cached.  Quick tier: a seeded
    sample of `cap` sequences per motif."""
    rng = ctx.rng("shared", mi)
    if ctx.tier != "thorough":
        shared = rng.sample(shared, min(len(shared), cap))
    for nu, seq in shared:
        i = W.CELLS.index(nu) if nu in W.CELLS else None
        if i is None:
            continue

        def asg(unc):
            return tuple(k not in unc for k in range(len(W.CELLS)))
        if ctx.tier == "thorough":
            assignments = allassign[1:]
        else:
            j = rng.choice([k for k in range(len(W.CELLS)) if k != i])
            assignments = [asg({i}), asg({i, j}), allassign[-1]]
        ops = prefix + [["evalall"]] + [list(o) for o in seq] + [["evalall"]]
        stats["enumerated_shared_callee_scenarios"] += 1
        check_history(ops, out, stats, assignments)
        if len([f for f in out.failures if not f.get("key")]) >= 4:
            return


def enumerate_flips(ctx, out, stats, allassign, mi, motif, prefix, refed):
    """flag switches in mid-history: after the motif program with everything evaluated, the flag of one cells
    name is switched (uncached -> cached and cached -> uncached, depending on the assignment), then one
    existing reference is changed or deleted (with or without evaluating everything in between), and
    everything is evaluated again.  What was computed THROUGH the switched cells while it had the other
    flag must still follow the edit.  The all-cached run ignores the switch."""
    names = [n for n in W.CELLS if any(o[0] == "new_cells" and o[2] == n for o in motif)]
    rng = ctx.rng("flips", mi)
    for n in names:
        i = W.CELLS.index(n)
        others = [j for j in range(len(W.CELLS)) if j != i and W.CELLS[j] in names]
        if ctx.tier == "thorough":
            assignments = allassign[1:]
        else:
            def asg(unc):
                return tuple(k not in unc for k in range(len(W.CELLS)))
            # n alone uncached (switched ON); n and one other; nothing cached; n cached next to an uncached one (switched OFF)
            assignments = [asg({i}), allassign[-1]]
            if others:
                j = rng.choice(others)
                assignments += [asg({i, j}), asg({j})]
            else:
                assignments += [allassign[0]]       # everything cached, n switched OFF
        # quick tier: a seeded sample of the edits of existing references: 6 after the extended motifs, 3 after the others
        es = refed if ctx.tier == "thorough" else rng.sample(refed, min(len(refed), 6 if mi >= len(S.MOTIFS) else 3))
        for e in es:
            variants = [[], [["evalall"]]]
            if ctx.tier != "thorough":
                variants = [rng.choice(variants)]
            for mid in variants:
                ops = prefix + [["evalall"], ["flip", n]] + mid + [e, ["evalall"]]
                stats["enumerated_flip_scenarios"] += 1
                check_history(ops, out, stats, assignments)
                if len([f for f in out.failures if not f.get("key")]) >= 4:
                    return


def unhashable(out, stats):
    close_all()
    with quiet():
        m = mx.new_model("U")
        s = m.new_space("S")
        count = []
        m.zc = count.append
        s.new_cells("u", formula="def u(x):\n    zc(1)\n    return len(x)", is_cached=False)
        s.new_cells("c", formula="def c(x):\n    return u([x, x]) + u([x])")
        try:
            ok = s.u([1, 2]) == 2 and s.u([1, 2]) == 2 and s.c(1) == 3
        except Exception as e:
            ok = False
            out.fail("an uncached cells rejected an unhashable argument: %r" % e, {"scenario": "unhashable"})
        if ok and len(count) != 4:
            out.fail("an uncached cells was not re-executed on every call (%d executions for 4 calls)" % len(count),
                     {"scenario": "unhashable"})
        if len(s.u):
            out.fail("an uncached cells holds values", {"scenario": "unhashable"})
        stats["unhashable_scenarios"] += 1
    close_all()


# ----------------------------------------------------------------------------- value layer: chains, every assignment

XCFG = {
    "weights": {"eval": 1}, "compare": ["values", "graph", "refgraph"],
    "rule": "value layer: chains top -> ... -> leaf of 3 and 4 cells, the leaf reading ONE reference by name / by each "
            "attribute-path form (own space, other space; model-level: implementation only), under EVERY assignment of "
            "the cached flag (2^n), flags given at creation or switched after the first evaluation; history: evaluate, "
            "ask again, change the reference, evaluate top and middle, delete it, evaluate, re-create it, evaluate",
}
CHAIN_FORMS = ("rn", "ra-own", "ra-other", "rg1", "rg2", "rg4")


def chain_case(n, form, leaf_space, flags, flip):
    """cells 0 = leaf ... n-1 = top, all with one parameter; flags[i] = cached flag of cells i; flip: every cells is
    created cached and the flags are switched to `flags` after the first round of evaluations"""
    P0 = ("p", 0)
    own, other = (0, 2) if leaf_space == 0 else (2, 0)
    if form == "rn":
        read, rid = ("rn", own), own
    elif form == "ra-own":
        read, rid = ("ra", own), own
    elif form == "ra-other":
        read, rid = ("ra", other), other
    else:
        read, rid = ("rg", 4, int(form[2])), 4
    cells = [{"id": 0, "nparams": 1, "space": leaf_space, "body": ("add", read, P0)}]
    for i in range(1, n):
        cells.append({"id": i, "nparams": 1, "space": 0, "body": ("add", ("call", i - 1, [P0]), ("lit", 10 ** i))})
    for c, f in zip(cells, flags):
        c.update(cached=True if flip else f, allow_none=False)
    if rid == 4:
        cells[0]["glob"] = [4, 5]
    top, mid = str(n - 1), str(n - 2)
    ev = [["eval", top, "1"], ["eval", mid, "2"], ["eval", top, "1"]]
    ops = list(ev)
    if flip:
        ops += [["setcached", str(i), "0"] for i, f in enumerate(flags) if not f] + ev
    ops += [["setref", str(rid), "7"]] + ev + [["delref", str(rid)], ["eval", top, "1"], ["setref", str(rid), "2"]] + ev
    return {"cells": cells, "refs": {0: 1, 1: 2, 2: 3, 3: 4, 4: 5, 5: 6}, "n_rn": 2, "maxdepth": None, "ops": ops,
            "label": "chain/%d cells/%s/leaf in space %d/%s/%s" % (
                n, form, leaf_space, "flip" if flip else "static", "".join("c" if f else "u" for f in flags))}


def chain_cases(ctx):
    """the cases that go through the Lean correspondence (modelled forms; one case per assignment) and, for every
    (length, form, leaf space, static / flip), the all-cached base case on which `chain_oracle` runs EVERY assignment"""
    cases = []
    for n in (3, 4):
        allf = list(itertools.product([True, False], repeat=n))
        for form in CHAIN_FORMS:
            for leaf_space in (0, 1):
                for flip in (False, True):
                    cases.append(chain_case(n, form, leaf_space, allf[0], flip))       # base: the oracle enumerates
        # correspondence: every assignment with a cached top (the ones in which a value can go stale) for the
        # attribute-path forms; quick: 3 cells all of them, 4 cells those with two or more uncached cells in a row
        for form in ("ra-own", "ra-other", "rn"):
            for fl in allf[1:]:
                if not fl[-1]:
                    continue
                row = max(len(r) for r in "".join("c" if f else "u" for f in fl).split("c"))
                if ctx.tier != "thorough" and (n == 4 and row < 2 or form == "rn" and row < 2):
                    continue
                cases.append(chain_case(n, form, (n + len(form)) % 2, fl, flip=(sum(fl) + n) % 2 == 0))
    return cases


def _chain_results(case):
    from ..execworld import ExecImpl
    impl = ExecImpl(case["cells"], case["refs"], case["n_rn"], None, log=False)
    try:
        res = []
        for op in case["ops"]:
            r = impl.apply(op)
            if op[0] == "eval":
                res.append(r.split(" tb=")[0])
            for cid, c in impl.cells.items():
                if not c._impl.is_cached and len(c._impl.data):
                    res.append("UNCACHED-HOLDS c%d" % cid)
        return res
    finally:
        impl.close()


def chain_oracle(case, recs, out, stats):
    """on the all-cached base case of a chain: the same history under EVERY other assignment gives the same results"""
    from .. import exec_props as X
    m = re.match(r"chain/(\d) cells/(\S+)/leaf in space (\d)/(static|flip)/(c+)$", case.get("label", ""))
    if not m:
        # a case of one assignment (replayed, or a correspondence case): compare it with its all-cached twin
        m2 = re.match(r"chain/(\d) cells/(\S+)/leaf in space (\d)/(static|flip)/([cu]+)$", case.get("label", ""))
        if not m2:
            return False
        n, form, ls, flip = int(m2.group(1)), m2.group(2), int(m2.group(3)), m2.group(4) == "flip"
        todo = [tuple(ch == "c" for ch in m2.group(5))]
    else:
        n, form, ls, flip = int(m.group(1)), m.group(2), int(m.group(3)), m.group(4) == "flip"
        todo = list(itertools.product([True, False], repeat=n))[1:]
    base = chain_case(n, form, ls, (True,) * n, flip)
    want = [r for r, op in zip(_chain_results(base), [o for o in base["ops"] if o[0] == "eval"])]
    for fl in todo:
        c = chain_case(n, form, ls, fl, flip)
        got = [r for r in _chain_results(c)]
        stats["chain_replays"] += 1
        bad = [r for r in got if r.startswith("UNCACHED-HOLDS")]
        if bad:
            out.fail("an uncached cells holds values (%s)" % bad[0], X.case_json(c))
            continue
        if got != want:
            i = next((k for k, (a, b) in enumerate(zip(got, want)) if a != b), None)
            evs = [o for o in c["ops"] if o[0] == "eval"]
            out.fail("results differ between the cached-flag assignment %s and all-cached: %s gives %s vs %s" % (
                "".join("c" if f else "u" for f in fl), " ".join(evs[i]) if i is not None else "?",
                got[i] if i is not None else got, want[i] if i is not None else want), X.case_json(c))
    return len(todo) > 1


def value_layer(ctx, out):
    from .. import exec_props as X
    sub = core.Outcome()
    X.run_family(ctx, sub, XCFG, chain_oracle, 0, 0, corpus_name="C09exec", structured=chain_cases(ctx))
    S.merge(out, sub)
    return sub.coverage


# ------------------------------------------------------------------------------ ItemSpace handles held outside

def run_item_handles(h, flags):
    """One history over a parametrised space S (cells u, w) whose ItemSpaces are reached from OUTSIDE without evaluating
    `S[i]` in the caller's formula: through references that hold the ItemSpace objects (T.sp1 = S[1]) and as arguments
    (by_arg(S[1], k)); `direct` evaluates S[1] itself (control).  flags: {"u": bool, "w": bool}.
    -> list of query results"""
    from ..impl import err_kind
    close_all()
    res = []
    try:
        with quiet():
            m = mx.new_model("H")
            P = m.new_space("P")
            P.b = 3
            S = m.new_space("S", formula="lambda i: None")
            S.a, S.P = 5, P
            S.new_cells("u", formula="def u(k): return 2 * k + a + P.b")
            S.new_cells("w", formula="def w(k): return u(k) + i * 100")
            T = m.new_space("T")
            T.S, T.sp1, T.sp2 = S, S[1], S[2]
            T.new_cells("by_ref", formula="def by_ref(k): return sp1.u(k) + sp2.w(k)")
            T.new_cells("by_arg", formula="def by_arg(space, k): return space.u(k) * 2")
            T.new_cells("via_w", formula="def via_w(k): return sp1.w(k)")
            T.new_cells("direct", formula="def direct(k): return S[1].u(k) + S(2).w(k)")
            flags = dict(flags)

            def force():
                for n in ("u", "w"):
                    if S.cells[n].is_cached != flags[n]:
                        S.cells[n].is_cached = flags[n]
            force()
            nextra = 0
            for st in h["steps"]:
                k = st[0]
                if k == "query":
                    one = []
                    for call in (lambda: (S[1], S[2]) and None, lambda: T.by_ref(1), lambda: T.by_ref(2),
                                 lambda: T.by_arg(S[1], 1), lambda: T.by_arg(S[2], 2), lambda: T.via_w(1),
                                 lambda: T.direct(1), lambda: T.direct(2), lambda: S[1].w(2)):
                        try:
                            one.append(call())
                        except BaseException as e:      # noqa: BLE001
                            one.append("err " + err_kind(mx.get_error() if type(e).__name__ == "FormulaError" else e))
                    res.append(tuple(one[1:]))
                elif k == "formula_u":
                    S.u.formula = "def u(k): return %d * k + a + P.b" % st[1]
                elif k == "formula_w":
                    S.w.formula = "def w(k): return u(k) + i * 100 + %d" % st[1]
                elif k == "ref_a":
                    S.a = st[1]
                elif k == "ref_b":
                    P.b = st[1]
                elif k == "flip":
                    if not h.get("base_run"):
                        flags[st[1]] = not flags[st[1]]
                elif k == "clear_items":
                    S.clear_items()
                elif k == "newcells":
                    nextra += 1
                    S.new_cells("extra%d" % nextra, formula="lambda: 0")
                elif k == "delcells" and nextra:
                    del S.cells["extra%d" % nextra]
                    nextra -= 1
                elif k == "rebind":
                    T.sp1 = S[1]
                force()
    finally:
        close_all()
    return res


def item_handle_spec(h):
    """the query results by the harness' own reading of the definitions in force at each query"""
    mult, add, a, b = 2, 0, 5, 3
    out = []

    def u(k):
        return mult * k + a + b

    def w(i, k):
        return u(k) + i * 100 + add
    for st in h["steps"]:
        if st[0] == "query":
            out.append((u(1) + w(2, 1), u(2) + w(2, 2), u(1) * 2, u(2) * 2, w(1, 1), u(1) + w(2, 1), u(2) + w(2, 2), w(1, 2)))
        elif st[0] == "formula_u":
            mult = st[1]
        elif st[0] == "formula_w":
            add = st[1]
        elif st[0] == "ref_a":
            a = st[1]
        elif st[0] == "ref_b":
            b = st[1]
    return out


ITEM_EDITS = ["formula_u", "formula_u", "formula_w", "ref_a", "ref_b", "flip", "clear_items", "newcells", "delcells", "rebind"]


def gen_item_handles(rng):
    steps = [["query"]]
    for _ in range(rng.randrange(2, 7)):
        for _ in range(rng.randrange(1, 3)):
            k = rng.choice(ITEM_EDITS)
            steps.append([k, rng.randrange(3, 9)] if k in ("formula_u", "formula_w", "ref_a", "ref_b") else
                         [k, rng.choice(["u", "w"])] if k == "flip" else [k])
        steps.append(["query"])
    return {"scenario": "item-handles", "steps": steps}


def check_item_handles(h, out, stats):
    base = run_item_handles(dict(h, base_run=True), {"u": True, "w": True})
    want = item_handle_spec(h)
    stats["item_handle_histories"] += 1
    if base != want:
        i = next((i for i, (x, y) in enumerate(zip(base, want)) if x != y), 0)
        out.fail("ItemSpaces reached through references / arguments, all cells cached: query %d gives %s, the definitions in "
                 "force give %s" % (i, base[i], want[i]), dict(h, flags={"u": True, "w": True}))
        return False
    for fu, fw in ((False, True), (True, False), (False, False)):
        got = run_item_handles(h, {"u": fu, "w": fw})
        stats["item_handle_replays"] += 1
        if got != base:
            i = next((i for i, (x, y) in enumerate(zip(got, base)) if x != y), 0)
            out.fail("results differ between the cached-flag assignment u=%s w=%s and all-cached (ItemSpaces reached through "
                     "references / arguments): query %d gives %s vs %s" % (fu, fw, i, got[i], base[i]),
                     dict(h, flags={"u": fu, "w": fw}))
            return False
    return True


def item_handles(ctx, out, stats):
    hists = [{"scenario": "item-handles", "steps": [["query"], [k, 7], ["query"], [k, 4], ["query"]]}
             for k in ("formula_u", "formula_w", "ref_a", "ref_b")]
    hists += [{"scenario": "item-handles", "steps": [["query"], [k], ["query"], ["formula_u", 6], ["query"]]}
              for k in ("clear_items", "newcells", "rebind")]
    hists += [gen_item_handles(ctx.rng("item-handles", i)) for i in range(ctx.n(25, 500))]
    bad = 0
    for h in hists:
        if not check_item_handles(h, out, stats):
            bad += 1
            if bad >= 3:
                break


def run(ctx, out):
    stats = collections.Counter()
    vcov = value_layer(ctx, out)
    n = ctx.n(48, 600)
    allassign = list(itertools.product([True, False], repeat=len(W.CELLS)))
    nontrivial, samples = 0, []
    hists = S.load_corpus("C09")
    ncorpus = len(hists)
    for i in range(n):
        hists.append(gen_ops(ctx.rng("hist", i)))
    for i, ops in enumerate(hists):
        # corpus histories run under every assignment; the numbering of the random ones does not depend on the
        # number of corpus files
        j = i - ncorpus + 1
        rng = ctx.rng("assign", j)
        if ctx.tier == "thorough" or i < ncorpus or j % 3 == 0:
            assignments = allassign[1:]
        else:
            assignments = [allassign[-1]] + rng.sample(allassign[1:-1], 4)
        if check_history(ops, out, stats, assignments):
            nontrivial += 1
        if len(samples) < 2:
            samples.append([repr(o) for o in ops])
        if len([f for f in out.failures if not f.get('key')]) >= 4:
            break
    enumerate_single_edits(ctx, out, stats, allassign)
    unhashable(out, stats)
    item_handles(ctx, out, stats)
    out.coverage.update({"evaluations": len(hists) * 5, "programs": len(hists), "distinct_nontrivial": nontrivial,
                         "rule": RULE, "samples": samples, "input_distribution": dict(stats),
                         "exhaustive": ctx.tier == "thorough", "traces_validated_against_impl": len(hists),
                         "value_layer_chains": vcov})


def replay(ctx, payload, out):
    h = payload.get("history") or {}
    if h.get("scenario") == "item-handles":
        check_item_handles({k: v for k, v in h.items() if k != "flags"}, out, collections.Counter())
        return
    if h.get("scenario") == "unhashable":
        unhashable(out, collections.Counter())
        return
    if "cells_raw" in h:
        from .. import exec_props as X
        X.replay_family(ctx, payload, out, XCFG, chain_oracle)
        return
    if "ops" in h:
        ops = S.ops_from_json(h)
        fl = h.get("flags")
        assignments = [tuple(fl[n] for n in W.CELLS)] if fl else list(itertools.product([True, False], repeat=4))[1:]
        check_history(ops, out, collections.Counter(), assignments)
