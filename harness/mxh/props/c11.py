"""C11 – rejected edits change nothing; the inheritance relation stays well-formed.

Oracle (implementation only): in random histories with a deliberately malformed stream (each
rejection reason x the operations that can trigger it, at random points) the complete public
description of the model – spaces, direct bases, linearisations, cells with formulas and
flags, references, inputs and held values – is taken before every operation; whenever the
operation raises, the description afterwards must be identical.  After every accepted
operation: the base relation is acyclic, every space has a C3 linearisation (checked with
Python's own C3 and the Lean kernel), every space, cells and reference name is a valid identifier
not starting with an underscore.  A refused operation also leaves every space, cells and reference
the same OBJECT (handles taken before stay valid).
Lean (Props/C11.lean): the validation kernel – name validity, acyclicity and existence of the
linearisation are decided by total functions, and accepted base edits keep them.
"""
import collections
import keyword

from .. import core
from .. import structworld as W
from .. import struct_props as S
from .. import struct_api_gen as api
from .. import batch_api
from ..impl import mx, close_all, quiet

CFG = {
    "weights": {"new_space": 1.5, "del_space": 0.4, "new_cells": 2.5, "set_formula": 1.5, "set_cached": 0.4,
                "del_cells": 1.2, "rename_cells": 0.8, "add_bases": 2.5, "remove_bases": 1.0, "set_ref": 2.0,
                "del_ref": 0.8, "set_mref": 0.4, "set_value": 1.0, "eval": 2.0, "evalall": 0.5, "bad": 5.0,
                "rename_space": 0.8},
    "clash_wide": True,
    "rename_bad": 0.5,      # half of the space renames of the random histories offer a name that is no name
}
# a second stream of random histories (the draws of the first do not move): the malformed part offers formulas as
# Python OBJECTS (struct_props.gen_bad_obj / formula_objs) through every API that takes a formula; parametrised
# spaces and their ItemSpaces, more inputs - the things such an edit can destroy
CFG_OBJ = dict(CFG, weights=dict(CFG["weights"], bad=2.0, bad_obj=4.0, set_param=0.8, eval_item=0.8, set_value=2.0,
                                 add_bases=1.5, new_cells=3.0))
RULE = ("random histories (12-26 ops) in which about a quarter of the operations are invalid on purpose (invalid and "
        "clashing names, cyclic bases, bases without linearisation, deleting/renaming derived members, malformed "
        "formulas - as source text and as Python objects: lambdas defined several on a line, functions without "
        "retrievable source, builtins, partials, callables, unusual signatures, through new_cells / cells.formula / "
        "set_formula / defcells / the formula of a space -, unassignable values); non-trivial = at least two different "
        "rejection reasons occurred after the model held values")


KNOWN_SPACE_FORMULA = "C11-space-formula-discarded-before-validation"
KNOWN_SOURCELESS = "C11-sourceless-function-formula"


def sourceless_function(obj):
    """a Python function whose source text cannot be retrieved (built by exec / eval / types.FunctionType)"""
    import inspect
    import types
    if not isinstance(obj, types.FunctionType):
        return False
    try:
        inspect.getsource(obj)
        return False
    except (OSError, TypeError):
        return True


def target_sourceless(live, op):
    """the cells an operation is about (or a cells deriving from it) has a formula without source text: it was
    created from a function whose source cannot be retrieved (modelx warns and accepts)"""
    try:
        if op[0] in ("set_formula", "set_formula_obj", "rename_cells", "set_cached", "del_cells", "set_value"):
            sp = live.space(op[1])
            for impl in api.subs_of(sp):
                c = impl.cells.get(op[2]) if hasattr(impl.cells, "get") else None
                if c is not None and c.formula is not None and c.formula.source is None:
                    return True
    except Exception:   # noqa
        return False
    return False


def classify(live, op, result, before, after, was_sourceless):
    """known findings, recognised from the operation, its outcome and what the implementation did"""
    from .. import formula_objs as FO
    if op[0] in batch_api.KINDS:
        return batch_api.classify(live, op, result, before, after)
    if result == "err Deleted":
        # an operation that trips over a reference to a deleted object half-way is the
        # recorded dangling-reference finding (C13-deleted-object-in-formula-globals)
        return "C11-dangling-reference"
    text = str(live.last_exc) if live.last_exc is not None else ""
    if op[0] in ("set_param_obj", "set_param") and before["spaces"].get(op[1], {}).get("param") \
            and not after["spaces"].get(op[1], {}).get("param"):
        # a parametrised space was given a formula modelx refuses: the old formula and the ItemSpaces are
        # discarded before the new one is built.  Every difference is the space's formula / ItemSpaces, or a
        # held value that went with the ItemSpaces
        ok = True
        for p in set(before["spaces"]) | set(after["spaces"]):
            a, b = before["spaces"].get(p), after["spaces"].get(p)
            if a is None or b is None:
                ok = False
                break
            for key in a:
                if a[key] == b[key] or (p == op[1] and key in ("param", "items", "param_src")):
                    continue
                if key == "cells" and set(a[key]) == set(b[key]) and all(
                        {k: v for k, v in a[key][n].items() if k != "values"} == {k: v for k, v in b[key][n].items() if k != "values"}
                        and set(b[key][n]["values"]) <= set(a[key][n]["values"])
                        and all(not v.endswith("I") for v in set(a[key][n]["values"]) - set(b[key][n]["values"]))
                        for n in a[key]):
                    continue
                ok = False
        if ok and before["mrefs"] == after["mrefs"]:
            return KNOWN_SPACE_FORMULA
    if op[0] == "set_formula_obj" and text == "Invalid argument func: None" and sourceless_function(FO.make(op[3])):
        # a function whose source cannot be retrieved: new_cells accepts it (with a warning, source None); given to
        # an EXISTING cells it passes the validation up front, and the Formula is then rebuilt from its source
        # text - None - after the values and inputs were cleared
        return KNOWN_SOURCELESS
    if was_sourceless and result in ("err Attribute", "err Value", "err Type"):
        # ... and a cells that got such a formula at its creation raises half-way through later edits of it
        # (rename, formula assignment: the Formula has no source and no `_is_lambda`)
        return KNOWN_SOURCELESS
    return None


def valid_name(n):
    return n.isidentifier() and not keyword.iskeyword(n) and not n.startswith("_")


class H(S.Hooks):
    def start(self, live, stats):
        self.reasons = set()

    def before(self, live, ops, k, op, stats):
        if getattr(self, "broken", False):
            self.desc = None
            return
        self.desc = W.describe(live.m, with_items=True) if op[0] not in ("eval", "evalall", "eval_item") else None
        self.ident = api.identities(live.m) if self.desc is not None else None
        self.was_sourceless = target_sourceless(live, op) if self.desc is not None else False

    def after(self, live, ops, k, op, result, out, stats):
        if op[0] in ("eval", "evalall", "eval_item") or getattr(self, "broken", False):
            return
        hist = S.hist_json(ops, k)
        if result.startswith("err"):
            stats["rejections:" + op[0] + ":" + result[4:]] += 1
            self.reasons.add(op[0] + result)
            if len(self.reasons) >= 2:
                self.nontrivial = True
            try:
                after = W.describe(live.m, with_items=True)
            except Exception as e:   # noqa
                # the refused edit left the model in a state that cannot even be described (e.g. a deleted
                # space still listed among the bases of a live one)
                out.fail("%s raised (%s) and left the model in a state that cannot be described: %s: %s" % (
                    op[0], result, type(e).__name__, e), hist)
                self.broken = True
                return
            # "leaves every definition (spaces, bases, cells and formulas, references, inputs) exactly as it was, and all
            # values stay correct": a COMPUTED value that a refused edit discarded (the request was undone after a
            # namespace had notified) is not a changed definition and not an incorrect value - it is computed again on
            # demand.  What may not happen: an input lost, a value changed, a value appearing.  (An earlier version
            # reported discarded computed values too: more than the property states - DESIGN 6.4, false alarms.)
            expected = _without_lost_computed(self.desc, after)
            if expected != self.desc:
                stats["refusals_that_discarded_computed_values"] += 1
            if after != expected:
                key = classify(live, op, result, self.desc, after, self.was_sourceless)
                out.fail("%s raised (%s) but changed the model: %s" % (op[0], result, _diff(self.desc, after)), hist,
                         key=key)
            elif self.ident is not None and api.identities(live.m) != self.ident:
                # the same description, but not the same objects: handles taken before the refused edit are dead
                out.fail("%s raised (%s) but replaced objects of the model: %s" % (
                    op[0], result, api.identity_diff(self.ident, api.identities(live.m))), hist)
            else:
                # the library's own self-check of the model (graph of spaces against the tree, tracked references)
                try:
                    live.m._impl._check_sanity()
                except AssertionError as e:
                    out.fail("%s raised (%s) and the model fails its own self-check afterwards: %s" % (
                        op[0], result, core.impl_error_text(e)), hist)
            return
        defs = W.definitions(live.m)
        py = W.python_c3(defs)
        for p, m in py.items():
            if m is None:
                out.fail("after an accepted %s space %s has no C3 linearisation (or the base relation is cyclic)" % (
                    op[0], p), hist)
        for p, s in W.all_spaces(live.m):
            if not valid_name(p.rsplit(".", 1)[-1]):
                out.fail("space name %r is not a valid identifier" % p, hist)
            for cn in s.cells:
                if not valid_name(cn):
                    out.fail("cells name %r in %s is not a valid identifier" % (cn, p), hist)
        # The property's names clause speaks of "user-created spaces or cells": names of references (space level or
        # model level) are not judged here.  (An earlier version applied the clause to references too and reported
        # `setattr(model, "1a", v)`, which modelx accepts: more than the property states - DESIGN 6.4, false alarms.)


class HB(H):
    """the hooks of C11 plus the correspondence with the mechanism model (driver layer `smech`) - used for the
    histories with multi-member calls, which no other property runs"""
    def start(self, live, stats):
        H.start(self, live, stats)
        from ..mechworld import MechCorr
        self.mech = MechCorr()

    def before(self, live, ops, k, op, stats):
        H.before(self, live, ops, k, op, stats)
        self.mech.before(live, k, op)

    def after(self, live, ops, k, op, result, out, stats):
        if op[0] != "evalall":
            self.mech.after(live, k, op, result)
        H.after(self, live, ops, k, op, result, out, stats)

    def end(self, live, ops, out, stats):
        self.mech.finish(out, lambda kk: S.hist_json(ops, kk), stats)


def _without_lost_computed(before, after):
    """`before` without the computed values (entries ending in C; inputs end in I) of cells that `after` still has
    with otherwise the same description and no such entry: what a refused edit may legitimately leave"""
    import copy
    exp = copy.deepcopy(before)
    try:
        for p, sd in exp["spaces"].items():
            ad = after["spaces"].get(p)
            if not isinstance(ad, dict):
                continue
            for cn, cd in (sd.get("cells") or {}).items():
                acd = (ad.get("cells") or {}).get(cn)
                if not isinstance(acd, dict) or "values" not in cd or "values" not in acd:
                    continue
                have = set(acd["values"])
                cd["values"] = [v for v in cd["values"] if v in have or not str(v).endswith("C")]
    except Exception:   # noqa: an unexpected shape: compare strictly
        return before
    return exp


def _diff(a, b):
    out = []
    for p in sorted(set(a["spaces"]) | set(b["spaces"])):
        sa, sb = a["spaces"].get(p), b["spaces"].get(p)
        if sa != sb:
            if sa is None or sb is None:
                out.append("space %s %s" % (p, "appeared" if sa is None else "vanished"))
                continue
            for key in sa:
                if sa[key] != sb[key]:
                    out.append("%s.%s: %r -> %r" % (p, key, sa[key], sb[key]))
    if a["mrefs"] != b["mrefs"]:
        out.append("model refs %r -> %r" % (a["mrefs"], b["mrefs"]))
    return "; ".join(out)[:600]


def run(ctx, out):
    stats = S.run_struct(ctx, out, "C11", CFG, H, 80, 1500, RULE + (
        "; plus name-clash histories (struct_props.gen_clash): every kind of member and the model-level references are "
        "named from one alphabet of four names, bases with several sub spaces, re-deriving edits after every request - "
        "the refusals decided by what a SUB space uses a name for"), clash=(40, 800))
    fam = S.refusal_family()
    refused = S.run_family(out, stats, fam, H, CFG, "refusal_family")
    out.coverage["evaluations"] += len(fam)
    out.coverage["input_distribution"] = dict(stats)
    out.coverage["rule"] += ("; plus the refusal family (struct_props.refusal_family): %d programs in which a request "
                             "made to a base has to be refused because of what one of SEVERAL sub spaces uses the name "
                             "for (model-level reference of the name created before / after / not at all), followed by "
                             "re-deriving edits; %d contain a refused edit" % (len(fam), refused))
    api.run_struct(ctx, out, stats, H, CFG, S.run_one)
    batch_api.run(ctx, out, stats, HB, CFG, S.run_one, S.run_family)
    fam = S.naming_family()
    refused = S.run_family(out, stats, fam, H, CFG, "naming_family")
    out.coverage["evaluations"] += len(fam)
    out.coverage["rule"] += ("; plus the naming family (struct_props.naming_family): %d programs = (each of %d names that "
                             "are no names: leading underscore, leading digit, keyword, blank inside, empty, dotted, ...) x "
                             "(every entry point that gives or changes a name: new_space / rename of top-level, nested, base "
                             "and parametrised spaces, new_space(formula=), copy(name=), new_cells / rename of cells, cells "
                             "through the current space, references by attribute / set_ref / model level / new_space(refs=), "
                             "module, pandas and csv imports), on a model holding inputs, values and ItemSpaces; %d contain "
                             "a refused edit" % (len(fam), len(S.BAD_NAMES), refused))
    fam = S.formula_object_family()
    S.run_family(out, stats, fam, H, CFG, "formula_object_family")
    out.coverage["evaluations"] += len(fam)
    n_obj = ctx.n(30, 600)
    for i in range(n_obj):
        rng = ctx.rng("objhist", i)
        sub = core.Outcome()
        S.run_one([], sub, stats, H(), CFG_OBJ, rng=rng, n_ops=rng.randint(14, 28))
        S.merge(out, sub)
        stats["formula_object_histories"] += 1
        if len([f for f in out.failures if not f.get("key")]) >= 6:
            break
    out.coverage["evaluations"] += n_obj
    out.coverage["rule"] += ("; plus the formula-object family (struct_props.formula_object_family): for each of %d kinds "
                             "of Python object offered as a formula, every API that accepts one (cells.formula =, "
                             "set_formula, defcells on an existing cells, new_cells, the formula of a parametrised space "
                             "by attribute and by method, new_space(formula=)) on a derived cells, a cells holding "
                             "inputs, a caller, a space with ItemSpaces; plus %d random histories whose malformed stream "
                             "offers such objects (struct_props.gen_bad_obj)" % (len(fam), n_obj))
    out.coverage["input_distribution"] = dict(stats)


def replay(ctx, payload, out):
    ops = (payload.get("history") or {}).get("ops") or []
    batch = any(isinstance(o, list) and o and o[0] in batch_api.KINDS for o in ops)
    S.replay_struct(payload, out, HB if batch else H, CFG)
