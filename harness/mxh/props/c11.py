"""C11 – rejected edits change nothing; the inheritance relation stays well-formed.

Oracle (implementation only): in random histories with a deliberately malformed stream (each
rejection reason x the operations that can trigger it, at random points) the complete public
description of the model – spaces, direct bases, linearisations, cells with formulas and
flags, references, inputs and held values – is taken before every operation; whenever the
operation raises, the description afterwards must be identical.  After every accepted
operation: the base relation is acyclic, every space has a C3 linearisation (checked with
Python's own C3 and the Lean kernel), every space, cells and reference name is a valid identifier
not starting with an underscore.  A refused operation also leaves every space, cells and reference
the same OBJECT (handles taken before stay valid).
Lean (Props/C11.lean): the validation kernel – name validity, acyclicity and existence of the
linearisation are decided by total functions, and accepted base edits keep them.
"""
import collections
import keyword

from .. import core
from .. import structworld as W
from .. import struct_props as S
from .. import struct_api_gen as api
from ..impl import mx, close_all, quiet

CFG = {
    "weights": {"new_space": 1.5, "del_space": 0.4, "new_cells": 2.5, "set_formula": 1.5, "set_cached": 0.4,
                "del_cells": 1.2, "rename_cells": 0.8, "add_bases": 2.5, "remove_bases": 1.0, "set_ref": 2.0,
                "del_ref": 0.8, "set_mref": 0.4, "set_value": 1.0, "eval": 2.0, "evalall": 0.5, "bad": 5.0},
    "clash_wide": True,
}
RULE = ("random histories (12-26 ops) in which about a quarter of the operations are invalid on purpose (invalid and "
        "clashing names, cyclic bases, bases without linearisation, deleting/renaming derived members, malformed "
        "formulas, unassignable values); non-trivial = at least two different rejection reasons occurred after the "
        "model held values")


def valid_name(n):
    return n.isidentifier() and not keyword.iskeyword(n) and not n.startswith("_")


class H(S.Hooks):
    def start(self, live, stats):
        self.reasons = set()

    def before(self, live, ops, k, op, stats):
        if getattr(self, "broken", False):
            self.desc = None
            return
        self.desc = W.describe(live.m) if op[0] not in ("eval", "evalall") else None
        self.ident = api.identities(live.m) if self.desc is not None else None

    def after(self, live, ops, k, op, result, out, stats):
        if op[0] in ("eval", "evalall") or getattr(self, "broken", False):
            return
        hist = S.hist_json(ops, k)
        if result.startswith("err"):
            stats["rejections:" + op[0] + ":" + result[4:]] += 1
            self.reasons.add(op[0] + result)
            if len(self.reasons) >= 2:
                self.nontrivial = True
            try:
                after = W.describe(live.m)
            except Exception as e:   # noqa
                # the refused edit left the model in a state that cannot even be described (e.g. a deleted
                # space still listed among the bases of a live one)
                out.fail("%s raised (%s) and left the model in a state that cannot be described: %s: %s" % (
                    op[0], result, type(e).__name__, e), hist)
                self.broken = True
                return
            if after != self.desc:
                # an operation that trips over a reference to a deleted object half-way is the
                # recorded dangling-reference finding (C13-deleted-object-in-formula-globals)
                key = "C11-dangling-reference" if result == "err Deleted" else None
                out.fail("%s raised (%s) but changed the model: %s" % (op[0], result, _diff(self.desc, after)), hist,
                         key=key)
            elif self.ident is not None and api.identities(live.m) != self.ident:
                # the same description, but not the same objects: handles taken before the refused edit are dead
                out.fail("%s raised (%s) but replaced objects of the model: %s" % (
                    op[0], result, api.identity_diff(self.ident, api.identities(live.m))), hist)
            return
        defs = W.definitions(live.m)
        py = W.python_c3(defs)
        for p, m in py.items():
            if m is None:
                out.fail("after an accepted %s space %s has no C3 linearisation (or the base relation is cyclic)" % (
                    op[0], p), hist)
        for p, s in W.all_spaces(live.m):
            if not valid_name(p.rsplit(".", 1)[-1]):
                out.fail("space name %r is not a valid identifier" % p, hist)
            for cn in s.cells:
                if not valid_name(cn):
                    out.fail("cells name %r in %s is not a valid identifier" % (cn, p), hist)
        for rn in api.bad_ref_names(live.m):
            out.fail("reference name %r is not a valid identifier" % rn, hist)


def _diff(a, b):
    out = []
    for p in sorted(set(a["spaces"]) | set(b["spaces"])):
        sa, sb = a["spaces"].get(p), b["spaces"].get(p)
        if sa != sb:
            if sa is None or sb is None:
                out.append("space %s %s" % (p, "appeared" if sa is None else "vanished"))
                continue
            for key in sa:
                if sa[key] != sb[key]:
                    out.append("%s.%s: %r -> %r" % (p, key, sa[key], sb[key]))
    if a["mrefs"] != b["mrefs"]:
        out.append("model refs %r -> %r" % (a["mrefs"], b["mrefs"]))
    return "; ".join(out)[:600]


def run(ctx, out):
    stats = S.run_struct(ctx, out, "C11", CFG, H, 80, 1500, RULE + (
        "; plus name-clash histories (struct_props.gen_clash): every kind of member and the model-level references are "
        "named from one alphabet of four names, bases with several sub spaces, re-deriving edits after every request - "
        "the refusals decided by what a SUB space uses a name for"), clash=(40, 800))
    fam = S.refusal_family()
    refused = S.run_family(out, stats, fam, H, CFG, "refusal_family")
    out.coverage["evaluations"] += len(fam)
    out.coverage["input_distribution"] = dict(stats)
    out.coverage["rule"] += ("; plus the refusal family (struct_props.refusal_family): %d programs in which a request "
                             "made to a base has to be refused because of what one of SEVERAL sub spaces uses the name "
                             "for (model-level reference of the name created before / after / not at all), followed by "
                             "re-deriving edits; %d contain a refused edit" % (len(fam), refused))
    api.run_struct(ctx, out, stats, H, CFG, S.run_one)
    out.coverage["input_distribution"] = dict(stats)


def replay(ctx, payload, out):
    S.replay_struct(payload, out, H, CFG)
